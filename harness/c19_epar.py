"""C19 part h: what part g (c19_dpar.py / Model/ConfigD) answers `unsupported` for.

Lean model `TfPwaV.Model.ConfigE` (driver prefix C19h) against `ConfigLoader(dict)`; theorems in `TfPwaV.Props.C19h`.
Decays of BWR_LS / BWR_LS2 / MultiBW(R) particles (class ParticleDecayLS), ls_selector / params_polar / disable, shared
params_head (Variable overwrite), Flatte / Kmatrix / MultiBW line-shape names, coef_head on a particle of several chains
(rewriting of particle_config["coef_head"]), constrains.decay.decay_d, constrains.pre_trans / from_trans, export -> reload
of cards with decay-entry parameters and user ls_list.  3-body entries and repeated names: statement-level checks only.
Used by harness/c19.py (correspond_epar / search_epar)."""
import contextlib
import copy
import io
import json

import c19_dpar as G

OPS = ("chains", "ls", "export", "reload", "params", "ties", "attrs", "trans")
LS_SHAPES = ["BWR_LS", "BWR_LS", "BWR_LS2", "MultiBWR", "MultiBW"]
FLATTE = ["Flatte", "Flatte2", "FlatteC", "FlatteGen"]
OUTSIDE = ["KMatrixSplitLS", "KmatrixSimple"]
DICT_PROBE = 21


# --------------------------------------------------------------------------------------------------------------
# grammar: a part-g card + the features of part h
# --------------------------------------------------------------------------------------------------------------

def _res_dicts(c19, cfg, share):
    part = cfg["particle"]
    out = [(k, v) for k, v in part.items() if isinstance(v, dict) and not k.startswith("$") and k != "A" and k not in c19.FINALS]
    for src in share.values():
        out += [(k, v) for k, v in src.items() if isinstance(v, dict) and k != "A" and k not in c19.FINALS]
    return out


def _entries(cfg):
    for core, outs in cfg["decay"].items():
        for sub in G.subs_of(outs):
            if sub:
                yield core, sub


def set_shape(rnd, d, m):
    """put line-shape model `m` with the arguments its constructor needs into particle dict `d`"""
    for k in ("model", "bw"):
        d.pop(k, None)
    d[rnd.choice(["model", "bw"])] = m
    if m in ("MultiBWR", "MultiBW", "KMatrixSingleChannel"):
        n = rnd.choice([1, 2, 2, 3])
        d["mass_list"] = [round(2.0 + 0.3 * i, 2) for i in range(n)]
        d["width_list"] = [round(0.05 + 0.01 * i, 3) for i in range(n)]
        if m == "KMatrixSingleChannel":
            d["m1"], d["m2"] = 0.3, 0.2
            d.setdefault("mass", 2.1)
    if m in FLATTE:
        d["mass_list"] = [[0.1, 0.2], [0.5, 0.5], [0.3, 0.4]][:rnd.choice([1, 2, 2, 3])]
        d.setdefault("mass", 2.2)
        d.pop("float", None)      # `float: g` on a Flatte particle: AttributeError ('float' object has no attribute 'freed'), not part of this model
    if m == "Kmatrix":
        d.setdefault("mass", 2.2)
        d.setdefault("width", 0.1)
    if m == "BWR_LS":
        if rnd.random() < 0.4:
            d["same_ratio"] = rnd.random() < 0.5
        if rnd.random() < 0.4:
            d["same_phase"] = rnd.random() < 0.5
    if m in LS_SHAPES and rnd.random() < 0.35:
        dp = dict(d.get("decay_params") or {})
        if rnd.random() < 0.6:
            dp["same_phase"] = rnd.random() < 0.6
        if rnd.random() < 0.5:
            dp["same_ratio"] = rnd.random() < 0.6
        if rnd.random() < 0.15:
            dp["model"] = rnd.choice(["default", "LS-decay"])
        if dp:
            d["decay_params"] = dp


def gen_ecard(c19, rnd):
    cfg, share = G.gen_dcard(c19, rnd)
    res = _res_dicts(c19, cfg, share)
    feats = set()
    # line shapes
    for name, d in res:
        r = rnd.random()
        if r < 0.16:
            set_shape(rnd, d, rnd.choice(LS_SHAPES)); feats.add("ls-shape")
        elif r < 0.24:
            set_shape(rnd, d, rnd.choice(FLATTE)); feats.add("flatte")
        elif r < 0.29:
            set_shape(rnd, d, "Kmatrix"); feats.add("kmatrix")
        elif r < 0.31:
            set_shape(rnd, d, "KMatrixSingleChannel"); feats.add("kmatrix-single")
        elif r < 0.3106:
            set_shape(rnd, d, rnd.choice(OUTSIDE)); feats.add("outside-shape")
    # `float` on a Flatte particle (in whichever dict of the particle it sits): add_particle_constraints calls
    # p_i.width.freed() on a float -> AttributeError; not part of this model
    part = cfg["particle"]
    merged = {}
    for name, d in res:
        merged.setdefault(name, []).append(d)
    for name, ds in merged.items():
        if any(d.get("model", d.get("bw")) in FLATTE for d in ds):
            for d in ds:
                d.pop("float", None)
    # decay keywords
    heads = []
    for core, sub in _entries(cfg):
        o = {}
        if rnd.random() < 0.08:
            o["disable"] = rnd.choice([True, False, None])
        if rnd.random() < 0.08:
            o["params_polar"] = rnd.choice([True, False, None])
        if rnd.random() < 0.06:
            o["ls_selector"] = rnd.choice(["none", "zzz", None, "QR"] if rnd.random() < 0.985 else ["qr", "weight"])
        if rnd.random() < 0.05:
            o["model"] = rnd.choice(["LS-decay", "default"])
            if rnd.random() < 0.5:
                o["same_phase"] = rnd.random() < 0.5
            if rnd.random() < 0.5:
                o["same_ratio"] = rnd.random() < 0.5
        if rnd.random() < 0.07:
            if heads and rnd.random() < 0.6:
                o["params_head"] = rnd.choice(heads)        # the SAME head on two entries
            else:
                o["params_head"] = "G%d" % len(heads)
                heads.append(o["params_head"])
        if o:
            feats.update(o)
            sub.insert(rnd.randint(0, len(sub)), o)
    # more coef_head, also on oneself
    names = [k for k, _ in res]
    for name, d in res:
        if rnd.random() < 0.06 and names:
            d["coef_head"] = rnd.choice(names)
            feats.add("coef_head")
    # constraints
    cons = dict(cfg.get("constrains") or {})
    r = rnd.random()
    if r < 0.3:
        dec = dict(cons.get("decay") or {})
        k = rnd.random()
        if k < 0.3:
            dec["decay_d"] = rnd.choice([4.0, 2, 5.5])
        elif k < 0.6:
            dec["decay_d"] = [rnd.choice([4.0, 2.5, 6]) for _ in range(rnd.randint(1, 3))]
        elif k < 0.95:
            pool = ["A"] + list(cfg["decay"]) + names
            ks = rnd.sample(pool, min(len(pool), rnd.randint(1, 3)))
            dec["decay_d"] = {x: rnd.choice([4.5, 1.5, 7]) for x in dict.fromkeys(ks)}
        else:
            dec["decay_d"] = "3.5"
        cons["decay"] = dec
        feats.add("decay_d")
    if rnd.random() < 0.15:
        cons["pre_trans"] = {rnd.choice(names + ["foo"]) + rnd.choice(["_mass", "_width", ""]): {"model": "linear", "k": 2.0, "b": 0.5}
                             for _ in range(rnd.randint(1, 2))}
        feats.add("pre_trans")
    if rnd.random() < 0.2:
        ft = {}
        for i in range(rnd.randint(1, 2)):
            k = rnd.choice(names + ["foo"]) + rnd.choice(["_mass", "_width", "_x"])
            v = {"model": "linear", "k": 1.5, "b": 0.0}
            x = rnd.choice(["zz%d" % i, "zz0", rnd.choice(names + ["foo"]) + "_mass", None, None] + ([k] if rnd.random() < 0.15 else []))
            if x is not None:
                v["x"] = x
            ft[k] = v
        cons["from_trans"] = ft
        feats.add("from_trans")
    if cons:
        cfg["constrains"] = cons
    return cfg, share, feats


def corpus():
    p = {"$top": {"A": {"J": 1, "P": -1, "mass": 4.6}},
         "$finals": {"B": {"J": 1, "P": -1, "mass": 2.0}, "C": {"J": 0, "P": -1, "mass": 0.5}, "D": {"J": 0, "P": -1, "mass": 0.5}},
         "R": {"J": 1, "P": 1, "mass": 2.6, "width": 0.05}, "S": {"J": 1, "P": 1, "mass": 2.7, "width": 0.05},
         "T": {"J": 1, "P": 1, "mass": 2.7, "width": 0.05}}
    dat = {"dat_order": ["B", "C", "D"]}
    base = {"A": [["R", "D"], ["S", "D"]], "R": ["B", "C"], "S": ["B", "C"]}

    def card(decay, cons=None, **upd):
        q = copy.deepcopy(p)
        for k, v in upd.items():
            (q["$top"][k] if k == "A" else q[k]).update(v)
        c = {"data": dat, "decay": copy.deepcopy(decay), "particle": q}
        if cons:
            c["constrains"] = cons
        return c, {}
    out = []
    # shared params_head: the later Variable overwrites the earlier one (equal / shorter / longer)
    out.append(card({"A": [["R", "D", {"params_head": "HH"}], ["S", "D", {"params_head": "HH"}]], "R": ["B", "C"], "S": ["B", "C"]}))
    out.append(card({"A": [["R", "D", {"params_head": "HH"}], ["S", "D", {"params_head": "HH", "l_list": [0]}]], "R": ["B", "C"], "S": ["B", "C"]}))
    out.append(card({"A": [["R", "D", {"params_head": "HH", "l_list": [0]}], ["S", "D", {"params_head": "HH"}]], "R": ["B", "C"], "S": ["B", "C"]}, S={"coef_head": "R"}))
    # LS-decay particles
    for m in ("BWR_LS", "BWR_LS2"):
        out.append(card(base, R={"model": m}))
    out.append(card(base, R={"model": "BWR_LS", "same_phase": True}, S={"coef_head": "R"}))
    out.append(card(base, R={"model": "BWR_LS", "same_phase": True}, S={"coef_head": "R", "model": "BWR_LS", "decay_params": {"same_phase": True}}))
    out.append(card(base, R={"model": "BWR_LS", "decay_params": {"same_phase": True, "l_list": [0]}}))
    out.append(card({"A": [["R", "D"]], "R": ["B", "C"]}, A={"model": "BWR_LS"}))
    out.append(card(base, R={"model": "MultiBWR", "mass_list": [2.5, 2.6], "width_list": [0.1, 0.2]}))
    out.append(card(base, R={"model": "MultiBW", "mass_list": [2.5], "width_list": [0.1, 0.2, 0.3]}))
    # theta count follows particle.decay[0], also when its chain was cut
    out.append(card({"A": [["R", "D", {"l_list": [7]}], ["R", "C"]], "R": [["B", "C", {"l_list": [0]}], ["B", "D"]]}, R={"model": "BWR_LS"}))
    # keywords without effect on chains / names
    out.append(card({"A": [["R", "D", {"disable": True, "params_polar": True, "ls_selector": "zzz"}], ["S", "D"]], "R": ["B", "C"], "S": ["B", "C"]}))
    # line shapes
    out.append(card(base, R={"model": "Flatte", "mass_list": [[0.5, 0.5], [1.0, 1.0], [0.2, 0.3]]}, S={"model": "Kmatrix"}))
    out.append(card(base, R={"model": "Flatte"}))
    # coef_head on a particle of several chains, head met later: the loader rewrites coef_head to the particle itself
    out.append(card({"A": [["R", "D"], ["R", "C"], ["S", "D"]], "R": [["B", "C"], ["B", "D"]], "S": ["B", "C"]}, R={"coef_head": "S"}))
    out.append(card({"A": [["R", "D"], ["S", "D"], ["S", "C"]], "R": ["B", "C"], "S": [["B", "C"], ["B", "D"]]}, S={"coef_head": "R"}))
    out.append(card(base, R={"coef_head": "R"}))
    # decay_d (the card with {"R": 4.5} is DICT_PROBE)
    assert len(out) == DICT_PROBE - 3, len(out)
    for dd in (4.0, [4.0, 5.0], [4.0], {"R": 4.5}, {"R": 4.5, "S": 5.5}, {"A": 4.5}, "3"):
        out.append(card(base, {"decay": {"decay_d": dd}}))
    # transforms
    out.append(card(base, {"pre_trans": {"R_mass": {"model": "linear", "k": 2.0, "b": 0.1}},
                           "from_trans": {"R_width": {"model": "linear", "x": "zz", "k": 2.0, "b": 0.1}, "S_mass": {"model": "linear", "k": 1.0, "b": 0.0},
                                          "R_mass": {"model": "linear", "x": "S_width", "k": 1.0, "b": 0.0}}}))
    out.append(card(base, {"from_trans": {"R_mass": {"model": "linear", "x": "R_mass", "k": 2.0, "b": 0.1}}}))
    # disable: the decay object is not in particle.decay -> IndexError of decay[0] / the NEXT decay fixes the theta count
    out.append(card({"A": [["R", "D"]], "R": ["B", "C", {"disable": True}]}, R={"model": "Kmatrix"}))
    out.append(card({"A": [["R", "D"], ["R", "C"]], "R": [["B", "C", {"disable": True, "l_list": [0]}], ["B", "D"]]}, R={"model": "BWR_LS"}))
    out.append(card({"A": [["R", "D"], ["R", "C"]], "R": [["B", "C", {"l_list": [0]}], ["B", "D", {"disable": True}]]}, R={"model": "MultiBWR", "mass_list": [2.5, 2.6], "width_list": [0.1, 0.2]}))
    return out


def malformed(c19, rnd, cfg, share, chains):
    """one defect of the part-h kind injected into a loadable card"""
    cfg = copy.deepcopy(cfg)
    used = set()
    for s in chains:
        for d in s[1:-1].split(", "):
            used.add(d.split("->")[0])
    res = [(k, v) for k, v in _res_dicts(c19, cfg, {}) if k in used]
    kind = rnd.choice(["flatte-no-mass-list", "kmatrix-single-no-list", "from-trans-self", "decay-d-text", "ls-decay-unknown-model"])
    if kind in ("flatte-no-mass-list", "kmatrix-single-no-list", "ls-decay-unknown-model"):
        if not res:
            return None
        if kind == "flatte-no-mass-list":     # not on a particle with `float` (AttributeError of float.freed(), see gen_ecard)
            res = [(k, v) for k, v in res if not any("float" in d for n, d in _res_dicts(c19, cfg, share) if n == k)]
            if not res:
                return None
        name, d = rnd.choice(res)
        for k in ("model", "bw", "mass_list", "width_list"):
            d.pop(k, None)
        if kind == "flatte-no-mass-list":
            d["model"] = rnd.choice(FLATTE)
        elif kind == "kmatrix-single-no-list":
            d["model"] = "KMatrixSingleChannel"
        else:
            d["model"] = "BWR_LS"
            d["decay_params"] = {"model": "no_such_decay_model"}
    elif kind == "from-trans-self":
        cfg.setdefault("constrains", {})
        cfg["constrains"] = dict(cfg["constrains"] or {})
        cfg["constrains"]["from_trans"] = {"q_mass": {"model": "linear", "x": "q_mass", "k": 1.0, "b": 0.0}}
    else:
        cfg["constrains"] = dict(cfg.get("constrains") or {})
        cfg["constrains"]["decay"] = dict(cfg["constrains"].get("decay") or {}, decay_d="4.0")
    return kind, cfg


# --------------------------------------------------------------------------------------------------------------
# card -> token line
# --------------------------------------------------------------------------------------------------------------

def enc_num(v):
    s = "".join(str(v).split())
    assert s and " " not in s
    return s


def decay_d_variant():
    """which `decay_d: {name: d}` loop the tree has: "d" = zip(decay_d, chain) as written, "D" = every decay of the chain"""
    cfg, share = corpus()[DICT_PROBE]
    o = observe(None, cfg, share)
    if o.get("stage") != "done":
        return "d"
    return "D" if o["d"][0][1] == G.enc_dv("d", 4.5) else "d"


def encode(c19, cfg, share, variant="d"):
    toks = [G.encode(c19, cfg, share), "##"]
    cons = cfg.get("constrains") or {}
    dd = (cons.get("decay") or {}).get("decay_d")
    if dd is None:
        toks.append("-")
    elif isinstance(dd, (int, float)):
        toks += ["s", enc_num(dd)]
    elif isinstance(dd, (list, tuple)):
        toks += ["l", str(len(dd))] + [enc_num(v) for v in dd]
    elif isinstance(dd, dict):
        toks += [variant, str(len(dd))]
        for k, v in dd.items():
            toks += [k, enc_num(v)]
    else:
        toks.append("b")
    pre = cons.get("pre_trans") or {}
    toks += [str(len(pre))] + list(pre)
    ft = cons.get("from_trans") or {}
    toks.append(str(len(ft)))
    for k, v in ft.items():
        x = v.get("x")
        assert x is None or isinstance(x, str)
        toks += [k, "-" if x is None else x]
    assert all(t and (" " not in t or i == 0) for i, t in enumerate(toks)), toks
    return " ".join(toks)


# --------------------------------------------------------------------------------------------------------------
# observation of the implementation
# --------------------------------------------------------------------------------------------------------------

def decay_key(s):
    c, os_ = s.split("->")
    return "%s->%s" % (c, "+".join(sorted(os_.split("+"))))


def canon_ls(lst):
    return " ".join("%d,%d" % (int(l), int(round(2 * float(s)))) for l, s in lst)


def observe(c19, cfg, share):
    from tf_pwa.config_loader import ConfigLoader
    out = {"stage": "decay"}
    buf = io.StringIO()
    try:
        with contextlib.redirect_stdout(buf), contextlib.redirect_stderr(buf):
            c = ConfigLoader(copy.deepcopy(cfg), share_dict=copy.deepcopy(share))
            g = c.get_decay()
            out["chains"] = [str(ch) for ch in g]
            out["ls"] = [[canon_ls(d.get_ls_list()) for d in ch] for ch in g]
            out["classes"] = [[type(d).__name__ for d in ch] for ch in g]
            out["attrs0"] = [[G.enc_ddict({k: getattr(d, k) for k in G.ATTRS if k != "d"}) for d in ch] for ch in g]
            out["export"] = [[G.enc_ddict(list(d.as_config().values())[0][-1]) for d in ch] for ch in g]
            ex = copy.deepcopy(g.as_config())
            out["stage"] = "reload"
            try:
                ex["data"] = {"dat_order": list(cfg["data"]["dat_order"])}
                g2 = ConfigLoader(ex).get_decay()
                out["reload"] = {"chains": [sorted(decay_key(str(d)) for d in ch) for ch in g2],
                                 "ls": {decay_key(str(d)): canon_ls(d.get_ls_list()) for ch in g2 for d in ch}}
            except RecursionError:
                out["reload"] = {"raise": "RecursionError"}
            except Exception as e:
                out["reload"] = {"raise": type(e).__name__, "msg": str(e)[:200]}
            out["stage"] = "amplitude"
            c.get_amplitude()
            out["d"] = [[G.enc_dv("d", getattr(d, "d")) for d in ch] for ch in g]
            out["params"] = list(c.get_params().keys())
            out["trainable"] = list(c.vm.trainable_vars)
            out["same"] = sorted(sorted(grp) for grp in c.vm.same_list)
            out["trans"] = list(c.vm.pre_trans)
            out["stage"] = "done"
    except RecursionError:
        out["raise"] = "RecursionError"
    except Exception as e:
        out["raise"] = type(e).__name__
        out["msg"] = str(e)[:200]
    return out


def impl_view(o):
    v = {}
    if o["stage"] == "decay":
        return {op: "raise:" + o["raise"] for op in OPS}
    v["chains"] = "|".join(o["chains"])
    v["ls"] = "|".join(";".join(x) for x in o["ls"])
    v["export"] = "|".join(" & ".join(x) for x in o["export"])
    v["reload"] = o.get("reload")
    if o["stage"] in ("amplitude", "reload"):
        for op in ("params", "ties", "attrs", "trans"):
            v[op] = "raise:" + o["raise"]
        return v
    v["attrs"] = "|".join(" & ".join(a + ";d=" + d for a, d in zip(x, y)) for x, y in zip(o["attrs0"], o["d"]))
    v["params"] = " ".join(o["params"])
    v["ties"] = G.partition([(grp[0], x) for grp in o["same"] for x in grp])
    v["trans"] = " ".join(o["trans"])
    return v


def model_view(ans):
    v = dict(ans)
    t = v["ties"]
    if not t.startswith("raise:"):
        v["ties"] = G.partition([p.split("=") for p in t.split()])
    return v


def compare_reload(mv, o):
    """the model's (l,s) lists after export -> load against the reloaded group"""
    r = o.get("reload")
    if r is None or mv["reload"].startswith("raise:"):
        return None
    pred = [[x for x in ch.split(" & ")] for ch in mv["reload"].split("|")]
    keys = [[decay_key(d) for d in s[1:-1].split(", ")] for s in o["chains"]]
    alive = [all(p for p in ch) for ch in pred]
    if "raise" in r:
        if r["raise"] == "RuntimeError" and not any(alive):
            return None
        return ("reload", "chains alive after export->load: %s" % alive, "raise:" + r["raise"] + " " + r.get("msg", ""))
    have = [sorted(k) in r["chains"] for k in keys]
    if have != alive:
        return ("reload", "chains alive after export->load: %s" % alive, "reloaded group has: %s" % have)
    for ks, ps, a in zip(keys, pred, alive):
        if a:
            for k, p_ in zip(ks, ps):
                if r["ls"].get(k) != p_:
                    return ("reload", "%s: %s" % (k, p_), "%s: %s" % (k, r["ls"].get(k)))
    return None


def compare(mv, iv, o):
    """None or (op, model, impl); `unsupported` answers are skipped (counted by the caller)"""
    if mv["chains"].startswith("raise:"):
        if mv["chains"] == "raise:unsupported":
            return None
        return None if iv["chains"] == mv["chains"] else ("chains", mv["chains"], iv["chains"])
    for op in ("chains", "ls", "export"):
        if mv[op] != iv[op]:
            return (op, mv[op], iv[op])
    d = compare_reload(mv, o)
    if d is not None:
        return d
    if isinstance(mv["params"], str) and mv["params"] == "raise:unsupported":
        return None
    for op in ("params", "ties", "attrs", "trans"):
        if mv[op] != iv[op]:
            return (op, mv[op], iv[op])
    return None


# --------------------------------------------------------------------------------------------------------------
# statement-level oracles (no Lean model)
# --------------------------------------------------------------------------------------------------------------

def check_statement(c19, cfg, share, o):
    """property statements on the implementation that part g's oracle does not cover"""
    out = []
    if "raise" in o or o.get("stage") != "done":
        return out
    names = o["params"]
    if len(set(names)) != len(names):
        out.append(("epar:duplicate-name", "get_params() lists a name twice"))
    # decay_d: every decay whose mother is named in the dict gets that radius
    dd = ((cfg.get("constrains") or {}).get("decay") or {}).get("decay_d")
    if isinstance(dd, dict):
        for s, ds in zip(o["chains"], o["d"]):
            for dec, dv in zip(s[1:-1].split(", "), ds):
                core = dec.split("->")[0]
                if core in dd and dv != G.enc_dv("d", dd[core]):
                    out.append(("decay_d:dict:truncated-by-zip", "constrains.decay.decay_d = %s: decay %s of chain %s keeps d = %s (zip(decay_d, chain) visits only the first len(decay_d) decays of a chain)" % (dd, dec, s, dv[1:])))
                    break
            else:
                continue
            break
    elif isinstance(dd, (int, float)) and not isinstance(dd, bool):
        n0 = len(o["d"][0])
        for s, ds in zip(o["chains"], o["d"]):
            if any(dv != G.enc_dv("d", dd) for dv in ds[:n0]):
                out.append(("decay_d:scalar", "decay_d = %s not applied to chain %s: %s" % (dd, s, ds)))
    # every tie is declared somewhere in the card
    txt = json.dumps([cfg, share], default=str)
    if o["same"] and not any(k in txt for k in ("coef_head", "same_ratio", "BWR_LS", "MultiBW", "from_trans", "var_equal", "LS-decay")):
        out.append(("epar:undeclared-tie", "variables tied without coef_head / same_ratio / from_trans / var_equal: %s" % o["same"][:3]))
    return out


def three_body_cards():
    """3-body entries and repeated names: what the loader does with them (no Lean model)"""
    p = {"$top": {"A": {"J": 1, "P": -1, "mass": 4.6}},
         "$finals": {"B": {"J": 1, "P": -1, "mass": 2.0}, "C": {"J": 0, "P": -1, "mass": 0.5}, "D": {"J": 0, "P": -1, "mass": 0.5}},
         "R": {"J": 1, "P": 1, "mass": 2.6, "width": 0.05}}
    dat = {"dat_order": ["B", "C", "D"]}
    g3 = ["A->B.C.D_G_mu_%d%s" % (i, x) for i in range(3) for x in "ri"]
    t3 = ["A->B.C.D_total_0r", "A->B.C.D_total_0i"]
    two = ["A->R.DR->B.C_total_0r", "A->R.DR->B.C_total_0i"] + ["%s_g_ls_%d%s" % (h, i, x) for h in ("A->R.D", "R->B.C") for i in range(2) for x in "ri"]
    return [
        ("3body nested", {"data": dat, "decay": {"A": [["B", "C", "D"]]}, "particle": copy.deepcopy(p)}, ["[A->B+C+D]"], t3 + g3),
        ("3body flat", {"data": dat, "decay": {"A": ["B", "C", "D"]}, "particle": copy.deepcopy(p)}, ["[A->B+C+D]"], t3 + g3),
        ("3body + cascade", {"data": dat, "decay": {"A": [["B", "C", "D"], ["R", "D"]], "R": ["B", "C"]}, "particle": copy.deepcopy(p)},
         ["[A->B+C+D]", "[A->R+D, R->B+C]"], ["R_mass", "R_width"] + t3 + g3 + two),
        ("3body with helicity keywords", {"data": dat, "decay": {"A": [["B", "C", "D", {"l_list": [0], "has_barrier_factor": False}]]}, "particle": copy.deepcopy(p)},
         ["[A->B+C+D]"], t3 + g3),
        ("1body", {"data": dat, "decay": {"A": [["R"]], "R": ["B", "C", "D"]}, "particle": copy.deepcopy(p)}, "KeyError", None),
        ("repeated final name", {"data": {"dat_order": ["B", "C", "C"]}, "decay": {"A": [["R", "C"]], "R": ["B", "C"]},
                                 "particle": {"$top": {"A": {"J": 1, "P": -1}}, "$finals": ["B", "C", "C"], "B": {"J": 1, "P": -1}, "C": {"J": 0, "P": -1}, "R": p["R"]}},
         "RuntimeError", None),
    ]


def observe_plain(cfg):
    from tf_pwa.config_loader import ConfigLoader
    buf = io.StringIO()
    try:
        with contextlib.redirect_stdout(buf), contextlib.redirect_stderr(buf):
            c = ConfigLoader(copy.deepcopy(cfg))
            ch = [str(x) for x in c.get_decay()]
            c.get_amplitude()
            return {"chains": ch, "params": list(c.get_params().keys()), "same": sorted(sorted(x) for x in c.vm.same_list)}
    except RecursionError:
        return {"raise": "RecursionError"}
    except Exception as e:
        return {"raise": type(e).__name__, "msg": str(e)[:200]}
