#!/bin/sh
# run_all.sh [tier] [seed]: run every claimed check once (development helper); prints one line per check
cd "$(dirname "$0")/.."; TIER=${1:-quick}; export VERIF_SEED=${2:-0}
for id in $(python3 -c "import json; print(' '.join(c['property_id'] for c in json.load(open('MANIFEST.json'))['checks']))"); do
  s=$(date +%s); out=$(./check $id --tier $TIER 2>/dev/null); rc=$?; e=$(date +%s)
  echo "$id rc=$rc $((e-s))s $(echo "$out" | grep -c KNOWN-FINDING) known $(echo "$out" | grep VIOLATION | head -1 | cut -c1-150)"
done
