#!/usr/bin/env python3
"""Regenerates /verif/MANIFEST.json from the per-property descriptions in harness/cXX.py (MANIFEST dict)."""
import importlib
import json
import os
import sys

HERE = os.path.dirname(os.path.abspath(__file__))
ROOT = os.path.dirname(HERE)
sys.path.insert(0, HERE)

ALL = ["C%02d" % i for i in range(1, 21)]
PENDING_REASON = "check not built yet in this round (work in progress; see DESIGN.md section 3 for the planned model and theorems) - not a claim that the technique cannot apply"


def main():
    checks, na = [], []
    for pid in ALL:
        path = os.path.join(HERE, pid.lower() + ".py")
        info = None
        if os.path.exists(path):
            src = open(path).read()
            # MANIFEST dict is declared as a literal at the end of the module: avoid importing TF here
            marker = "MANIFEST = "
            if marker in src:
                lit = src.split(marker, 1)[1]
                info = eval(lit, {"__builtins__": {}}, {})
        if info is None:
            na.append({"property_id": pid, "reason": PENDING_REASON})
            continue
        checks.append({
            "property_id": pid,
            "quick_cmd": "./check %s --tier quick" % pid,
            "thorough_cmd": "./check %s --tier thorough" % pid,
            "evidence_file": "evidence/%s.json" % pid,
            "replay_cmd_template": "./check %s --replay {path}" % pid,
            "engine": "lean4-proof+correspondence",
            "level_claimed": {"category": "proof", "text": info["text"], "design_ref": info.get("design_ref", "DESIGN.md section 3 / " + pid)},
            "level_note": info["note"],
            "technique": info.get("technique", "Lean 4 theorems about a model of the code + differential correspondence check model vs implementation"),
        })
    man = {
        "version": 1,
        "setup_cmd": "./check --setup",
        "hooks": {
            "guard": "TF_PWA_VERIF",
            "enable": "no source hooks are needed: RNG streams, fault injection and call interception are done by monkey-patching inside the harness process",
            "baseline_off_cmd": "cd /repo && /venv/bin/python -m pytest -ra -q -p no:cacheprovider --timeout=900 --continue-on-collection-errors",
            "source_commits": [],
            "add_only": True,
        },
        "engines": [{
            "name": "lean4-proof+correspondence",
            "path": "lean/ (lake project TfPwaV), harness/ (python, runs the real tf_pwa in-process)",
            "serves_properties": [c["property_id"] for c in checks],
            "kind_free_text": "Lean 4.33 theorems about executable models; models tied to /repo on every run by table translation and a line-protocol differential check; failing-input search on the implementation when an obligation or the correspondence breaks",
        }],
        "checks": checks,
        "not_applicable": na,
        "notes": "See DESIGN.md. Exit codes: 0 held, 1 violation (VIOLATION line), 2 infrastructure failure (never a violation).",
    }
    with open(os.path.join(ROOT, "MANIFEST.json"), "w") as f:
        json.dump(man, f, indent=1)
    print("checks:", [c["property_id"] for c in checks], "pending:", [n["property_id"] for n in na])


if __name__ == "__main__":
    main()
