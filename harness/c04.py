"""C04 — spinless cascades reproduce the closed-form Legendre x Breit-Wigner amplitude."""
import math

import numpy as np

import common as C

PID = "C04"
DRIVER = [("C04", "TfPwaV.Gen.SpinlessF", "SpinlessF.handle")]
LEAN_TARGETS = ["TfPwaV.Props.C04", "TfPwaV.Props.C04b", "TfPwaV.Props.C04c", "TfPwaV.Gen.SpinlessF"]
PROP_MODULES = ["TfPwaV.Props.C04", "TfPwaV.Props.C04b", "TfPwaV.Props.C04c"]
ALL_MODULES = ["TfPwaV.Props.C04", "TfPwaV.Props.C04b", "TfPwaV.Props.C04c", "TfPwaV.Proofs.AmpSpinless", "TfPwaV.Proofs.Amp", "TfPwaV.Proofs.FrameAlg", "TfPwaV.Proofs.UnitaryMix", "TfPwaV.Props.C12", "TfPwaV.Props.C11", "TfPwaV.Proofs.Wigner", "TfPwaV.Proofs.AngleBeta", "TfPwaV.Proofs.Angle", "TfPwaV.Proofs.Cascade", "TfPwaV.Proofs.CascadeAngle", "TfPwaV.Proofs.Kin", "TfPwaV.Proofs.Spinless", "TfPwaV.Props.C15", "TfPwaV.Proofs.LineShape", "TfPwaV.Proofs.ScalarR"]
ASSUMPTIONS = [
    "theorems are over the reals for resonance spin J <= 4 (the bound of the property); the Float instance of the same template text is what is compared with the implementation, rel. tol 1e-9 of the scale (sum_k |A_k|)^2; events with max(M^2/q^2, M^2/p^2) > 1e5 (a break-up momentum below 3e-3 of the parent mass) are counted as ill-conditioned and skipped",
    "the helicity angle: Props/C04b.helicity_angle_is_boost_angle proves, for ALL final four-momenta outside cross_unit's degenerate fallback (|z x w| >= 1e-14, |z| >= 1e-14), that the polar angle which the Lean model of cal_angle.py (CascadeR.calAngle: infer_momentum, cal_chain_boost, cal_helicity_angle / angle_zx_z_getx, the model C11 ties to the implementation) returns for R -> a b has cos(beta) = the boost-defined cos(theta) of the closed form (SpinlessR.chainKin); that the IMPLEMENTATION's beta equals the model's is the C11 cascade correspondence plus, here, a direct comparison of cos(beta) and of the density on every event, and independently a numpy evaluation from Lorentz invariants only",
    "exact Clebsch-Gordan values / small-d weights are those of Model/Wigner.lean, tied to tf_pwa.cg / tf_pwa.dfun by the C12 check; here additionally HelicityDecay.get_cg_matrix() of every generated decay is compared with the model entry by entry",
    "the numpy reference (search) is restricted to resonances whose nominal mass lies inside the kinematically allowed interval (m_a+m_b, M-m_c) where the textbook closed form is defined; nominal masses outside it (q0^2 < 0, guard branches of Bprime_q2 / Gamma) are covered by the correspondence with the code-shaped model only",
    "line shape, barrier factors: theorems of C15 about templates/LineShape.lean.in are reused (BWR_eq_spec, BprimeQ2_eq_Bprime)",
    "Props/C04c: spinless_reduction identifies SpinlessR.helAmp with the GENERAL amplitude-tensor model AmpR.Chain.amp (templates/Amp.lean.in, the model whose Float instance the C01 check compares per helicity component with DecayChain.get_amp / DecayGroup.get_amp / sum_amp) on the two-vertex chain built with the general model's own constructors, one (l,s) pair per vertex and g_ls = 1, for every J; that the general model agrees with amp/core.py on spin-0 cards is validated by this check's own differential run (Float instance of Spinless) and on spinning cards by C01",
]

PERMS = [(0, 1, 2), (1, 0, 2), (1, 2, 0), (2, 1, 0), (0, 2, 1), (2, 0, 1)]
NAMES = ["B", "C", "D"]
TOL = 1e-9
COND_MAX = 1e5


def translate(ctx, res):
    """The Blatt-Weisskopf coefficient table used by the line-shape part of the model is re-extracted from the current
    tree (translator of C15, `Gen/BprimeTable.lean`); `Props/C04` imports `Props/C15`, whose table theorems
    (`bprime_table_tf`: coefficients = |theta_L(i w)|^2) are re-checked by the build of this property."""
    import c15
    return c15.translate(ctx, res)


# ---------------------------------------------------------------------------------------------
# configurations
# ---------------------------------------------------------------------------------------------

def gen_spec(rng, nch, regular, allow_zero_mass=True):
    """Seeded configuration: spin-0 parent, three spin-0 finals, `nch` resonances of spin 0..4."""
    pool = [0.13957, 0.49368, 0.54786, 0.93827, 1.86484]
    if allow_zero_mass and rng.random() < 0.15:
        pool = pool + [0.0]
    fm = [float(rng.choice(pool)) for _ in range(3)]
    Q = float(rng.choice([0.08, 0.4, 1.2, 2.5]) * rng.uniform(0.7, 1.3))
    M = sum(fm) + Q
    par = [int(rng.choice([-1, 1])) for _ in range(3)]
    chains = []
    perms = list(rng.permutation(6))
    for k in range(nch):
        # different pairings first, then repeats
        if k < 3:
            cands = [p for p in perms if PERMS[p][2] not in [PERMS[c["perm"]][2] for c in chains]]
            perm = int(cands[0])
        else:
            perm = int(rng.integers(0, 6))
        a, b, c = PERMS[perm]
        J = int(rng.integers(0, 5))
        lo, hi = fm[a] + fm[b], M - fm[c]
        u = float(rng.uniform(0.08, 0.92))
        mass = lo + u * (hi - lo)
        if not regular:
            r = rng.random()
            if r < 0.15:
                mass = lo - float(rng.uniform(0.01, 0.3)) * (lo if lo > 0 else 1.0) * 0.5  # below threshold
                mass = max(mass, 0.05)
            elif r < 0.3:
                mass = hi + float(rng.uniform(0.01, 0.8))  # beyond the kinematic limit
        width = float(rng.choice([0.004, 0.03, 0.1, 0.25, 0.5]) * rng.uniform(0.8, 1.2))
        chains.append({
            "name": "R%d" % (k + 1), "J": J, "perm": perm, "swapA": bool(rng.random() < 0.3),
            "mass": float(mass), "width": width,
            "c1": float(rng.uniform(0.3, 2.0)), "c2": float(rng.uniform(-3.1, 3.1)),
        })
    polar = bool(rng.random() < 0.65)
    if not polar:
        for ch in chains:
            ch["c1"] = float(rng.normal())
            ch["c2"] = float(rng.normal())
    return {"M": float(M), "fm": fm, "par": par, "chains": chains, "polar": polar}


def spec_to_config(spec):
    fm, par = spec["fm"], spec["par"]
    dec_top = []
    particle = {
        "$top": {"A": {"J": 0, "P": par[0] * par[1] * par[2], "mass": spec["M"]}},
        "$finals": {NAMES[i]: {"J": 0, "P": par[i], "mass": fm[i]} for i in range(3)},
    }
    decay = {}
    for ch in spec["chains"]:
        a, b, c = PERMS[ch["perm"]]
        dec_top.append([NAMES[c], ch["name"]] if ch["swapA"] else [ch["name"], NAMES[c]])
        decay[ch["name"]] = [NAMES[a], NAMES[b]]
        particle[ch["name"]] = {"J": ch["J"], "P": par[a] * par[b] * (-1) ** ch["J"], "mass": ch["mass"], "width": ch["width"]}
    decay = {"A": dec_top, **decay}
    return {"data": {"dat_order": list(NAMES)}, "decay": decay, "particle": particle}


def build_amp(spec):
    """ConfigLoader(dict) -> amplitude with the parameters of `spec` set through set_params."""
    from tf_pwa.config import temp_config
    from tf_pwa.config_loader import ConfigLoader
    with temp_config("polar", bool(spec["polar"])):
        config = ConfigLoader(spec_to_config(spec))
        amp = config.get_amplitude()
    params = {}
    by_res = {}
    for chain in amp.decay_group:
        res = [p for p in chain.inner]
        assert len(res) == 1, "one resonance per chain expected"
        by_res[str(res[0])] = chain
    for ch in spec["chains"]:
        chain = by_res[ch["name"]]
        names = chain.total.all_name_list
        assert len(names) == 2, names
        params[names[0]] = ch["c1"]
        params[names[1]] = ch["c2"]
        params[ch["name"] + "_mass"] = ch["mass"]
        params[ch["name"] + "_width"] = ch["width"]
    known = amp.get_params()
    missing = [k for k in params if k not in known]
    if missing:
        raise KeyError("parameter names not found in amp.get_params(): %s (have %s)" % (missing, sorted(known)))
    amp.set_params(params)
    # every decay coupling g_ls must be the fixed (1, 0) of the first ls
    for k, v in amp.get_params().items():
        if "_g_ls_" in k:
            want = 1.0 if k.endswith("r") else 0.0
            if abs(float(v) - want) > 0:
                raise ValueError("unexpected g_ls value %s=%r" % (k, v))
    pol = {k: bool(v) for k, v in amp.vm.complex_vars.items() if "total" in k}
    if any(v != spec["polar"] for v in pol.values()):
        raise ValueError("polar flag not honoured: %s" % pol)
    return config, amp


# ---------------------------------------------------------------------------------------------
# events
# ---------------------------------------------------------------------------------------------

def _boost(p, v):
    """numpy boost of four-vectors p (n,4) by velocities v (n,3) (own implementation)."""
    b2 = np.sum(v * v, -1)
    g = 1.0 / np.sqrt(1.0 - b2)
    bp = np.sum(v * p[:, 1:], -1)
    g2 = np.where(b2 > 0, (g - 1.0) / np.where(b2 > 0, b2, 1.0), 0.0)
    sp = p[:, 1:] + (g2 * bp)[:, None] * v + (g * p[:, 0])[:, None] * v
    return np.concatenate([(g * (p[:, 0] + bp))[:, None], sp], -1)


def _pmag(m0, m1, m2):
    x = (m0 * m0 - (m1 + m2) ** 2) * (m0 * m0 - (m1 - m2) ** 2)
    return np.sqrt(np.maximum(x, 0.0)) / (2 * m0)


def structured_events(rng, spec, n):
    """Events built by sequential two-body decays along the pairing of a seeded chain of the configuration:
    resonance mass near both ends of its range (near-threshold, parent-edge), helicity angle at / near the
    Dalitz boundary (cos = +-1), plus uniform ones; random orientation; random boost of the whole event."""
    M, fm = spec["M"], spec["fm"]
    out = np.zeros((3, n, 4))
    kinds = []
    for i in range(n):
        ch = spec["chains"][int(rng.integers(0, len(spec["chains"])))]
        a, b, c = PERMS[ch["perm"]]
        lo, hi = fm[a] + fm[b], M - fm[c]
        kt = int(rng.integers(0, 6))
        t = [1e-3, 2e-2, 1 - 2e-2, 1 - 1e-3][kt] if kt < 4 else float(rng.uniform(0.02, 0.98))
        mR = lo + t * (hi - lo)
        kc = int(rng.integers(0, 7))
        cz = [1.0, -1.0, 1 - 1e-7, -1 + 1e-7, 0.0][kc] if kc < 5 else float(rng.uniform(-1, 1))
        kinds.append((kt, kc))
        ph = float(rng.uniform(-math.pi, math.pi))
        n3 = rng.normal(size=3)
        n3 /= np.linalg.norm(n3)
        # orthonormal frame with z = n3
        t1 = np.cross(n3, [1.0, 0.0, 0.0] if abs(n3[0]) < 0.9 else [0.0, 1.0, 0.0])
        t1 /= np.linalg.norm(t1)
        t2 = np.cross(n3, t1)
        p = float(_pmag(M, mR, fm[c]))
        q = float(_pmag(mR, fm[a], fm[b]))
        sz = math.sqrt(max(1 - cz * cz, 0.0))
        qa = q * (cz * n3 + sz * (math.cos(ph) * t1 + math.sin(ph) * t2))
        pa = np.array([[math.sqrt(fm[a] ** 2 + q * q), *qa]])
        pb = np.array([[math.sqrt(fm[b] ** 2 + q * q), *(-qa)]])
        vR = (p / math.sqrt(mR * mR + p * p)) * n3
        pa = _boost(pa, vR[None, :])[0]
        pb = _boost(pb, vR[None, :])[0]
        pc = np.array([math.sqrt(fm[c] ** 2 + p * p), *(-p * n3)])
        out[a, i], out[b, i], out[c, i] = pa, pb, pc
    # boost of the whole event (the density must not depend on it)
    beta = rng.choice([0.0, 0.0, 0.3, 0.6], size=n)
    d = rng.normal(size=(n, 3))
    d /= np.linalg.norm(d, axis=1)[:, None]
    v = d * beta[:, None]
    return [_boost(out[k], v) for k in range(3)], kinds


def phsp_events(seed, spec, n):
    import tensorflow as tf
    from tf_pwa.phasespace import PhaseSpaceGenerator
    tf.random.set_seed(int(seed))
    p = PhaseSpaceGenerator(spec["M"], list(spec["fm"])).generate(n)
    return [np.array(x.numpy(), dtype=np.float64) for x in p]


# ---------------------------------------------------------------------------------------------
# independent numpy reference (Lorentz invariants only)
# ---------------------------------------------------------------------------------------------

BW_COEFF = {0: [1.0], 1: [1.0, 1.0], 2: [1.0, 3.0, 9.0], 3: [1.0, 6.0, 45.0, 225.0], 4: [1.0, 10.0, 135.0, 1575.0, 11025.0]}


def _m2(p):
    return p[..., 0] ** 2 - p[..., 1] ** 2 - p[..., 2] ** 2 - p[..., 3] ** 2


def _legendre(J, x):
    # explicit polynomials (not the recurrence of the model)
    return [np.ones_like(x), x, (3 * x ** 2 - 1) / 2, (5 * x ** 3 - 3 * x) / 2, (35 * x ** 4 - 30 * x ** 2 + 3) / 8][J]


def _k2(m0sq, m1sq, m2sq):
    """Kaellen form of the squared break-up momentum from squared masses."""
    return (m0sq * m0sq + m1sq * m1sq + m2sq * m2sq - 2 * m0sq * m1sq - 2 * m0sq * m2sq - 2 * m1sq * m2sq) / (4 * m0sq)


def ref_terms(spec, P):
    """Closed form of the property statement, one complex term per chain, from Lorentz invariants.
    Returns (terms[nch, n], cond[n], scale[n]) with scale = (sum_k |A_k| with |P_J| replaced by 1)^2."""
    M0, fm = spec["M"], spec["fm"]
    d = 3.0
    S = _m2(P[0] + P[1] + P[2])
    out, env = [], []
    cond = np.ones_like(S)
    for ch in spec["chains"]:
        a, b, c = PERMS[ch["perm"]]
        J = ch["J"]
        sab = _m2(P[a] + P[b])
        sac = _m2(P[a] + P[c])
        ma2, mb2, mc2 = fm[a] ** 2, fm[b] ** 2, fm[c] ** 2
        p2 = _k2(S, sab, mc2)
        q2 = _k2(sab, ma2, mb2)
        p02 = _k2(M0 ** 2, ch["mass"] ** 2, mc2)
        q02 = _k2(ch["mass"] ** 2, ma2, mb2)
        with np.errstate(all="ignore"):
            cond = np.maximum(cond, np.maximum(S / np.abs(q2), S / np.abs(p2)))
            mR = np.sqrt(sab)
            Ea = (sab + ma2 - mb2) / (2 * mR)
            Ec = (S - sab - mc2) / (2 * mR)
            q = np.sqrt(q2)
            pcs = np.sqrt(Ec * Ec - mc2)
            # angle between a and c in the rest frame of (ab); the helicity axis is opposite to c
            cos_ac = (Ea * Ec - (sac - ma2 - mc2) / 2) / (q * pcs)
            cost = -cos_ac
            bpA = np.polyval(BW_COEFF[J], p02 * d * d) / np.polyval(BW_COEFF[J], p2 * d * d)
            bpR = np.polyval(BW_COEFF[J], q02 * d * d) / np.polyval(BW_COEFF[J], q2 * d * d)
            gam = ch["width"] * (q / math.sqrt(q02)) ** (2 * J + 1) * (ch["mass"] / mR) * bpR
            bw = 1.0 / (ch["mass"] ** 2 - sab - 1j * ch["mass"] * gam)
            cpl = ch["c1"] * np.exp(1j * ch["c2"]) if spec["polar"] else complex(ch["c1"], ch["c2"])
            term0 = cpl * (-1) ** J * np.sqrt(p2) ** J * q ** J * np.sqrt(bpA) * np.sqrt(bpR) * bw
        out.append(term0 * _legendre(J, cost))
        env.append(np.abs(term0))
    return np.array(out), cond, np.sum(np.array(env), 0) ** 2


def spec_regular(spec):
    for ch in spec["chains"]:
        a, b, c = PERMS[ch["perm"]]
        if not (spec["fm"][a] + spec["fm"][b] < ch["mass"] < spec["M"] - spec["fm"][c]):
            return False
    return True


def impl_density(config, amp, P):
    data = config.data.cal_angle([np.array(x) for x in P])
    return np.array(amp(data).numpy(), dtype=np.float64), data


def impl_amplitude(amp, data):
    """complex amplitude (all external helicities are 0: one component per event)"""
    a = np.array(amp.decay_group.get_amp(data).numpy())
    return a.reshape(a.shape[0], -1)[:, 0]


# ---------------------------------------------------------------------------------------------
# correspondence: Float model vs implementation
# ---------------------------------------------------------------------------------------------

def model_lines(spec, P):
    heads, floats = [], []
    for ch in spec["chains"]:
        a, b, c = PERMS[ch["perm"]]
        heads += [ch["J"], 1 if spec["polar"] else 0, 1 if ch["swapA"] else 0, ch["perm"]]
        floats += [ch["c1"], ch["c2"], spec["M"], ch["mass"], ch["width"], spec["fm"][a], spec["fm"][b], spec["fm"][c]]
    pre = "C04 dens %d %s %s" % (len(spec["chains"]), " ".join(map(str, heads)), " ".join(C.f2h(x) for x in floats))
    n = P[0].shape[0]
    return [pre + " " + " ".join(C.f2h(x) for k in range(3) for x in P[k][i]) for i in range(n)]


def _nconf(ctx, quick, thorough):
    return quick if (ctx.quick and not ctx.suspect) else thorough


def correspond(ctx, res):
    rng = np.random.Generator(np.random.Philox(ctx.seed + 4004))
    nconf = _nconf(ctx, 18, 120)
    nev_s, nev_p = (60, 90) if ctx.quick else (120, 200)
    lines, meta = [], []
    n_cg = 0
    first = None
    nbad = {"density": 0, "hel": 0, "kin": 0, "cg": 0, "legendre": 0}
    worst = {"density": 0.0, "hel": 0.0, "kin": 0.0, "amplitude": 0.0}
    nskip = 0
    jset, multi, nontriv = set(), 0, 0
    cg_lines, cg_vals = [], []
    kin_lines, kin_vals = [], []
    for ic in range(nconf):
        nch = [1, 2, 3, 2, 3, 4][ic % 6] if ic % 6 != 5 or not ctx.quick else 3
        spec = gen_spec(rng, nch, regular=(ic % 3 == 0))
        config, amp = build_amp(spec)
        Ps, _ = structured_events(rng, spec, nev_s)
        Pp = phsp_events(ctx.seed * 1000 + ic, spec, nev_p)
        P = [np.concatenate([Ps[k], Pp[k]]) for k in range(3)]
        dens, data = impl_density(config, amp, P)
        camp = impl_amplitude(amp, data)
        lines += model_lines(spec, P)
        meta.append((spec, P, dens, len(dens), camp))
        jset |= {ch["J"] for ch in spec["chains"]}
        multi += int(len({ch["J"] for ch in spec["chains"]}) >= 2)
        # CG matrices of every decay of this configuration, entry by entry
        for chain in amp.decay_group:
            for dec in chain:
                ls = dec.get_ls_list()
                hb, hc = dec.list_helicity_inner()
                # as get_helicity_amp uses it (the lru_cache of _get_cg_matrix is keyed on name-equal decays and may
                # return the matrix built for the opposite daughter order of an earlier model: same data, other shape)
                m = np.array(dec.get_cg_matrix()).reshape(len(ls), len(hb), len(hc))
                for i, (l, s) in enumerate(ls):
                    for ib, lb in enumerate(hb):
                        for icc, lc in enumerate(hc):
                            cg_lines.append("C04 cgm %d %d %d %d %d %d %d" % (
                                round(2 * dec.core.J), round(2 * dec.outs[0].J), round(2 * dec.outs[1].J), 2 * l, round(2 * s), round(2 * lb), round(2 * lc)))
                            cg_vals.append((str(dec), (l, s, lb, lc), float(m[i][ib][icc])))
        # kinematics seen by the implementation: masses, |q|2, helicity angle of the resonance decay
        for chain in amp.decay_group:
            resn = str(chain.inner[0])
            ch = [c for c in spec["chains"] if c["name"] == resn][0]
            a, b, c = PERMS[ch["perm"]]
            dR = [d for d in chain if str(d.core) == resn][0]
            dA = [d for d in chain if str(d.core) == "A"][0]
            topo = [k for k in data["decay"].keys() if k == chain.standard_topology()][0]
            dmap = chain.topology_map()
            dd = data["decay"][topo]
            beta = np.array(dd[dmap[dR]][dmap[dR.outs[0]]]["ang"]["beta"])
            q2A = np.array(dd[dmap[dA]]["|q|2"])
            q2R = np.array(dd[dmap[dR]]["|q|2"])
            mRd = np.array(data["particle"][dmap[chain.inner[0]]]["m"])
            sel = range(0, len(beta), 7)
            for i in sel:
                kin_lines.append("C04 kin " + " ".join(C.f2h(x) for k in (a, b, c) for x in P[k][i]))
                kin_vals.append((spec, i, resn, float(mRd[i]), float(math.cos(beta[i])), float(q2A[i]), float(q2R[i])))
    # Legendre by recurrence vs d^J_00 from the weight table, on a grid
    xs = [-1.0, -0.999999, -0.5, 0.0, 0.123456789, 0.7, 0.999999, 1.0]
    leg_lines = ["C04 legendre %d %s" % (J, C.f2h(x)) for J in range(5) for x in xs]
    out = ctx.model.query(lines + cg_lines + kin_lines + leg_lines)
    if any(o == "bad-op" for o in out):
        k = [i for i, o in enumerate(out) if o == "bad-op"][0]
        res.broke("model driver bad-op", (lines + cg_lines + kin_lines + leg_lines)[k][:300])
        return
    pos = 0
    phase_notes = 0
    for spec, P, dens, n, camp in meta:
        ref = ref_terms(spec, P)[0] if spec_regular(spec) else None
        for i in range(n):
            v = [C.h2f(x) for x in out[pos + i].split()]
            dm, dh = v[0], v[1]
            per = np.array(v[2:]).reshape(-1, 4)
            scale = float(np.sum(per[:, 1]) ** 2)  # (sum_k |A_k| with |P_J| -> 1)^2
            # conditioning from the event itself (independent of the model output)
            S = _m2(P[0][i] + P[1][i] + P[2][i])
            cond = 1.0
            for ch in spec["chains"]:
                a, b, c = PERMS[ch["perm"]]
                sab = _m2(P[a][i] + P[b][i])
                cond = max(cond, S / max(abs(_k2(sab, spec["fm"][a] ** 2, spec["fm"][b] ** 2)), 1e-300),
                           S / max(abs(_k2(S, sab, spec["fm"][c] ** 2)), 1e-300))
            if cond > COND_MAX or not (scale > 0) or not math.isfinite(scale):
                nskip += 1
                continue
            nontriv += 1
            e = abs(dens[i] - dm) / scale
            worst["density"] = max(worst["density"], e)
            if not e < TOL:
                nbad["density"] += 1
                if first is None:
                    first = {"what": "density", "spec": spec, "event": [list(map(float, P[k][i])) for k in range(3)], "impl": float(dens[i]), "model": dm, "scale": scale, "rel_err": e,
                             "numpy_reference": (float(abs(np.sum(ref[:, i])) ** 2) if ref is not None else None)}
            # complex amplitude (phase convention): informational unless the density disagrees as well
            ea = abs(camp[i] - complex(np.sum(per[:, 2]), np.sum(per[:, 3]))) / math.sqrt(scale)
            worst["amplitude"] = max(worst["amplitude"], ea)
            if not ea < TOL and e < TOL:
                phase_notes += 1
            e = abs(dh - dm) / scale
            worst["hel"] = max(worst["hel"], e)
            if not e < TOL:
                nbad["hel"] += 1
                if first is None:
                    first = {"what": "closed form vs helicity formula inside the model", "spec": spec, "closed": dm, "hel": dh}
        pos += n
    # CG matrix entries (exact numbers +-sqrt(rational)): 1e-12 absolute
    for (decs, key, val), o in zip(cg_vals, out[pos:pos + len(cg_lines)]):
        mv = C.h2f(o)
        n_cg += 1
        if not abs(mv - val) < 1e-12:
            nbad["cg"] += 1
            if first is None:
                first = {"what": "get_cg_matrix entry", "decay": decs, "(l,s,lambda_b,lambda_c)": key, "impl": val, "model": mv}
    pos += len(cg_lines)
    nskip_kin = 0
    for (spec, i, resn, mRd, cosb, q2A, q2R), o in zip(kin_vals, out[pos:pos + len(kin_lines)]):
        v = [C.h2f(x) for x in o.split()]
        S = v[0] ** 2
        cond = max(1.0, S / max(abs(v[6]), 1e-300), S / max(abs(v[7]), 1e-300))
        # a (numerically) massless resonance candidate (two collinear massless finals) has no rest frame:
        # |q|2 of the resonance is inf/nan and cos(theta) is 0/0 in both evaluations
        vals = [v[1], v[5], v[6], v[7], mRd, cosb, q2A, q2R]
        if cond > COND_MAX or not all(math.isfinite(x) for x in vals) or not (mRd ** 2 > S / COND_MAX):
            nskip_kin += 1
            continue
        errs = [abs(v[1] ** 2 - mRd ** 2) / S, abs(v[5] - cosb), abs(v[6] - q2A) / S, abs(v[7] - q2R) / S]
        e = max(errs) / cond ** 0.5
        worst["kin"] = max(worst["kin"], e)
        if not e < 1e-10:
            nbad["kin"] += 1
            if first is None:
                first = {"what": "kinematics (mR^2, cos theta, |q|2 parent, |q|2 resonance)", "resonance": resn, "spec": spec, "event_index": i, "impl": [mRd, cosb, q2A, q2R], "model": [v[1], v[5], v[6], v[7]], "errs": errs}
    pos += len(kin_lines)
    for k, o in enumerate(out[pos:]):
        J, x = k // len(xs), xs[k % len(xs)]
        v = [C.h2f(t) for t in o.split()]
        want = float(_legendre(J, np.array(x)))
        if not (abs(v[0] - want) < 1e-13 and abs(v[1] - want) < 1e-7 * (1 if abs(x) > 0.9999 else 1e-6)):
            nbad["legendre"] += 1
            if first is None:
                first = {"what": "legendre / d00", "J": J, "x": x, "recurrence": v[0], "d00_from_weights": v[1], "explicit": want}
    res.coverage.update({
        "traces_validated_against_impl": int(nontriv + n_cg + len(kin_lines)),
        "evaluations": int(len(lines) + len(cg_lines) + len(kin_lines) + len(leg_lines)),
        "distinct_nontrivial": int(nontriv),
        "rule": "seeded ConfigLoader(dict) configurations (spin-0 parent and finals, 1-4 resonances of spin 0..4 over the three pairings, both daughter orders, polar and Cartesian couplings, nominal masses inside / below threshold / beyond the kinematic limit) x (structured events: resonance mass at 1e-3..2e-2 of either end of its range, cos theta = +-1, +-(1-1e-7), 0, random boost of the event) + PhaseSpaceGenerator events; non-trivial = event inside the conditioning bound with non-zero amplitude",
        "exhaustive": False,
        "configurations": int(nconf),
        "spins_seen": sorted(jset),
        "configs_with_interfering_different_J": int(multi),
        "ill_conditioned_skipped": int(nskip),
        "kinematics_rows_skipped_ill_conditioned": int(nskip_kin),
        "worst_rel_err_density": worst["density"],
        "worst_rel_err_complex_amplitude": worst["amplitude"],
        "events_with_equal_density_but_different_complex_amplitude": int(phase_notes),
        "worst_rel_err_closed_vs_helicity_in_model": worst["hel"],
        "worst_err_kinematics": worst["kin"],
        "cg_matrix_entries_compared": int(n_cg),
        "disagreements": dict(nbad),
    })
    if phase_notes:
        res.notes.append("the complex amplitude DecayGroup.get_amp differs from the model by a phase on %d events although the density agrees (global phase convention; not part of the density statement)" % phase_notes)
    res.samples += [{"op": lines[0][:400], "model": out[0], "impl_density": float(meta[0][2][0])}]
    if any(nbad.values()):
        res.broke("correspondence SpinlessF vs ConfigLoader(...).get_amplitude()", {"n": dict(nbad), "first": first})
        ctx.hint = first


# ---------------------------------------------------------------------------------------------
# search: the property statement on the implementation, oracle = numpy closed form from invariants
# ---------------------------------------------------------------------------------------------

def _classify(spec, ref, dens_i, i):
    """Stable key of the input class."""
    nch = len(spec["chains"])
    if nch == 1:
        return "closed-form:single-chain:J=%d" % spec["chains"][0]["J"]
    return "closed-form:interference:%d-chains" % nch


def check_spec(spec, P, tol=TOL):
    """Returns list of (index, impl, ref, scale, rel_err) of failing events, n_checked, n_skipped, worst."""
    config, amp = build_amp(spec)
    dens, _ = impl_density(config, amp, P)
    ref, cond, scale = ref_terms(spec, P)
    tot = np.abs(np.sum(ref, 0)) ** 2
    ok = (cond <= COND_MAX) & np.isfinite(scale) & (scale > 0)
    err = np.abs(dens - tot) / np.where(ok, scale, 1.0)
    bad = np.where(ok & ~(err < tol))[0]
    worst = float(np.max(err[ok])) if np.any(ok) else 0.0
    return [(int(i), float(dens[i]), float(tot[i]), float(scale[i]), float(err[i])) for i in bad], int(np.sum(ok)), int(np.sum(~ok)), worst


def search(ctx, res):
    rng = np.random.Generator(np.random.Philox(ctx.seed + 40004))
    nconf = _nconf(ctx, 20, 150)
    nev_s, nev_p = (50, 100) if (ctx.quick and not ctx.suspect) else (100, 200)
    nfail, ncheck, nskip, worst = 0, 0, 0, 0.0
    for ic in range(nconf):
        nch = [1, 2, 3, 3, 2, 1, 3, 2, 4, 3][ic % 10]
        spec = gen_spec(rng, nch, regular=True)
        if ic % 10 in (1, 2):  # at least two interfering chains of different spin
            js = [c["J"] for c in spec["chains"]]
            if len(set(js)) < 2:
                spec["chains"][0]["J"] = (js[1] + 1 + int(rng.integers(0, 4))) % 5
        Ps, _ = structured_events(rng, spec, nev_s)
        Pp = phsp_events(ctx.seed * 1000 + 500 + ic, spec, nev_p)
        P = [np.concatenate([Ps[k], Pp[k]]) for k in range(3)]
        bad, n_ok, n_sk, w = check_spec(spec, P)
        ncheck += n_ok
        nskip += n_sk
        worst = max(worst, w)
        for (i, di, ri, sc, e) in bad[:2]:
            if nfail < 12:
                ev = [list(map(float, P[k][i])) for k in range(3)]
                res.fail(_classify(spec, None, di, i),
                         "density of ConfigLoader(%s) at event %s is %r, closed form |sum_k c_k (-1)^J q^J p^J B_J B_J BW P_J|^2 = %r (difference %.3g of the scale %.3g)" % (
                             _short(spec), ev, di, ri, e, sc),
                         {"op": "density", "spec": spec, "event": ev, "tol": TOL})
            nfail += 1
    res.coverage["search_configurations"] = int(nconf)
    res.coverage["search_events_checked"] = int(ncheck)
    res.coverage["search_events_skipped_ill_conditioned"] = int(nskip)
    res.coverage["search_worst_rel_err"] = worst
    res.samples.append({"search_events_checked": ncheck, "worst_rel_err_vs_numpy_closed_form": worst})


def _short(spec):
    return "M=%.4g finals=%s %s %s" % (spec["M"], spec["fm"], "polar" if spec["polar"] else "cartesian",
                                      ["%s:J=%d(%s%s)%s m=%.4g G=%.3g c=(%.3g,%.3g)" % (c["name"], c["J"], NAMES[PERMS[c["perm"]][0]], NAMES[PERMS[c["perm"]][1]], "swap" if c["swapA"] else "", c["mass"], c["width"], c["c1"], c["c2"]) for c in spec["chains"]])


def replay(ctx, payload):
    """Re-execute the failing input of a replay file on the current /repo; 1 if it still fails."""
    r = payload.get("replay") or {}
    if r.get("op") != "density":
        import json
        print("replay file names a broken obligation, not a failing input: %s" % json.dumps(payload.get("broken"), default=str)[:3000])
        return 1
    spec = r["spec"]
    P = [np.array([r["event"][k]], dtype=np.float64) for k in range(3)]
    bad, n_ok, n_sk, worst = check_spec(spec, P, tol=float(r.get("tol", TOL)))
    config, amp = build_amp(spec)
    dens, _ = impl_density(config, amp, P)
    ref, cond, _ = ref_terms(spec, P)
    print("configuration:", _short(spec))
    print("implementation density:", float(dens[0]), " closed form:", float(abs(np.sum(ref[:, 0])) ** 2), " rel. difference (of scale):", worst, " conditioning:", float(cond[0]))
    still = bool(bad)
    print("REPLAY: property C04 %s" % ("still violated" if still else "holds on this input now"))
    return 1 if still else 0


MANIFEST = {
    "text": "Lean theorems over the reals, for every resonance spin J <= 4 and all real masses, widths, couplings, momenta and angles: the chain formula of tf_pwa.amp.core specialised to spin-0 external particles (LS->helicity factor sqrt((2l+1)/(2J+1)) CG CG with the exact Clebsch-Gordan values of C12, D^{0*} D^{J*} contraction over the helicity of the resonance with the zero padding of Dfun_delta_v2, exact small-d weights) equals the closed form c (-1)^J p^J B_J(p) q^J B_J(q) BW(m) P_J(cos theta) (spinless_closed_form); the (-1)^J and the absence of a sqrt(2J+1) are derived from the exact CG values (ls_factor_parent, ls_factor_resonance), d^J_00(theta) = P_J(cos theta) as a polynomial identity in sin/cos of theta/2 (d00_legendre), Legendre parity (daughter order), and with the C15 theorems the closed form is written with the documented 1/(m0^2-m^2-i m0 Gamma(m)). The polar helicity angle of the vertex R -> a b as the Lean model of cal_angle.py computes it (infer_momentum, cal_chain_boost, angle_zx_z_getx with cross_unit) satisfies cos(beta) = the boost-defined cos(theta) of the closed form for ALL final four-momenta outside cross_unit's degenerate fallback (helicity_angle_is_boost_angle, Props/C04b). The specialised formula is the GENERAL amplitude-tensor model of amp/core.py (templates/Amp.lean.in: CG tables, barrier factors, D-function tables with the Dfun_delta_v2 gather, einsum over the resonance helicity, sum over chains, helicity-summed density) on the two-vertex chain with spin-0 external particles, for every resonance spin J without bound, both daughter orders, all couplings, momenta, line-shape values and angles (spinless_reduction, Props/C04c), so that for J <= 4 the general model itself gives the closed form and the density |sum_k closed_k|^2 (general_model_closed_form, general_model_spinless_density). The same template text instantiated at Float is compared with ConfigLoader(dict).get_amplitude()(data) on seeded configurations and events.",
    "note": "Model = templates/Spinless.lean.in (closed form from the three four-momenta by explicit boosts + code-shaped helicity formula) on top of templates/Kin, templates/LineShape, Model/Wigner. Tie = differential run: density, get_cg_matrix entries, masses / |q|2 / cos(beta) seen by the implementation vs the Float model (rel. 1e-9 of (sum|A_k|)^2, events with a break-up momentum < 3e-3 M skipped and counted). Search = independent numpy evaluation of the closed form from Lorentz invariants only (no boosts, explicit Legendre polynomials) vs the implementation. The helicity angle of the cal_angle MODEL (templates/Cascade, tied to the implementation by C11) equals the boost-defined angle by theorem (C04b); that the implementation's own beta equals it is validated on every event. NOT verified: Float rounding.",
    "technique": "Lean 4 proof over the reals (exact kernel-evaluated Clebsch-Gordan / Wigner-d tables + algebra) of one template instantiated at Float for differential correspondence with the implementation; independent numpy oracle",
}
