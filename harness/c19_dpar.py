"""C19 part g: decay-entry parameters, particle-level decay_params / production_params, params_head, line-shape model
names, coef_head.

Lean model `TfPwaV.Model.ConfigD` (driver prefix C19g) against `ConfigLoader(dict)`; theorems in `TfPwaV.Props.C19g`.
Used by harness/c19.py (correspond_dpar / search_dpar)."""
import contextlib
import copy
import io
import json
import random

ATTRS = ["has_barrier_factor", "l_list", "barrier_factor_mass", "has_ql", "has_bprime", "aligned", "barrier_factor_norm",
         "params_polar", "below_threshold", "force_min_l", "no_q0", "helicity_inner_full", "ls_selector", "p_break",
         "c_break", "curve_style", "d"]
DEFAULTS = {"has_barrier_factor": True, "l_list": None, "barrier_factor_mass": False, "has_ql": True, "has_bprime": True,
            "aligned": False, "barrier_factor_norm": False, "params_polar": None, "below_threshold": False,
            "force_min_l": False, "no_q0": False, "helicity_inner_full": False, "ls_selector": None, "p_break": False,
            "c_break": True, "curve_style": None}
NAMED = set(DEFAULTS) | {"allow_cc", "ls_list", "params_head", "name", "disable"}
DICT_KEYS = ("decay_params", "production_params")
SHAPES = ["default", "BW", "BWR", "BWR2", "BWR_below", "BWR_coupling", "BWR_normal", "GS_rho", "x", "LASS",
          "exp", "exp_com", "one", "no_such_line_shape"]


# --------------------------------------------------------------------------------------------------------------
# grammar
# --------------------------------------------------------------------------------------------------------------

def extra_opts(rnd, heads):
    o = {}
    for k in ("has_barrier_factor", "barrier_factor_norm", "has_bprime", "no_q0", "barrier_factor_mass"):
        if rnd.random() < 0.12:
            o[k] = rnd.random() < 0.5
    if rnd.random() < 0.1:
        o["curve_style"] = rnd.choice(["r-", "b--", None])
    if rnd.random() < 0.12:
        o["d"] = rnd.choice([5.0, 1.5, 3])
    if rnd.random() < 0.15:
        o[rnd.choice(["foo", "bar", "my_key"])] = rnd.choice([1, "txt", True, 2.5, None])
    if rnd.random() < 0.1:
        o["model"] = rnd.choice(["default", "gls-bf"])
    if rnd.random() < 0.12:
        heads[0] += 1
        o["params_head"] = "H%d" % heads[0]
    if rnd.random() < 0.06:
        o["l_list"] = rnd.choice([None, [0], [1], [0, 1], [1, 2], [0, 2]])
    if rnd.random() < 0.05:
        o["p_break"] = rnd.choice([None, True, False])
    if rnd.random() < 0.03:
        o["ls_list"] = rnd.choice([[[0, 1]], [[1, 1], [0, 0]], [[1, 0.5]], []])
    ks = list(o.items())
    rnd.shuffle(ks)
    return dict(ks)


def part_params(rnd):
    o = {}
    if rnd.random() < 0.5:
        o["l_list"] = rnd.choice([[0], [1], [0, 1], [0, 2], [1, 2, 3], None])
    if rnd.random() < 0.4:
        o["has_barrier_factor"] = rnd.random() < 0.5
    if rnd.random() < 0.3:
        o["p_break"] = rnd.random() < 0.7
    if rnd.random() < 0.3:
        o[rnd.choice(["foo", "zed"])] = rnd.choice([7, "u"])
    if not o:
        o["no_q0"] = True
    return o


def subs_of(outs):
    return outs if (len(outs) > 0 and all(isinstance(i, list) for i in outs)) else [outs]


def gen_dcard(c19, rnd):
    cfg, share = c19.gen_card(rnd)
    cfg = copy.deepcopy(cfg)
    share = copy.deepcopy(share)
    heads = [0]
    for core, outs in cfg["decay"].items():
        for sub in subs_of(outs):
            if not sub:
                continue
            if rnd.random() < 0.55:
                o = extra_opts(rnd, heads)
                if o:
                    sub.insert(rnd.randint(0, len(sub)), o)
            if rnd.random() < 0.1:          # a later dict that overrides a key of an earlier one
                prev = [i for i in sub if isinstance(i, dict) and i]
                if prev:
                    k = rnd.choice(list(prev[0]))
                    v0 = prev[0][k]
                    sub.append({k: (not v0) if isinstance(v0, bool) else rnd.choice([v0, None])})
    part = cfg["particle"]
    dicts = [(k, v) for k, v in part.items() if isinstance(v, dict) and not k.startswith("$")]
    for sec in ("$top", "$finals"):
        if isinstance(part.get(sec), dict):
            dicts += list(part[sec].items())
    for name, src in share.items():
        dicts += [(k, v) for k, v in src.items() if isinstance(v, dict)]
    for k, d in dicts:
        if rnd.random() < 0.22:
            d["decay_params"] = part_params(rnd)
        if rnd.random() < 0.18:
            d["production_params"] = part_params(rnd)
    # line-shape models and coef_head on the resonances
    res = [k for k, v in part.items() if isinstance(v, dict) and not k.startswith("$") and k != "A" and k not in c19.FINALS]
    for r in res:
        d = part[r]
        if rnd.random() < 0.35:
            key = "bw" if "bw" in d else "model"
            d[key] = rnd.choice(SHAPES)
        if len(res) >= 2 and rnd.random() < 0.2:
            d["coef_head"] = rnd.choice([x for x in res if x != r] + (["nobody"] if rnd.random() < 0.1 else []))
    return cfg, share


def malformed(c19, rnd, cfg, share, chains):
    """one defect injected into a loadable card; returns (kind, cfg) or None"""
    cfg = copy.deepcopy(cfg)
    lists = {k: v for k, v in c19.merged_particle(cfg, share)[2].items() if isinstance(v, list)}
    used = set()
    for s in chains:
        for d in s[1:-1].split(", "):
            c, os_ = d.split("->")
            used.add((c, frozenset(os_.split("+"))))
    targets = []
    for core, outs in cfg["decay"].items():
        for sub in subs_of(outs):
            names = [i for i in sub if not isinstance(i, dict)]
            if len(names) != 2:
                continue
            inst = [(c, frozenset((a, b))) for c in lists.get(core, [core]) for a in lists.get(names[0], [names[0]]) for b in lists.get(names[1], [names[1]])]
            if any(i in used for i in inst):
                targets.append(sub)
    if not targets:
        return None
    sub = rnd.choice(targets)
    kind = rnd.choice(["unknown-key", "unknown-model", "null-model", "l-list-empty", "ls-forbidden", "ls-empty", "l-list-null"])
    o = {"unknown-key": {"not_a_key": 3}, "unknown-model": {"model": "no_such_decay_model"}, "null-model": {"model": None},
         "l-list-empty": {"l_list": [7]}, "ls-forbidden": {"ls_list": [[5, 1], [0, 1]]}, "ls-empty": {"ls_list": []},
         "l-list-null": {"l_list": None}}[kind]
    sub.append(o)
    return kind, cfg


# --------------------------------------------------------------------------------------------------------------
# card -> token line
# --------------------------------------------------------------------------------------------------------------

def enc_dv(k, v):
    if v is None:
        return "n"
    if isinstance(v, bool):
        return "b%d" % v
    if k == "l_list" and isinstance(v, (list, tuple)):
        return "L" + ",".join(str(int(i)) for i in v)
    if k == "ls_list" and isinstance(v, (list, tuple)):
        return "P" + ",".join("%d.%d" % (int(l), int(round(2 * s))) for l, s in v)
    s = "".join(str(v).split())
    assert not any(ch in s for ch in ";=|&"), s
    return "s" + s


def enc_ddict(d):
    return ";".join("%s=%s" % (k, enc_dv(k, v)) for k, v in d.items())


def enc_pdict(c19, d):
    toks = [str(len(d))]
    for k, v in d.items():
        toks += [k, ("x:@" + enc_ddict(v)) if (k in DICT_KEYS and isinstance(v, dict)) else c19.enc_val(k, v)]
    return toks


def enc_pentries(c19, d):
    toks = [str(len(d))]
    for k, v in d.items():
        if isinstance(v, dict):
            toks += ["d", k] + enc_pdict(c19, v)
        else:
            toks += ["c", k, str(len(v))] + list(v)
    return toks


def enc_items(items):
    return [str(len(items))] + [("O:" + enc_ddict(i)) if isinstance(i, dict) else "n:" + i for i in items]


def encode(c19, cfg, share):
    part = dict(cfg["particle"])
    top = part.pop("$top")
    fin = part.pop("$finals")
    incs = part.pop("$include", None)
    toks = []
    if isinstance(top, dict):
        (tn, td), = top.items()
        toks += ["TD", tn] + enc_pdict(c19, td)
    else:
        toks += ["T", top[0] if isinstance(top, list) else top]
    if isinstance(fin, dict):
        toks += ["FD", str(len(fin))]
        for k, v in fin.items():
            toks += [k] + enc_pdict(c19, v)
    else:
        toks += ["F", str(len(fin))] + list(fin)
    if isinstance(incs, str):
        incs = [incs]
    incs = incs or []
    toks += ["I", str(len(incs))]
    for name in incs:
        toks += enc_pentries(c19, share[name])
    toks += ["P"] + enc_pentries(c19, part)
    dec = cfg["decay"]
    toks += ["D", str(len(dec))]
    for core, outs in dec.items():
        toks.append(core)
        if len(outs) > 0 and all(isinstance(i, list) for i in outs):
            toks += ["n", str(len(outs))]
            for sub in outs:
                toks += enc_items(sub)
        else:
            toks += ["f"] + enc_items(outs)
    assert all(t and " " not in t for t in toks), toks
    return " ".join(toks)


# --------------------------------------------------------------------------------------------------------------
# observation of the implementation
# --------------------------------------------------------------------------------------------------------------

def observe(c19, cfg, share):
    from tf_pwa.config_loader import ConfigLoader
    out = {"stage": "decay"}
    buf = io.StringIO()
    try:
        with contextlib.redirect_stdout(buf), contextlib.redirect_stderr(buf):
            c = ConfigLoader(copy.deepcopy(cfg), share_dict=copy.deepcopy(share))
            g = c.get_decay()
            out["chains"] = [str(ch) for ch in g]
            out["ls"] = [[c19.canon_ls(d.get_ls_list()) for d in ch] for ch in g]
            out["attrs"] = [[enc_ddict({k: getattr(d, k) for k in ATTRS if k != "d"}) for d in ch] for ch in g]
            out["export"] = [[enc_ddict(list(d.as_config().values())[0][-1]) for d in ch] for ch in g]
            out["stage"] = "amplitude"
            c.get_amplitude()
            out["d"] = [[enc_dv("d", getattr(d, "d")) for d in ch] for ch in g]
            out["params"] = list(c.get_params().keys())
            out["trainable"] = list(c.vm.trainable_vars)
            out["same"] = sorted(sorted(grp) for grp in c.vm.same_list)
            out["stage"] = "done"
    except RecursionError:
        out["raise"] = "RecursionError"
    except Exception as e:
        out["raise"] = type(e).__name__
        out["msg"] = str(e)[:200]
    return out


def partition(pairs):
    """finest partition in which the two names of every pair are together (classes of size >= 2)"""
    parent = {}

    def find(x):
        parent.setdefault(x, x)
        while parent[x] != x:
            parent[x] = parent[parent[x]]
            x = parent[x]
        return x
    for a, b in pairs:
        ra, rb = find(a), find(b)
        if ra != rb:
            parent[ra] = rb
    cls = {}
    for x in parent:
        cls.setdefault(find(x), set()).add(x)
    return sorted(sorted(v) for v in cls.values() if len(v) >= 2)


def impl_view(o):
    """the implementation's outputs in the text form of the model's answers"""
    v = {}
    if o["stage"] == "decay":
        for op in ("chains", "ls", "params", "attrs", "export", "ties"):
            v[op] = "raise:" + o["raise"]
        return v
    v["chains"] = "|".join(o["chains"])
    v["ls"] = "|".join(";".join(x) for x in o["ls"])
    v["export"] = "|".join(" & ".join(x) for x in o["export"])
    if o["stage"] == "amplitude":
        v["params"] = v["ties"] = v["attrs"] = "raise:" + o["raise"]
        return v
    v["attrs"] = "|".join(" & ".join(a + ";d=" + d for a, d in zip(x, y)) for x, y in zip(o["attrs"], o["d"]))
    v["params"] = " ".join(o["params"])
    v["ties"] = partition([(grp[0], x) for grp in o["same"] for x in grp])   # as a partition: self-ties [x, x] carry no information
    return v


def model_view(ans):
    v = dict(ans)
    t = v["ties"]
    if not t.startswith("raise:"):
        v["ties"] = partition([p.split("=") for p in t.split()])
    return v


def compare(mv, iv):
    """None or (op, model, impl); `unsupported` answers of the model are skipped (counted by the caller)"""
    if mv["chains"].startswith("raise:"):
        if mv["chains"] == "raise:unsupported":
            return None
        return None if iv["chains"] == mv["chains"] else ("chains", mv["chains"], iv["chains"])
    for op in ("chains", "ls", "export"):
        if mv[op] != iv[op]:
            return (op, mv[op], iv[op])
    # amplitude stage: a raise of the tie stage is a raise of get_amplitude as a whole
    if isinstance(mv["ties"], str) and mv["ties"] not in ("raise:unsupported",):
        return None if iv["params"] == mv["ties"] else ("ties", mv["ties"], iv["params"])
    if isinstance(iv["params"], str) and iv["params"].startswith("raise:"):
        if mv["ties"] == "raise:unsupported" or mv["params"] == "raise:unsupported":
            return None
        return ("params", mv["params"], iv["params"])
    for op in ("attrs", "params", "ties"):
        if mv[op] == "raise:unsupported":
            continue
        if mv[op] != iv[op]:
            return (op, mv[op], iv[op])
    return None


# --------------------------------------------------------------------------------------------------------------
# model-independent oracles
# --------------------------------------------------------------------------------------------------------------

def _props(c19, cfg, share):
    top, fin, part = c19.merged_particle(cfg, share)
    props = {k: c19.canon_dict(v) for k, v in part.items() if isinstance(v, dict)}
    lists = {k: v for k, v in part.items() if isinstance(v, list)}
    if isinstance(top, dict):
        props.update({k: c19.canon_dict(v) for k, v in top.items()})
        top = list(top)[0]
    if isinstance(fin, dict):
        props.update({k: c19.canon_dict(v) for k, v in fin.items()})
    return top, list(fin), props, lists


def oracle(c19, cfg, share):
    """own reading of the card: {chain key: {decay key: (effective keyword dict, allowed (l,2s) list)}}"""
    top, fin, props, lists = _props(c19, cfg, share)

    def q(name):
        d = props.get(name, {})
        return (c19.j2_of(d.get("J", 0)), d.get("P", -1), d.get("C", None))
    declared = {}
    for core, outs in cfg["decay"].items():
        for sub in ([] if not outs else subs_of(outs)):
            names = [i for i in sub if not isinstance(i, dict)]
            o = {}
            for i in sub:
                if isinstance(i, dict):
                    o.update(i)
            assert len(names) == 2
            for c in lists.get(core, [core]):
                for a in lists.get(names[0], [names[0]]):
                    for b in lists.get(names[1], [names[1]]):
                        key = (c, frozenset((a, b)))
                        declared[key] = ((declared[key][0] if key in declared else (a, b)), o)
    by_core = {}
    for (c, _), ((a, b), o) in declared.items():
        eff = {}
        eff.update(props.get(a, {}).get("production_params") or {})
        eff.update(props.get(b, {}).get("production_params") or {})
        eff.update(props.get(c, {}).get("decay_params") or {})
        eff.update(o)
        by_core.setdefault(c, []).append((a, b, eff))

    def ls_of(c, a, b, o):
        if o.get("ls_list") is not None:
            return [(int(l), int(round(2 * s))) for l, s in o["ls_list"]]
        (ja, pa, ca_), (jb, pb, _), (jc, pc, _) = q(c), q(a), q(b)
        cb = o.get("c_break", True)
        ls = c19.oracle_ls(ja, jb, jc, pa, pb, pc, bool(o.get("p_break", False)), None if cb else ca_)
        if o.get("l_list") is not None:
            ls = [x for x in ls if x[0] in o["l_list"]]
        return ls

    def trees(x, depth=0):
        if depth > 12:
            raise RecursionError
        if x not in by_core:
            return [([], [x])]
        out = []
        for a, b, o in by_core[x]:
            for da, la in trees(a, depth + 1):
                for db, lb in trees(b, depth + 1):
                    out.append(([(x, a, b, o)] + da + db, la + lb))
        return out
    allowed, bad_model = {}, False
    if top not in by_core:
        return allowed, bad_model
    dk = lambda c, a, b: "%s->%s" % (c, "+".join(sorted((a, b))))
    for decs, leaves in trees(top):
        if sorted(leaves) != sorted(fin):
            continue
        if any(o.get("model", "default") not in ("default", "gls-bf") for _, _, _, o in decs):
            bad_model = True
        lss = [ls_of(c, a, b, o) for c, a, b, o in decs]
        if all(lss):
            allowed[frozenset(dk(c, a, b) for c, a, b, o in decs)] = {dk(c, a, b): (o, sorted(l)) for (c, a, b, o), l in zip(decs, lss)}
    return allowed, bad_model


def entry_with_unregistered_model(cfg):
    """some decay ENTRY (instantiated by the first pass or not) names a model that is not a registered two-body class;
    the second pass of DecayConfig.__init__ (decay_struct, empty particle map) constructs every entry that lies on a
    slot-level chain, so such an entry raises KeyError even when its candidate list is empty"""
    for core, outs in cfg["decay"].items():
        for sub in ([] if not outs else subs_of(outs)):
            o = {}
            for i in sub:
                if isinstance(i, dict):
                    o.update(i)
            if o.get("model", "default") not in ("default", "gls-bf", "LS-decay"):
                return True
    return False


def check_statement(c19, cfg, share, o):
    """the property statement on the implementation: list of (key, what)"""
    out = []
    try:
        want, bad_model = oracle(c19, cfg, share)
    except RecursionError:
        return out
    if "raise" in o:
        if o["stage"] == "decay":
            if o["raise"] == "KeyError" and (bad_model or entry_with_unregistered_model(cfg)):
                return out
            if o["raise"] == "AssertionError" and c19.unreachable_declaration(cfg):
                return out
            if not (o["raise"] == "RuntimeError" and not want):
                out.append(("dpar:raise", "loader raises %s (%s), independent reading of the card finds %d allowed chains" % (o["raise"], o.get("msg"), len(want))))
        return out
    if bad_model:
        out.append(("dpar:unknown-model-accepted", "a decay of a candidate chain names an unregistered model, the card loads"))
        return out
    got = [c19.chain_key(s) for s in o["chains"]]
    miss = [sorted(k) for k in want if k not in got]
    extra = [sorted(k) for k in got if k not in want]
    if miss:
        out.append(("dpar:chain-dropped", "chain(s) with a non-empty restricted (l,s) list on every decay dropped: %s" % miss[:3]))
    if extra:
        out.append(("dpar:chain-kept", "chain(s) kept although l_list / ls_list / selection rules leave a decay without coupling: %s" % extra[:3]))
    if miss or extra:
        return out
    names = o.get("params")
    for ci, s in enumerate(o["chains"]):
        w = want[c19.chain_key(s)]
        for di, d in enumerate(s[1:-1].split(", ")):
            c_, os_ = d.split("->")
            eff, ls = w["%s->%s" % (c_, "+".join(sorted(os_.split("+"))))]
            got_ls = sorted(tuple(int(x) for x in p.split(",")) for p in o["ls"][ci][di].split())
            if got_ls != [tuple(x) for x in ls]:
                out.append(("dpar:ls", "decay %s has couplings %s; options %s and the selection rules give %s" % (d, got_ls, eff, ls)))
            exp_attr = enc_ddict({k: eff.get(k, DEFAULTS[k]) for k in ATTRS if k != "d"})
            if exp_attr != o["attrs"][ci][di]:
                out.append(("dpar:attrs", "decay %s: keywords {**production_params, **decay_params, **entry} = %s, object has %s" % (d, exp_attr, o["attrs"][ci][di])))
            exp_exp = enc_ddict(dict([(k, eff.get(k, DEFAULTS[k])) for k in ("p_break", "c_break", "curve_style")] + [(k, v) for k, v in eff.items() if k not in NAMED]))
            if exp_exp != o["export"][ci][di]:
                out.append(("dpar:export", "decay %s: as_config options %s, expected %s" % (d, o["export"][ci][di], exp_exp)))
            if names is not None:
                head = eff.get("params_head") or d.replace("+", ".")
                mine = [n for n in names if n.startswith(head + "_g_ls_")]
                heads = [e.get("params_head") for ch in want.values() for e, _ in ch.values()]
                if heads.count(eff.get("params_head")) <= 1 or eff.get("params_head") is None:
                    if len(mine) != 2 * len(ls):
                        out.append(("dpar:gls-count", "decay %s with %d couplings has the variables %s" % (d, len(ls), mine)))
    if names is not None and len(set(names)) != len(names):
        out.append(("dpar:duplicate-name", "get_params() lists a name twice"))
    # ties only where declared
    if o.get("same") is not None:
        top, fin, props, lists = _props(c19, cfg, share)
        if o["same"] and not any("coef_head" in d for d in props.values()):
            out.append(("dpar:undeclared-tie", "variables tied without any coef_head / var_equal: %s" % o["same"][:3]))
    return out
