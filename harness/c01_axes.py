"""C01 (base-axes clause) — correspondence of Props/C01h.lean with the real `cal_angle`.

For seeded events (parent moving or at rest) and TWO seeded choices of base axes (z, x), (z', x') (random, not normalised,
not orthogonal) the real `tf_pwa.cal_angle.cal_helicity_angle(data, chain, base_z=, base_x=)` is run for every chain, and

 (a) the top-vertex angles it stores are compared with `angle_zx_z_getx` of the Lean Float model (templates/Angle.lean.in,
     op `getx`) evaluated at the SAME explicit base axes and the real `rest_p`            (model <-> code at non-default axes);
 (b) `top_angles_compose`: with U = the SU(2) element that turns coordinates along the top frame of (z, x) into coordinates
     along the top frame of (z', x') (built here with numpy, checked against `lor U`), the matrix
     W = r' U r^-1, r = Rotation_y(beta) Rotation_z(alpha) of the REAL angles, is diagonal (= Rotation_z(gamma)), both daughters;
 (c) `below_top_azimuth_shift`: one level below the top the polar angles are equal and the azimuths are lowered by that
     gamma (mod 2 pi); two or more levels below everything is equal;
 (d) `top_D_compose`: the REAL `dfun.D_matrix_conj` at the real angles satisfies
     D(alpha', beta', 0) = D(euler(mirror U)) D(alpha, beta, 0) diag(exp(i m gamma)) with the real `SU2M.get_euler_angle`, 2j = 1..4;
 (e) VALIDATED ONLY (the links not proved in Lean): the real `r_matrix` of every final particle satisfies
     r_matrix' U = D r_matrix with D = Rotation_z(gamma) for a direct daughter of the top particle and D = +-1 below
     (`alignment_compose`), and the DENSITY of the real amplitude model computed with the two choices of base axes is equal
     (`AxesIndependent` itself; `cal_helicity_angle` is wrapped so that the library's own pipeline `config.data.cal_angle` ->
     `amp(data)` runs with the explicit axes).
 (g) `Props/C01j.top_gammas_opposite` (PROVED on the model): Rotation_z(gamma_1) Rotation_z(gamma_2) = +1 EXACTLY for the two daughters
     of every top vertex of the REAL cal_helicity_angle (the former check accepted +-1);
 (h) `Props/C01j.vertex_second_daughter_exact` (PROVED on the model): at EVERY vertex of every chain, both choices of axes, the stored
     angles of outs[1] are (alpha_1 - pi, pi - beta_1) as real numbers (events with |alpha_1| within 1e-6 of pi are skipped and counted);
 (i) `Props/C01j.routes_carry_vertex_sheet`: the sign of r_matrix' U r_matrix^-1 of every DEEPER final particle equals the sheet
     (-1)^turns of the level-2 azimuth on its route (first or second daughter of the level-2 vertex: the same sheet).
Tolerance 1e-9 on angles / matrix entries (azimuths of directions within 1e-4 of the polar axis are skipped and counted),
the density with the tolerance of harness/c01.py.
"""
import math

import numpy as np

import common as C

TOL = 1e-9


def frame_of(bz, bx):
    """rows X, Y, Z of the orthonormal top frame angle_zx_z_getx derives from (set_z, set_x); shapes (n,3) -> (n,3,3)"""
    Z = bz / np.linalg.norm(bz, axis=1, keepdims=True)
    Y = np.cross(bz, bx)
    Y /= np.linalg.norm(Y, axis=1, keepdims=True)
    X = np.cross(Y, Z)
    return np.stack([X, Y, Z], 1)


def su2_of_rotation(S):
    """SU(2) element U (n,2,2) with lor U (0, v) = (0, S v) in the parametrisation of templates/SL2C.lean.in
    (herm p = E + (-px, py, pz).sigma): the standard lift of M S M, M = diag(-1, 1, 1)"""
    from scipy.spatial.transform import Rotation
    M = np.diag([-1.0, 1.0, 1.0])
    St = M @ S @ M
    q = Rotation.from_matrix(St).as_quat()  # x, y, z, w
    x, y, z, w = q[:, 0], q[:, 1], q[:, 2], q[:, 3]
    U = np.empty((len(S), 2, 2), dtype=complex)
    U[:, 0, 0] = w - 1j * z
    U[:, 0, 1] = -1j * x - y
    U[:, 1, 0] = -1j * x + y
    U[:, 1, 1] = w + 1j * z
    return U


def rot_z(a):
    a = np.asarray(a, dtype=float)
    M = np.zeros(a.shape + (2, 2), dtype=complex)
    M[..., 0, 0] = np.exp(-0.5j * a)
    M[..., 1, 1] = np.exp(0.5j * a)
    return M


def rot_y(b):
    b = np.asarray(b, dtype=float)
    M = np.zeros(b.shape + (2, 2), dtype=complex)
    M[..., 0, 0] = np.cos(b / 2); M[..., 0, 1] = -np.sin(b / 2)
    M[..., 1, 0] = np.sin(b / 2); M[..., 1, 1] = np.cos(b / 2)
    return M


def step_r(a, b):
    return rot_y(b) @ rot_z(a)


def frame_lift_np(F):
    """the construction of Proofs/AxesIndB.frame_lift: V = Rotation_z(g) Rotation_y(b) Rotation_z(a) with (a, b) the polar angles of the
    third axis Z and g the angle of the rotated first axis; `coords F q = lor V q`.  F: (n,3,3) rows X, Y, Z"""
    X, Z = F[:, 0], F[:, 2]
    a = np.arctan2(Z[:, 1], Z[:, 0])
    bb = np.arctan2(np.hypot(Z[:, 0], Z[:, 1]), Z[:, 2])
    # spatial action of Rotation_y(b) Rotation_z(a) (templates/SL2C.lean.in rotZv / rotYv)
    def act(v):
        x1 = np.cos(a) * v[:, 0] + np.sin(a) * v[:, 1]
        y1 = np.cos(a) * v[:, 1] - np.sin(a) * v[:, 0]
        z1 = v[:, 2]
        return np.stack([np.cos(bb) * x1 - np.sin(bb) * z1, y1, np.cos(bb) * z1 + np.sin(bb) * x1], 1)
    RX = act(X)
    g = np.arctan2(RX[:, 1], RX[:, 0])
    return rot_z(g) @ step_r(a, bb)


def mirror(U):
    V = np.conj(U).copy()
    V[..., 0, 1] *= -1
    V[..., 1, 0] *= -1
    return V


def wrap(x):
    return np.angle(np.exp(1j * x))


def fl(xs):
    return " ".join(C.f2h(float(x)) for x in xs)


def su2m_np(m):
    x = m["x"]
    return np.stack([np.stack([np.asarray(x[0][0]), np.asarray(x[0][1])], -1), np.stack([np.asarray(x[1][0]), np.asarray(x[1][1])], -1)], -2)


def chain_info(ca, dg, names, plist, base_z, base_x):
    """the real infer_momentum / cal_helicity_angle with explicit axes, per chain:
    (chain string, top decay, {(dec, j): dict(alpha, beta, depth, rest_p, mother=(dec', core) or None)}, {final: r_matrix (n,2,2)}, depth of finals)"""
    byname = {str(p): p for p in dg.outs}
    out = []
    for chain in dg.chains:
        data = {byname[nm]: {"p": np.array(p)} for nm, p in zip(names, plist)}
        data = ca.infer_momentum(data, chain)
        part = ca.cal_chain_boost(data, chain)
        hel = ca.cal_helicity_angle(data, chain, base_z=base_z, base_x=base_x)
        dec_of = {}
        for dec in chain:
            for j in dec.outs:
                dec_of[j] = dec
        ent = {}
        pdepth = {}
        for dec in chain:
            d, c = 0, dec.core
            while c in dec_of:
                d += 1
                c = dec_of[c].core
            for j in dec.outs:
                a = hel[dec][j]["ang"]
                mother = (str(dec_of[dec.core]), str(dec.core)) if dec.core in dec_of else None
                ent[(str(dec), str(j))] = {"alpha": np.asarray(a["alpha"], dtype=float), "beta": np.asarray(a["beta"], dtype=float), "depth": d,
                                           "rest_p": np.asarray(part[dec]["rest_p"][j], dtype=float), "mother": mother}
                pdepth[str(j)] = d
        rm = {}
        for j, m in hel["r_matrix"].items():
            if j in dg.outs:
                rm[str(j)] = su2m_np(m)
        out.append((str(chain), ent, rm, pdepth))
    return out


def density_with_axes(b, plist, bz, bx):
    """the library's own pipeline (config.data.cal_angle -> amp) with cal_helicity_angle forced to the explicit base axes"""
    import tensorflow as tf
    from tf_pwa import cal_angle as ca
    orig = ca.cal_helicity_angle
    BZ, BX = tf.constant(bz), tf.constant(bx)
    calls = [0]

    def forced(data, decay_chain, base_z=None, base_x=None):
        calls[0] += 1
        return orig(data, decay_chain, base_z=BZ, base_x=BX)

    ca.cal_helicity_angle = forced
    try:
        data = b.config.data.cal_angle([np.array(x) for x in plist])
        dens = np.asarray(b.amp(data).numpy(), dtype=float)
    finally:
        ca.cal_helicity_angle = orig
    return dens, calls[0], data


def correspond_axes(ctx, res, builds):
    import tensorflow as tf
    from tf_pwa import cal_angle as ca
    from tf_pwa import dfun
    from tf_pwa.angle import SU2M
    from tf_pwa.data import flatten_dict_data
    import c01
    import c01_wigner

    rng = np.random.Generator(np.random.Philox(ctx.seed + 5005))
    n_ev = 10 if ctx.quick else 50
    stat = {"getx": 0.0, "offdiag": 0.0, "lift": 0.0, "level2": 0.0, "deeper": 0.0, "D": 0.0, "rmatrix": 0.0, "density": 0.0,
            "n_top": 0, "n_level2": 0, "n_deeper": 0, "n_D": 0, "n_r": 0, "n_density": 0, "skipped_ill": 0, "events": 0,
            "gamma12": 0.0, "n_gamma12": 0, "second": 0.0, "n_second": 0, "sheet": 0.0, "n_sheet": 0, "vphase": 0.0, "n_vphase": 0, "n_other_sheet": 0, "lift_lean": 0.0,
            "structures": [], "density_structures": [], "max_frame_angle": 0.0, "max_gamma": 0.0, "nontrivial": 0, "density_degenerate": 0}
    first_bad = {}
    lines, plan = [], []

    def bad(kind, what, detail):
        if kind not in first_bad:
            first_bad[kind] = (what, detail)

    for b in builds:
        dg = b.amp.decay_group
        p0 = c01.phsp(b, n_ev, ctx.seed * 37 + 23 + len(stat["structures"]))
        n = len(p0[0])
        v = c01.rand_dir(rng, n) * rng.uniform(0.2, 0.9, (n, 1))
        v[n // 2:] = 0.0
        p = [c01.apply_boost(x, v) for x in p0]
        # two choices of base axes: arbitrary length, x not orthogonal to z (at least 0.3 rad away from +-z)
        def axes():
            z = c01.rand_dir(rng, n)
            while True:
                x = c01.rand_dir(rng, n)
                if np.all(np.linalg.norm(np.cross(z, x), axis=1) > 0.3):
                    break
            return z * rng.uniform(0.3, 3.0, (n, 1)), x * rng.uniform(0.3, 3.0, (n, 1))
        bz0, bx0 = axes()
        bz1, bx1 = axes()
        k = max(1, n // 5)  # a few events with the code's own defaults on one side
        bz0[:k] = [0.0, 0.0, 1.0]; bx0[:k] = [1.0, 0.0, 0.0]
        F0, F1 = frame_of(bz0, bx0), frame_of(bz1, bx1)
        S = F1 @ np.swapaxes(F0, 1, 2)  # coords' = S coords
        U = su2_of_rotation(S)
        # the lift is checked against lor U (numpy oracle of templates/LorentzSL.lean.in)
        tv = c01.rand_dir(rng, n)
        lv = c01_wigner.lor_np(U, np.concatenate([np.zeros((n, 1)), tv], -1))[:, 1:]
        stat["lift"] = max(stat["lift"], float(np.max(np.abs(lv - np.einsum("nij,nj->ni", S, tv)))))
        Ul = frame_lift_np(F1) @ np.linalg.inv(frame_lift_np(F0))
        stat["lift_lean"] = max(stat["lift_lean"], float(np.max(np.minimum(np.max(np.abs(Ul - U), axis=(1, 2)), np.max(np.abs(Ul + U), axis=(1, 2))))))
        if stat["lift_lean"] > TOL:
            bad("lift", "frame_change_exists: the SU(2) element V' V^-1 built as in Proofs/AxesIndB.frame_lift is not +-(the scipy lift of the frame rotation)", {"err": stat["lift_lean"]})
        ang_frames = np.arccos(np.clip((np.trace(S, axis1=1, axis2=2) - 1) / 2, -1, 1))
        stat["max_frame_angle"] = max(stat["max_frame_angle"], float(ang_frames.max()))
        stat["nontrivial"] += int(np.sum(ang_frames > 1e-2))
        stat["events"] += n
        try:
            d0 = chain_info(ca, dg, b.order, p, bz0, bx0)
            d1 = chain_info(ca, dg, b.order, p, bz1, bx1)
        except Exception as e:
            res.broke("correspondence axes: the real infer_momentum / cal_chain_boost / cal_helicity_angle raised on structure %s with explicit base axes" % b.st["name"],
                      "%s: %s" % (type(e).__name__, str(e)[:300]))
            continue
        stat["structures"].append(b.st["name"])
        mU = mirror(U)
        eu = SU2M([[tf.constant(mU[:, 0, 0]), tf.constant(mU[:, 0, 1])], [tf.constant(mU[:, 1, 0]), tf.constant(mU[:, 1, 1])]]).get_euler_angle()
        e_al, e_be, e_ga = (np.asarray(eu[k_], dtype=float) for k_ in ("alpha", "beta", "gamma"))
        for (cn, e0, r0, pd), (_, e1, r1, _) in zip(d0, d1):
            gam = {}
            # --- top vertex
            for key, a in e0.items():
                if a["depth"] != 0:
                    continue
                a1 = e1[key]
                ill = (np.abs(np.sin(a["beta"])) < 1e-4) | (np.abs(np.sin(a1["beta"])) < 1e-4)
                stat["skipped_ill"] += int(ill.sum())
                W = step_r(a1["alpha"], a1["beta"]) @ U @ np.linalg.inv(step_r(a["alpha"], a["beta"]))
                off = np.where(ill, 0.0, np.maximum(np.abs(W[:, 0, 1]), np.abs(W[:, 1, 0])))
                stat["offdiag"] = max(stat["offdiag"], float(off.max()))
                stat["n_top"] += n
                g = 2 * np.angle(W[:, 1, 1])
                gam[key[1]] = (g, ill)
                stat["max_gamma"] = max(stat["max_gamma"], float(np.max(np.abs(g))))
                kbad = np.where(off > TOL)[0]
                if len(kbad):
                    i = int(kbad[0])
                    bad("compose", "top_angles_compose fails on the implementation: r' U r^-1 is not Rotation_z(gamma) for the top-vertex angles of the real cal_helicity_angle at two choices of base axes",
                        {"structure": b.st["name"], "chain": cn, "decay/particle": key, "alpha,beta (z,x)": [float(a["alpha"][i]), float(a["beta"][i])],
                         "alpha,beta (z',x')": [float(a1["alpha"][i]), float(a1["beta"][i])], "W": c01_wigner.m8(W[i]), "U": c01_wigner.m8(U[i]),
                         "axes": [bz0[i].tolist(), bx0[i].tolist(), bz1[i].tolist(), bx1[i].tolist()], "event": [x[i].tolist() for x in p]})
                # (d) the real D-functions
                for j2 in (1, 2, 3, 4):
                    z = np.zeros(n)
                    D1 = np.asarray(dfun.D_matrix_conj(tf.constant(a1["alpha"]), tf.constant(a1["beta"]), tf.constant(z), j2))
                    D0 = np.asarray(dfun.D_matrix_conj(tf.constant(a["alpha"]), tf.constant(a["beta"]), tf.constant(z), j2))
                    DU = np.asarray(dfun.D_matrix_conj(tf.constant(e_ga), tf.constant(e_be), tf.constant(e_al), j2))
                    m = np.arange(-j2 / 2, j2 / 2 + 1, 1)
                    ph = np.exp(1j * m[None, :] * g[:, None])
                    pred = (DU @ D0) * ph[:, None, :]
                    e = np.where(ill, 0.0, np.max(np.abs(D1 - pred), axis=(1, 2)))
                    stat["D"] = max(stat["D"], float(e.max()))
                    stat["n_D"] += n
                    kbad = np.where(e > TOL)[0]
                    if len(kbad):
                        i = int(kbad[0])
                        bad("D", "top_D_compose fails on the implementation: D_matrix_conj(alpha', beta', 0) != D(euler(mirror U)) D_matrix_conj(alpha, beta, 0) diag(exp(i m gamma))",
                            {"structure": b.st["name"], "chain": cn, "decay/particle": key, "2j": j2, "max_abs_diff": float(e[i]), "gamma": float(g[i]),
                             "euler(mirror U) alpha,beta,gamma": [float(e_al[i]), float(e_be[i]), float(e_ga[i])]})
                # (a) model queries at explicit axes
                for i in range(n):
                    for (bz, bx, aa) in ((bz0, bx0, a), (bz1, bx1, a1)):
                        lines.append("C01h getx %s %s %s" % (fl(bz[i]), fl(bx[i]), fl(aa["rest_p"][i][1:])))
                        plan.append((b.st["name"], cn, key, float(aa["alpha"][i]), float(aa["beta"][i]), bool(ill[i])))
            # --- (g) Props/C01j.top_gammas_opposite (PROVED on the model): the two daughters of the top vertex turn the opposite way,
            # Rotation_z(gamma_1) Rotation_z(gamma_2) = +1 EXACTLY in SU(2) (no sign: that is what the biases -pi / -2pi are for)
            if len(gam) == 2:
                (g1, i1), (g2, i2) = list(gam.values())
                P12 = rot_z(g1) @ rot_z(g2)
                I2 = np.eye(2)
                e12 = np.where(i1 | i2, 0.0, np.max(np.abs(P12 - I2), axis=(1, 2)))
                stat["gamma12"] = max(stat["gamma12"], float(e12.max()))
                stat["n_gamma12"] += n
                kb3 = np.where(e12 > TOL)[0]
                if len(kb3):
                    i = int(kb3[0])
                    bad("gamma12", "top_gammas_opposite fails on the implementation: Rotation_z(gamma_1) Rotation_z(gamma_2) of the two daughters of the top vertex is not +1",
                        {"structure": b.st["name"], "chain": cn, "gamma_1": float(g1[i]), "gamma_2": float(g2[i])})
            # --- (h) Props/C01j.vertex_second_daughter_exact (PROVED on the model): at EVERY vertex, for both choices of axes, the stored
            # angles of outs[1] are (alpha_1 - pi, pi - beta_1) as real numbers (not mod 2 pi)
            for ee in (e0, e1):
                bydec = {}
                for key, a in ee.items():
                    bydec.setdefault(key[0], []).append(a)
                for dname, pair in bydec.items():
                    if len(pair) != 2:
                        continue
                    a_1, a_2 = pair
                    edge = (np.abs(np.sin(a_1["beta"])) < 1e-4) | (np.abs(a_1["alpha"]) > np.pi - 1e-6)
                    stat["skipped_ill"] += int(edge.sum())
                    e2 = np.where(edge, 0.0, np.maximum(np.abs(a_2["alpha"] - (a_1["alpha"] - np.pi)), np.abs(a_2["beta"] - (np.pi - a_1["beta"]))))
                    stat["second"] = max(stat["second"], float(e2.max()))
                    stat["n_second"] += n
                    kb4 = np.where(e2 > TOL)[0]
                    if len(kb4):
                        i = int(kb4[0])
                        bad("second", "vertex_second_daughter_exact fails on the implementation: the stored angles of outs[1] are not (alpha_1 - pi, pi - beta_1)",
                            {"structure": b.st["name"], "chain": cn, "decay": dname, "alpha_1,beta_1": [float(a_1["alpha"][i]), float(a_1["beta"][i])],
                             "alpha_2,beta_2": [float(a_2["alpha"][i]), float(a_2["beta"][i])]})
            # --- below the top vertex
            turns = {}
            for key, a in e0.items():
                if a["depth"] == 0:
                    continue
                a1 = e1[key]
                ill = np.abs(np.sin(a["beta"])) < 1e-4
                e_b = np.abs(a1["beta"] - a["beta"])
                if a["depth"] == 1:
                    g, illm = gam[a["mother"][1]]
                    e_a = np.where(ill | illm, 0.0, np.abs(wrap(a1["alpha"] - a["alpha"] + g)))
                    stat["level2"] = max(stat["level2"], float(e_b.max()), float(e_a.max()))
                    stat["n_level2"] += 2 * n
                    what = "below_top_azimuth_shift fails on the implementation: one level below the top vertex the azimuth is not lowered by the gamma of the top vertex (or the polar angle changes) when the base axes change"
                    # (f) C01i.vertex_phase_element / vertex_phase_other_sheet on the REAL D_matrix_conj: row m of the level-2
                    # D-function is multiplied by exp(-i m gamma), times (-1)^(2j) when Rotation_z(alpha') is on the other sheet
                    nturn = np.rint((a1["alpha"] - a["alpha"] + g) / (2 * math.pi))
                    turns[key] = (nturn, ill | illm)
                    rz_err = np.max(np.abs(rot_z(a1["alpha"]) - ((-1.0) ** nturn)[:, None, None] * (rot_z(a["alpha"]) @ rot_z(-g))), axis=(1, 2))
                    for j2 in (1, 2, 3, 4):
                        z = np.zeros(n)
                        D1 = np.asarray(dfun.D_matrix_conj(tf.constant(a1["alpha"]), tf.constant(a1["beta"]), tf.constant(z), j2))
                        D0 = np.asarray(dfun.D_matrix_conj(tf.constant(a["alpha"]), tf.constant(a["beta"]), tf.constant(z), j2))
                        m = np.arange(-j2 / 2, j2 / 2 + 1, 1)
                        sgn = (-1.0) ** (j2 * nturn)
                        pred = sgn[:, None, None] * np.exp(-1j * m[None, :, None] * g[:, None, None]) * D0
                        e2 = np.where(ill | illm, 0.0, np.maximum(np.max(np.abs(D1 - pred), axis=(1, 2)), rz_err))
                        stat["vphase"] = max(stat["vphase"], float(e2.max()))
                        stat["n_vphase"] += n
                        stat["n_other_sheet"] += int(np.sum((nturn % 2 != 0) & ~(ill | illm))) if j2 == 1 else 0
                        kb2 = np.where(e2 > TOL)[0]
                        if len(kb2):
                            i = int(kb2[0])
                            bad("vphase", "vertex_phase_element / vertex_phase_other_sheet fails on the implementation: the level-2 D_matrix_conj row m is not (+-1)^(2j) exp(-i m gamma) times the one computed with the first axes",
                                {"structure": b.st["name"], "chain": cn, "decay/particle": key, "2j": j2, "max_abs_diff": float(e2[i]), "gamma": float(g[i]),
                                 "alpha (z,x)": float(a["alpha"][i]), "alpha (z',x')": float(a1["alpha"][i]), "turns": float(nturn[i])})
                else:
                    e_a = np.where(ill, 0.0, np.abs(wrap(a1["alpha"] - a["alpha"])))
                    stat["deeper"] = max(stat["deeper"], float(e_b.max()), float(e_a.max()))
                    stat["n_deeper"] += 2 * n
                    what = "below_top_azimuth_shift fails on the implementation: an angle two or more levels below the top vertex depends on the base axes"
                stat["skipped_ill"] += int(ill.sum())
                kbad = np.where((e_b > TOL) | (e_a > TOL))[0]
                if len(kbad):
                    i = int(kbad[0])
                    bad("below", what, {"structure": b.st["name"], "chain": cn, "decay/particle": key, "depth": a["depth"],
                                        "alpha,beta (z,x)": [float(a["alpha"][i]), float(a["beta"][i])], "alpha,beta (z',x')": [float(a1["alpha"][i]), float(a1["beta"][i])],
                                        "gamma(mother)": float(gam[a["mother"][1]][0][i]) if a["depth"] == 1 else None,
                                        "axes": [bz0[i].tolist(), bx0[i].tolist(), bz1[i].tolist(), bx1[i].tolist()], "event": [x[i].tolist() for x in p]})
            # --- (e) r_matrix of the final particles (validated only)
            for nm in r0:
                M = r1[nm] @ U @ np.linalg.inv(r0[nm])
                if pd[nm] == 0:
                    g, ill = gam[nm]
                    e = np.where(ill, 0.0, np.max(np.abs(M - rot_z(g)), axis=(1, 2)))
                else:
                    I = np.eye(2)
                    e = np.minimum(np.max(np.abs(M - I), axis=(1, 2)), np.max(np.abs(M + I), axis=(1, 2)))
                    # the azimuth one level below the top is ill-conditioned when that direction is along the mother's axis
                    illd = np.zeros(n, dtype=bool)
                    for key, a in e0.items():
                        illd |= np.abs(np.sin(a["beta"])) < 1e-4
                        illd |= np.abs(np.sin(e1[key]["beta"])) < 1e-4
                    e = np.where(illd, 0.0, e)
                    # Props/C01j.routes_carry_vertex_sheet: the sign IS the sheet of the level-2 azimuth the route passes through
                    # (outs[0] or outs[1] of the daughter of the top particle: the same sheet for both)
                    k2 = [k_ for k_ in e0 if k_[1] == nm]
                    if k2:
                        k_ = k2[0]
                        while e0[k_]["depth"] > 1:
                            k_ = e0[k_]["mother"]
                        if k_ in turns:
                            nt, ill2 = turns[k_]
                            es = np.where(illd | ill2, 0.0, np.max(np.abs(M - ((-1.0) ** nt)[:, None, None] * I), axis=(1, 2)))
                            stat["sheet"] = max(stat["sheet"], float(es.max()))
                            stat["n_sheet"] += n
                            kb5 = np.where(es > 1e-8)[0]
                            if len(kb5):
                                i = int(kb5[0])
                                bad("sheet", "routes_carry_vertex_sheet fails on the implementation: the sign of r_matrix' U r_matrix^-1 of a deeper final particle is not the sheet of the level-2 azimuth on its route",
                                    {"structure": b.st["name"], "chain": cn, "particle": nm, "level-2 decay/particle": k_, "turns": float(nt[i]), "M": c01_wigner.m8(M[i])})
                stat["rmatrix"] = max(stat["rmatrix"], float(e.max()))
                stat["n_r"] += n
                kbad = np.where(e > 1e-8)[0]
                if len(kbad):
                    i = int(kbad[0])
                    bad("rmatrix", "alignment_compose (validated only) fails on the implementation: r_matrix' U r_matrix^-1 of a final particle is not Rotation_z(gamma) (direct daughter of the top) / +-1 (deeper)",
                        {"structure": b.st["name"], "chain": cn, "particle": nm, "depth": pd[nm], "M": c01_wigner.m8(M[i])})
        # --- (e) the density with the two choices of axes through the library's own pipeline
        if c01.st_class(b).endswith("body"):
            try:
                dA, cA, dataA = density_with_axes(b, p, bz0, bx0)
                dB, cB, dataB = density_with_axes(b, p, bz1, bx1)
            except Exception as e:
                res.broke("correspondence axes: the density pipeline raised with explicit base axes on structure %s" % b.st["name"], "%s: %s" % (type(e).__name__, str(e)[:300]))
                continue
            if cA == 0 or cB == 0:
                res.broke("correspondence axes: config.data.cal_angle no longer goes through tf_pwa.cal_angle.cal_helicity_angle (the explicit base axes were not used)", {"structure": b.st["name"]})
                continue
            deg = np.zeros(n, dtype=bool)
            for data in (dataA, dataB):
                try:
                    flat = {str(k_): np.asarray(v_) for k_, v_ in flatten_dict_data({"decay": data["decay"]}).items()}
                    deg |= c01.degenerate_mask(b, {k_: v_.astype(float) for k_, v_ in flat.items() if v_.ndim == 1 and v_.shape[0] == n}, n)
                except Exception:
                    pass
            med = float(np.median(np.abs(dA)))
            floor = max(1e-3 * med, c01.ABS_FLOOR)
            e = np.abs(dA - dB) / np.maximum(np.maximum(np.abs(dA), np.abs(dB)), floor)
            tol = np.where(deg, c01.TOL_DEGENERATE, c01.TOL)
            stat["density"] = max(stat["density"], float(np.max(np.where(deg, 0.0, e))))
            stat["density_degenerate"] += int(deg.sum())
            stat["n_density"] += n
            stat["density_structures"].append(b.st["name"])
            kbad = np.where(~(e <= tol))[0]
            if len(kbad):
                i = int(kbad[0])
                bad("density", "AxesIndependent (validated only) fails on the implementation: the density of the real amplitude model depends on the base axes handed to cal_helicity_angle",
                    {"structure": b.st["name"], "density (z,x)": float(dA[i]), "density (z',x')": float(dB[i]), "rel_err": float(e[i]),
                     "axes": [bz0[i].tolist(), bx0[i].tolist(), bz1[i].tolist(), bx1[i].tolist()], "event": [x[i].tolist() for x in p]})
    if lines:
        out = ctx.model.query(lines)
        for line, (sn, cn, key, al, be, ill) in zip(out, plan):
            try:
                got = [C.h2f(s) for s in line.split()]
                ga, gb = got[0], got[1]
            except Exception:
                res.broke("correspondence axes: the Lean model AngleF answered %r to getx" % line[:80], {"structure": sn})
                break
            e = max(abs(gb - be), 0.0 if ill else abs(float(wrap(ga - al))))
            stat["getx"] = max(stat["getx"], e)
            if e > TOL:
                bad("getx", "the top-vertex angles of the real cal_helicity_angle at explicit base axes differ from angle_zx_z_getx of the Lean model",
                    {"structure": sn, "chain": cn, "decay/particle": key, "real alpha,beta": [al, be], "model alpha,beta": [ga, gb]})
    res.coverage["axes"] = {
        "structures": stat["structures"], "events_per_structure": n_ev, "events": stat["events"], "tolerance": TOL,
        "pairs_of_axes_with_frame_angle_above_0.01": stat["nontrivial"], "largest_frame_angle": stat["max_frame_angle"], "largest_gamma": stat["max_gamma"],
        "top_vertex_pairs_compared": stat["n_top"], "worst_offdiagonal_of_r'Ur^-1": stat["offdiag"], "worst_su2_lift_vs_lor": stat["lift"],
        "model_getx_queries": len(lines), "worst_getx_model_vs_real": stat["getx"],
        "level2_angles_compared": stat["n_level2"], "worst_level2": stat["level2"], "deeper_angles_compared": stat["n_deeper"], "worst_deeper": stat["deeper"],
        "worst_su2_lift_lean_construction_vs_scipy(up to sign)": stat["lift_lean"],
        "level2_D_matrices_compared(vertex_phase)": stat["n_vphase"], "worst_vertex_phase": stat["vphase"], "level2_vertices_on_the_other_sheet": stat["n_other_sheet"],
        "top_vertices_gamma1_gamma2_compared(top_gammas_opposite)": stat["n_gamma12"], "worst_Rz(gamma1)Rz(gamma2)_vs_+1": stat["gamma12"],
        "deeper_r_matrix_signs_compared(routes_carry_vertex_sheet)": stat["n_sheet"], "worst_sheet_sign": stat["sheet"],
        "vertices_second_daughter_compared(vertex_second_daughter_exact)": stat["n_second"], "worst_second_daughter_angles": stat["second"],
        "D_matrices_compared": stat["n_D"], "worst_D_compose": stat["D"], "r_matrices_compared(validated only)": stat["n_r"], "worst_r_matrix": stat["rmatrix"],
        "densities_compared(validated only)": stat["n_density"], "density_structures": stat["density_structures"], "worst_density_rel": stat["density"],
        "density_degenerate_events": stat["density_degenerate"], "ill_conditioned_skipped": stat["skipped_ill"],
    }
    for kind, (what, detail) in first_bad.items():
        res.broke("correspondence axes (%s): %s" % (kind, what), detail)
        if getattr(ctx, "hint", None) is None:
            ctx.hint = detail
    return stat["n_second"] + len(lines) + stat["n_top"] + stat["n_level2"] + stat["n_deeper"] + stat["n_D"] + stat["n_r"] + stat["n_density"]
