"""C06 (part b) — the remaining likelihood code paths: resolution_size > 1, the clip region, MixLogLikehoodFCN,
constr_frac / cfit_constr_frac, the legacy inject_mc model, Gaussian constraints through ConfigLoader.
Used by harness/c06.py (correspond / search / replay); everything random derives from ctx.seed."""
import contextlib
import math

import numpy as np

import common as C

EPS = 1e-6
TOL = 1e-10
STOL = 1e-9
PATHS = ("call", "nll_grad", "nll_grad_hessian")
_X = {}


def H():
    import c06
    return c06


def L(xs):
    xs = list(xs)
    return "%d %s" % (len(xs), " ".join(C.f2h(float(x)) for x in xs)) if xs else "0"


# --------------------------------------------------------------------------
# inputs the tree needs
# --------------------------------------------------------------------------

def wdata_class():
    """MixLogLikehoodFCN calls data.get_weight() and type(mcdata)(dict): the tree's own dict subclass CalAngleData
    (what ConfigLoader's cal_angle returns) offers both"""
    from tf_pwa.cal_angle import CalAngleData
    return CalAngleData


def frac_toy_class():
    """toy PDF |A_const + A_lin|^2 = f0 a^2 (1 + b x)^2 whose components can be switched like resonances"""
    if "frac" in _X:
        return _X["frac"]
    Toy = H().toy_class()

    class ToyFrac(Toy):
        used = ("const", "lin")

        def pdf(self, data):
            a = self.a()
            b = self.b()
            c0 = 1.0 if "const" in self.used else 0.0
            c1 = 1.0 if "lin" in self.used else 0.0
            return data["f0"] * (a * a) * (c0 + c1 * b * data["x"]) ** 2

        @contextlib.contextmanager
        def temp_used_res(self, res):
            old = self.used
            self.used = tuple([res] if isinstance(res, str) else res)
            try:
                yield
            finally:
                self.used = old

    _X["frac"] = ToyFrac
    return ToyFrac


def new_frac_amp(params):
    from tf_pwa.variable import VarsManager
    amp = frac_toy_class()(vm=VarsManager())
    amp.set_params(dict(params))
    return amp


# --------------------------------------------------------------------------
# numpy oracles (independent of the Lean model): the property's formula, written with reshape
# --------------------------------------------------------------------------

def clipv(x):
    return H().clip_log_np(x)


def gauss_np(cs):
    return sum((cs[i] - cs[i + 1]) ** 2 / (2 * cs[i + 2] ** 2) for i in range(0, len(cs), 3))


def res_oracle(W, f, v, g, R, ext, cs=()):
    """-alpha_R [ sum_G W_G c(S_G/W_G) - (sum W) int_f(I) ] + gauss ; returns value, scale, kappa, regular
    (regular: every weighted mean density above eps -> c = ln, the defining formula; else c = clip continuation)"""
    W, f, g = np.asarray(W, float), np.asarray(f, float), np.asarray(g, float)
    v = np.ones(len(g)) if v is None else np.asarray(v, float)
    WG = W.reshape(-1, R).sum(1)
    SG = (W * f).reshape(-1, R).sum(1)
    AG = np.abs(W).reshape(-1, R).sum(1)
    ASG = np.abs(W * f).reshape(-1, R).sum(1)
    alpha = WG.sum() / (WG ** 2).sum()
    nz = WG != 0
    with np.errstate(all="ignore"):
        mean = SG[nz] / WG[nz]
        regular = bool(np.all(mean > EPS))
        lg = np.log(mean) if regular else clipv(mean)
        kg = ASG[nz] / np.maximum(np.abs(SG[nz]), 1e-300) + AG[nz] / np.abs(WG[nz])
        I = (v * g).sum() / v.sum()
        nt = I if ext else (math.log(I) if I > 0 else float("nan"))
        val = -alpha * ((WG[nz] * lg).sum() - WG.sum() * nt)
        kw = AG.sum() / max(abs(WG.sum()), 1e-300)
        kv = np.abs(v).sum() / max(abs(v.sum()), 1e-300)
        ki = np.abs(v * g).sum() / max(abs((v * g).sum()), 1e-300)
        scale = abs(alpha) * ((np.abs(WG[nz]) * (np.abs(lg) + kg + 2)).sum() + abs(WG.sum()) * (abs(nt) * (ki * kv if ext else 1) + ki * kv))
    g0 = gauss_np(list(cs))
    return float(val + g0), float(scale * (1 + kw) + abs(g0) + 1e-300), float(kw * ki * kv * (kg.max() if len(kg) else 1)), regular and I > EPS


# --------------------------------------------------------------------------
# generators
# --------------------------------------------------------------------------

def _rows(rng, ne, R, wmode, fmode, zero_group=False):
    n = ne * R
    d = {"x": rng.uniform(-1, 1, n), "f0": rng.uniform(0.05, 3.0, n)}
    if fmode == "small":
        d["f0"] = rng.uniform(2e-5, 1e-3, n)
    if fmode == "clip" and ne > 0:
        k = max(1, ne // 4)
        for e in rng.choice(ne, size=k, replace=False):
            d["f0"][e * R:(e + 1) * R] = rng.choice([0.0, 1e-9, 3e-7, 9.9e-7, 1e-6, 1.01e-6, 2e-6, -1e-7], size=R)
    if wmode != "none":
        ev = rng.uniform(0.3, 2.0, ne)
        if wmode == "signed":
            sg = np.where(rng.uniform(size=ne) < 0.25, -1.0, 1.0)
            if abs((ev * sg).sum()) < 0.3 * ev.sum():
                sg = np.ones(ne)
            ev = ev * sg
        w = np.repeat(ev, R) * rng.uniform(0.5, 1.5, n)
        if zero_group and R >= 2 and ne > 2:
            e = int(rng.integers(ne))
            w[e * R:(e + 1) * R] = 0.0
            w[e * R], w[e * R + 1] = 0.75, -0.75
        d["weight"] = w
    return d


def gen_res(rng, sizes, R=None, allow_clip=True, cap=10):
    R = int(rng.choice([2, 3, 5])) if R is None else R
    ne, nm = int(rng.choice(sizes)), int(rng.choice(sizes))
    nb = int(rng.choice([0, 0, 1, 2, 5]))
    wmode = str(rng.choice(["none", "pos", "signed"]))
    fmode = str(rng.choice(["normal", "normal", "small", "clip"] if allow_clip else ["normal", "normal", "small"]))
    data = _rows(rng, ne, R, wmode, fmode, zero_group=rng.uniform() < 0.3)
    mcw = str(rng.choice(["none", "pos"]))
    mc = _rows(rng, nm, 1, mcw, "normal")
    bg, wbkg = None, float(rng.choice([0.1, 0.25, 0.7]))
    if nb:
        bg = _rows(rng, nb, R, "none", "normal")
        if rng.uniform() < 0.5:
            bg["weight"] = -np.repeat(rng.uniform(0.05, 0.5, nb), R) * rng.uniform(0.5, 1.5, nb * R)
    wd = data.get("weight", np.ones(ne * R))
    for _ in range(8):
        wb = np.zeros(0) if bg is None else bg.get("weight", -wbkg * np.ones(nb * R))
        if abs(wd.sum() + wb.sum()) >= 0.2 * (np.abs(wd).sum() + np.abs(wb).sum()):
            break
        wbkg *= 0.3
        if bg is not None and "weight" in bg:
            bg["weight"] = bg["weight"] * 0.3
    nev = ne + nb
    cands = sorted({1, 2, max(1, nev - 1), nev, 2 * nev, nev // 3 + 1})
    cands = [k for k in cands if -(-nev // k) + -(-nm // (k * R)) <= cap] or [nev]
    gauss = {}
    if rng.uniform() < 0.3:
        gauss["toy_a"] = [float(rng.uniform(0.5, 1.5)), float(rng.uniform(0.05, 0.5))]
    return {"R": R, "ext": bool(rng.uniform() < 0.3), "wbkg": wbkg, "batch": int(rng.choice(cands)) * R,
            "params": {"toy_a": float(rng.uniform(0.6, 1.8)), "toy_b": float(rng.uniform(-0.8, 0.8))}, "gauss": gauss,
            "data": H()._tolist(data), "mc": H()._tolist(mc), "bg": H()._tolist(bg)}


def raw_weights(spec):
    """raw weights data ++ background as the property states them (from the case, not from the implementation)"""
    d, bg = spec["data"], spec["bg"]
    w = list(d["weight"]) if "weight" in d else [1.0] * len(d["x"])
    if bg is None:
        return w, []
    return w, (list(bg["weight"]) if "weight" in bg else [-spec["wbkg"]] * len(bg["x"]))


def build_res(spec, amp=None, batch=None, wrap=None):
    from tf_pwa.model.model import FCN, Model
    h = H()
    if amp is None:
        amp = h.new_toy_amp(spec["params"])
    else:
        amp.set_params(spec["params"])
    model = Model(amp, spec["wbkg"], resolution_size=spec["R"], extended=spec["ext"])
    gc = {k: tuple(v) for k, v in spec["gauss"].items()}
    with h.quiet():
        fcn = FCN(model, h._toarr(spec["data"]), h._toarr(spec["mc"]), bg=h._toarr(spec["bg"]),
                  batch=spec["batch"] if batch is None else batch, gauss_constr=gc)
    return amp, model, fcn


def observe_res(spec, amp, fcn):
    w, bgw = raw_weights(spec)
    f = np.array(amp(fcn.data))
    g = np.array(amp(fcn.mcdata))
    v = spec["mc"].get("weight")
    cs = []
    vals = fcn.get_params()
    for k, (mean, sigma) in spec["gauss"].items():
        cs += [float(vals[k]), float(mean), float(sigma)]
    return {"w": w, "bgw": bgw, "f": f, "g": g, "v": None if v is None else np.array(v), "cs": cs,
            "R": spec["R"], "ext": spec["ext"], "batch": int(fcn.batch)}


def res_line(o):
    return "C06 res %d %d %d %s %s %s %s %s %s" % (1 if o["ext"] else 0, o["R"], o["batch"], L(o["w"]), L(o["bgw"]), L(o["f"]),
                                                  L([] if o["v"] is None else o["v"]), L(o["g"]), L(o["cs"]))


def oracle_of(o):
    return res_oracle(np.array(list(o["w"]) + list(o["bgw"])), o["f"], o["v"], o["g"], o["R"], o["ext"], o["cs"])


# ---- mix -------------------------------------------------------------------------------------------------

def gen_mix(rng, sizes):
    K = int(rng.choice([1, 2, 2, 3]))
    R = int(rng.choice([1, 1, 2, 5]))  # (the inner FCNs are built with the default batch 65000: R must divide it)
    params = {"toy_a": float(rng.uniform(0.6, 1.8)), "toy_b": float(rng.uniform(-0.8, 0.8))}
    parts = []
    for _ in range(K):
        s = gen_res(rng, sizes, R=R, allow_clip=False)
        s["params"], s["gauss"] = params, {}
        parts.append(s)
    nev = sum(len(s["data"]["x"]) + (len(s["bg"]["x"]) if s["bg"] else 0) for s in parts) // R
    k = int(rng.choice(sorted({1, 2, max(1, nev - 1), nev, nev // 2 + 1})))
    if nev // k > 12:
        k = nev // 6 + 1
    gauss = {"toy_b": [float(rng.uniform(-0.5, 0.5)), float(rng.uniform(0.05, 0.5))]} if rng.uniform() < 0.5 else {}
    return {"R": R, "batch": k * R, "params": params, "gauss": gauss, "parts": parts}


def build_mix(spec):
    from tf_pwa.model.model import MixLogLikehoodFCN, Model
    h, WD = H(), wdata_class()
    amp = h.new_toy_amp(spec["params"])
    models = [Model(amp, s["wbkg"], resolution_size=spec["R"], extended=s["ext"]) for s in spec["parts"]]
    wrap = lambda d: None if d is None else WD(h._toarr(d))
    with h.quiet():
        mix = MixLogLikehoodFCN(models, [wrap(s["data"]) for s in spec["parts"]], [wrap(s["mc"]) for s in spec["parts"]],
                                bg=[wrap(s["bg"]) for s in spec["parts"]], batch=spec["batch"],
                                gauss_constr={k: tuple(v) for k, v in spec["gauss"].items()})
    return amp, mix


def observe_mix(spec, amp, mix):
    obs = []
    for s, fcn in zip(spec["parts"], mix.fcns):
        o = observe_res(dict(s, gauss={}), amp, fcn)
        o["batch"] = spec["batch"]
        obs.append(o)
    cs = []
    for k, (mean, sigma) in spec["gauss"].items():
        cs += [spec["params"][k], mean, sigma]
    return obs, cs


def mix_line(spec, obs, cs):
    body = " ".join("%s %s %s %s %s %s" % (L([1.0 if o["ext"] else 0.0]), L(o["w"]), L(o["bgw"]), L(o["f"]),
                                          L([] if o["v"] is None else o["v"]), L(o["g"])) for o in obs)
    return "C06 mix %d %d %s %s" % (spec["R"], spec["batch"], body, L(cs))


def mix_oracle(obs, cs):
    val, scale, kappa, regular = gauss_np(cs), abs(gauss_np(cs)) + 1e-300, 0.0, True
    for o in obs:
        v, s, k, r = oracle_of(dict(o, cs=[]))
        val, scale, kappa, regular = val + v, scale + s, max(kappa, k), regular and r
    return val, scale, kappa, regular


# ---- constr_frac -----------------------------------------------------------------------------------------

def gen_cfrac(rng, sizes):
    h = H()
    cfit = bool(rng.uniform() < 0.4)
    nd, nm = int(rng.choice(sizes)), int(rng.choice(sizes))
    data = h._sample(rng, nd, str(rng.choice(["none", "pos", "signed"])), str(rng.choice(["normal", "small"])), True)
    mc = h._sample(rng, nm, str(rng.choice(["none", "pos"])), "normal", True)
    bg = None
    if not cfit and rng.uniform() < 0.4:
        bg = h._sample(rng, int(rng.choice([1, 2, 5])), "none", "normal", True)
    names = [["const"], ["lin"], ["const", "lin"]]
    k = int(rng.choice([0, 1, 1, 2, 3]))
    fr = {}
    for i in range(k):
        fr["c%d" % i] = {"res": names[i], "value": float(rng.uniform(0.1, 0.9)), "sigma": float(rng.uniform(0.02, 0.3))}
    wbkg = float(rng.choice([0.1, 0.25]))
    n = nd + (len(bg["x"]) if bg else 0)
    cands = [b for b in sorted({1, 3, max(1, n - 1), n, 2 * n, n // 3 + 1}) if -(-n // b) + -(-nm // b) <= 10] or [max(n, nm)]
    b = float(rng.uniform(-0.8, 0.8))
    return {"cfit": cfit, "fb": float(rng.choice([0.05, 0.2, 0.6])), "wbkg": wbkg, "batch": int(rng.choice(cands)),
            "params": {"toy_a": float(rng.uniform(0.6, 1.8)), "toy_b": b if abs(b) > 0.05 else 0.3}, "frac": fr,
            "gauss": {"toy_a": [1.0, 0.2]} if rng.uniform() < 0.3 else {},
            "data": h._tolist(data), "mc": h._tolist(mc), "bg": h._tolist(bg)}


def build_cfrac(spec, batch=None):
    from tf_pwa.model.model import FCN, get_nll_model
    import tf_pwa.model.custom  # noqa: F401
    h = H()
    amp = new_frac_amp(spec["params"])
    cf = {k: dict(v) for k, v in spec["frac"].items()}
    if spec["cfit"]:
        model = get_nll_model("cfit_constr_frac")(amp, w_bkg=spec["wbkg"], constr_frac=cf, bg_frac=spec["fb"])
    else:
        model = get_nll_model("constr_frac")(amp, w_bkg=spec["wbkg"], constr_frac=cf)
    with h.quiet():
        fcn = FCN(model, h._toarr(spec["data"]), h._toarr(spec["mc"]), bg=h._toarr(spec["bg"]),
                  batch=spec["batch"] if batch is None else batch, gauss_constr={k: tuple(v) for k, v in spec["gauss"].items()})
    return amp, fcn


def observe_cfrac(spec, amp, fcn, partial=None):
    w, bgw = raw_weights(spec)
    f = np.array(amp(fcn.data))
    g = np.array(amp(fcn.mcdata))
    gis = []
    for k, c in spec["frac"].items():
        if partial is not None:
            gis.append(partial(c))
        else:
            with amp.temp_used_res(c["res"]):
                gis.append(np.array(amp(fcn.mcdata)))
    n, nm = len(f), len(g)
    col = lambda d, key, m: np.ones(m) if d.get(key, None) is None else np.array(d[key], dtype="float64")
    v = spec["mc"].get("weight")
    cs = []
    vals = fcn.get_params()
    for k, (mean, sigma) in spec["gauss"].items():
        cs += [float(vals[k]), float(mean), float(sigma)]
    return {"cfit": spec["cfit"], "fb": spec["fb"], "W": np.array(w + bgw), "f": f, "g": g, "gis": gis,
            "eff": col(fcn.data, "eff_value", n), "b": col(fcn.data, "bg_value", n), "meff": col(fcn.mcdata, "eff_value", nm),
            "mb": col(fcn.mcdata, "bg_value", nm), "v": None if v is None else np.array(v), "cs": cs,
            "vs": [x for c in spec["frac"].values() for x in (c["value"], c["sigma"])], "batch": int(fcn.batch)}


def cfrac_line(o):
    f = o["f"] * o["eff"] if o["cfit"] else o["f"]
    g = o["g"] * o["meff"] if o["cfit"] else o["g"]
    return "C06 cfrac %d %d %s %s %s %s %s %s %s %s %s %s" % (
        1 if o["cfit"] else 0, o["batch"], L([o["fb"]]), L(o["W"]), L(f), L(o["b"]), L([] if o["v"] is None else o["v"]), L(g),
        L(o["mb"]), L(o["vs"]), L(o["cs"]), " ".join(L(x) for x in o["gis"]))


def cfrac_oracle(o):
    W, f, g = o["W"], o["f"], o["g"]
    v = np.ones(len(g)) if o["v"] is None else o["v"]
    v = v / v.sum()
    w = W * (W.sum() / (W * W).sum())
    kw = np.abs(W).sum() / max(abs(W.sum()), 1e-300)
    with np.errstate(all="ignore"):
        if o["cfit"]:
            i0, ib = (v * g * o["meff"]).sum(), (v * o["mb"]).sum()
            p = (1 - o["fb"]) * f * o["eff"] / i0 + o["fb"] * o["b"] / ib
            val = -(w * np.log(p)).sum()
            scale = (np.abs(w) * (np.abs(np.log(p)) + 2)).sum()
            regular = bool(np.all(p > 0)) and i0 > 0 and ib > 0
        else:
            i0 = (v * g).sum()
            val = -(w * np.log(f)).sum() + w.sum() * math.log(i0)
            scale = (np.abs(w) * (np.abs(np.log(f)) + abs(math.log(i0)) + 2)).sum()
            regular = bool(np.all(f > 0)) and i0 > 0
        for gi, (mu, sg) in zip(o["gis"], zip(o["vs"][0::2], o["vs"][1::2])):
            t = 0.5 * (((v * gi).sum() / i0 - mu) / sg) ** 2
            val += t
            scale += abs(t) + (abs((v * gi).sum() / i0) + abs(mu)) ** 2 / sg ** 2
    g0 = gauss_np(o["cs"])
    return float(val + g0), float(scale * (1 + kw) + abs(g0) + 1e-300), float(kw), regular


# ---- inject_mc -------------------------------------------------------------------------------------------

def gen_inj(rng, sizes):
    h = H()
    nd, nm = int(rng.choice(sizes)), int(rng.choice(sizes))
    nb, ni = int(rng.choice([0, 1, 3])), int(rng.choice([0, 2, 5]))
    data = h._sample(rng, nd, str(rng.choice(["none", "pos"])), str(rng.choice(["normal", "small", "clip"])), False)
    mc = h._sample(rng, nm, str(rng.choice(["none", "pos"])), "normal", False)
    n = nd + nb + ni
    cands = [b for b in sorted({1, 3, max(1, n - 1), n, 2 * n}) if -(-n // b) + -(-nm // b) <= 10] or [max(n, nm)]
    wbkg = float(rng.choice([0.05, 0.2]))
    if nb * wbkg > 0.5 * nd:
        wbkg = 0.1 * nd / nb
    return {"wbkg": wbkg, "wmc": float(rng.choice([0.0, 0.1, 0.4])), "batch": int(rng.choice(cands)),
            "params": {"toy_a": float(rng.uniform(0.6, 1.8)), "toy_b": float(rng.uniform(-0.8, 0.8))},
            "gauss": {"toy_a": [1.0, 0.2]} if rng.uniform() < 0.3 else {},
            "data": h._tolist(data), "mc": h._tolist(mc),
            "bg": h._tolist(h._sample(rng, nb, "none", "normal", False)) if nb else None,
            "inmc": h._tolist(h._sample(rng, ni, "none", "normal", False)) if ni else None}


def build_inj(spec, batch=None):
    from tf_pwa.model.model import FCN, Model_new
    h = H()
    amp = h.new_toy_amp(spec["params"])
    model = Model_new(amp, spec["wbkg"], w_inmc=spec["wmc"])
    with h.quiet():
        fcn = FCN(model, h._toarr(spec["data"]), h._toarr(spec["mc"]), bg=h._toarr(spec["bg"]), inmc=h._toarr(spec["inmc"]),
                  batch=spec["batch"] if batch is None else batch, gauss_constr={k: tuple(v) for k, v in spec["gauss"].items()})
    return amp, fcn


def observe_inj(spec, amp, fcn):
    v = spec["mc"].get("weight")
    cs = []
    vals = fcn.get_params()
    for k, (mean, sigma) in spec["gauss"].items():
        cs += [float(vals[k]), float(mean), float(sigma)]
    return {"nd": len(spec["data"]["x"]), "nb": len(spec["bg"]["x"]) if spec["bg"] else 0,
            "ni": len(spec["inmc"]["x"]) if spec["inmc"] else 0, "wbkg": spec["wbkg"], "wmc": spec["wmc"],
            "f": np.array(amp(fcn.data)), "g": np.array(amp(fcn.mcdata)), "v": None if v is None else np.array(v), "cs": cs,
            "batch": int(fcn.batch)}


def inj_line(o):
    return "C06 inj %d %d %d %d %s %s %s %s %s" % (o["batch"], o["nd"], o["nb"], o["ni"], L([o["wbkg"], o["wmc"]]), L(o["f"]),
                                                  L([] if o["v"] is None else o["v"]), L(o["g"]), L(o["cs"]))


def inj_oracle(o):
    nd, nb, ni = o["nd"], o["nb"], o["ni"]
    W = np.concatenate([np.ones(nd), -o["wbkg"] * np.ones(nb), (o["wmc"] * nd / ni) * np.ones(ni) if ni else np.zeros(0)])
    w = W * (W.sum() / (W * W).sum())
    v = np.ones(len(o["g"])) if o["v"] is None else o["v"]
    I = (v * o["g"]).sum() / v.sum()
    y = (o["f"] / I + o["wmc"]) / (1 + o["wmc"])
    cl = clipv(y)
    g0 = gauss_np(o["cs"])
    kw = np.abs(W).sum() / abs(W.sum())
    return float(-(w * cl).sum() + g0), float((np.abs(w) * (np.abs(cl) + 2)).sum() * (1 + kw) + abs(g0) + 1e-300), float(kw), True


# --------------------------------------------------------------------------
# real AmplitudeModel through ConfigLoader: resolution_size, gauss_constr (3 config routes), constr_frac, inmc
# --------------------------------------------------------------------------

GAUSS_TOP = {"constrains": {"gauss_constr": {"R_BD_width": [0.31, 0.02]}}}
REAL_EXT = {
    "res2": {"data": {"resolution_size": 2}, "R": 2},
    "res3_extended": {"data": {"resolution_size": 3, "extended": True}, "R": 3, "ext": True},
    "gauss_constr": {"data": {}, "top": GAUSS_TOP,
                     "particle": {"R_BC": {"gauss_constr": {"m": 0.05}}, "R_BD": {"m0_sigma": 0.04, "m0_constr": True}},
                     # what the harness configured: name -> (mean, sigma)
                     "expect": {"R_BD_width": (0.31, 0.02), "R_BC_mass": (4.16, 0.05), "R_BD_mass": (2.43, 0.04)},
                     "shift": {"R_BC_mass": 4.19, "R_BD_mass": 2.40, "R_BD_width": 0.33}},
    "gauss_constr_cfit": {"data": {"model": "cfit", "bg_frac": 0.2}, "top": GAUSS_TOP, "kind": "cfit",
                          "expect": {"R_BD_width": (0.31, 0.02)}, "shift": {"R_BD_width": 0.28}},
    "constr_frac": {"data": {"model": "constr_frac"}, "kind": "constr_frac",
                    "top": {"nll_model": {"constr_frac": {"R_BC": {"res": ["R_BC"], "value": 0.4, "sigma": 0.1}}}},
                    "frac": {"R_BC": {"res": ["R_BC"], "value": 0.4, "sigma": 0.1}}},
    "inject_mc": {"data": {"inmc": ["-"], "inject_ratio": 0.15}, "kind": "inj", "wmc": 0.15},
    "mix_likelihood": {"data": {"using_mix_likelihood": True}, "kind": "mix"},
    # simultaneous fit of two data sets with configured constraints, the constrained parameters ~2 sigma off centre:
    # ConfigLoader.get_fcn gives the same gauss_constr to both sub-FCNs and to the CombineFCN; the term counts once
    "simfit_gauss": {"data": {}, "top": GAUSS_TOP, "kind": "simfit",
                     "particle": {"R_BC": {"gauss_constr": {"m": 0.05}}},
                     "expect": {"R_BD_width": (0.31, 0.02), "R_BC_mass": (4.16, 0.05)},
                     "shift": {"R_BD_width": 0.35, "R_BC_mass": 4.06}},
}


def real_ext_one(gen):
    """one real-amplitude case; returns (label, kind, observation, impl values)"""
    from tf_pwa.config_loader import ConfigLoader
    h = H()
    name = gen["name"]
    ext = REAL_EXT[name]
    rng = np.random.Generator(np.random.Philox(gen["key"]))
    R = ext.get("R", 1)
    wbkg = 0.3
    cfg = h.real_config(dict(ext["data"]), wbkg)
    for p, extra in ext.get("particle", {}).items():
        cfg["particle"][p].update(extra)
    cfg.update(ext.get("top", {}))
    with h.quiet():
        config = ConfigLoader(cfg)
        amp = config.get_amplitude()

        def sample(ne, mode):
            n = ne * R
            d = config.data.cal_angle(h.three_body(rng, n))
            if mode != "none":
                d["weight"] = np.repeat(rng.uniform(0.3, 2.0, ne), R) * rng.uniform(0.5, 1.5, n)
            d["eff_value"] = rng.uniform(0.4, 1.0, n)
            d["bg_value"] = rng.uniform(0.5, 1.5, n)
            return d

        kind = ext.get("kind", "res")
        data, mc = sample(gen["nd"], gen["wmode"] if kind != "inj" else "none"), sample(gen["nm"], "pos")
        if R > 1:
            mc = dict(mc)
        bg = sample(gen["nb"], "none") if gen["nb"] and kind != "cfit" else None
        inmc = sample(gen["ni"], "none") if kind == "inj" else None
        names = sorted(set(amp.vm.trainable_vars) | {k for k in amp.get_params() if k.endswith("_total_0r")})
        amp.set_params({k: float(rng.uniform(0.3, 1.5)) for k in names})
        amp.set_params(ext.get("shift", {}))
        if kind in ("mix", "simfit"):
            datas, mcs, bgs = [data, sample(gen["nd"] + 2, "pos")], [mc, sample(max(2, gen["nm"] - 3), "none")], [bg, None]
            fcn = config.get_fcn([datas, mcs, bgs, None], batch=gen["batch"])
        else:
            fcn = config.get_fcn([[data], [mc], None if bg is None else [bg], None if inmc is None else [inmc]], batch=gen["batch"])
    h._KEEP.append((config, fcn, data, mc, bg, inmc))
    if kind in ("mix", "simfit"):
        label = "real %s [%s] K=2 n=%d+%d batch=%d" % (name, type(fcn).__name__, gen["nd"] + gen["nb"], gen["nd"] + 2, gen["batch"])
        vals = fcn.get_params()
        cs = []
        for k, (mean, sigma) in ext.get("expect", {}).items():
            cs += [float(vals[k]), mean, sigma]
        obs = []
        for d_, m_, b_, f_ in zip(datas, mcs, bgs, fcn.fcns):
            with h.quiet():
                obs.append({"w": list(np.array(d_["weight"])) if "weight" in d_ else [1.0] * len(d_["eff_value"]),
                            "bgw": [] if b_ is None else [-wbkg] * len(b_["eff_value"]), "f": np.array(amp(f_.data)), "g": np.array(amp(f_.mcdata)),
                            "v": np.array(m_["weight"]) if "weight" in m_ else None, "cs": [], "R": 1, "ext": False, "batch": gen["batch"]})
        o = {"parts": obs, "cs": cs, "R": 1, "batch": gen["batch"], "gen": gen}
        return label, kind, o, h.eval_fcn(fcn)
    label = "real %s [%s] n=%d nmc=%d batch=%d" % (name, type(fcn.model).__name__, len(data["eff_value"]), len(mc["eff_value"]), gen["batch"])
    w = list(np.array(data["weight"])) if "weight" in data else [1.0] * (gen["nd"] * R)
    bgw = [] if bg is None else [-wbkg] * (gen["nb"] * R)
    with h.quiet():
        f = np.array(amp(fcn.data))
        g = np.array(amp(fcn.mcdata))
    vals = fcn.get_params()
    cs = []
    for k, (mean, sigma) in ext.get("expect", {}).items():
        cs += [float(vals[k]), mean, sigma]
    col = lambda d, key: np.array(d[key], dtype="float64")
    if kind == "res":
        o = {"w": w, "bgw": bgw, "f": f, "g": g, "v": np.array(mc["weight"]), "cs": cs, "R": R, "ext": bool(ext.get("ext")), "batch": gen["batch"]}
    elif kind == "cfit":
        o = {"kind": "cfit", "ext": False, "batch": gen["batch"], "fb": 0.2, "w": w, "bgmode": 0, "nb": 0, "bgx": [], "f": f,
             "s": f * col(fcn.data, "eff_value"), "b": col(fcn.data, "bg_value"), "v": np.array(mc["weight"]), "g": g,
             "ms": g * col(fcn.mcdata, "eff_value"), "mb": col(fcn.mcdata, "bg_value"), "cs": cs, "eff_true": col(fcn.data, "eff_value")}
    elif kind == "constr_frac":
        spec = {"frac": ext["frac"], "gauss": {}, "cfit": False, "fb": 0.0, "wbkg": wbkg,
                "data": {"x": w, **({"weight": w} if "weight" in data else {})}, "bg": None if bg is None else {"x": bgw}, "mc": {"weight": list(np.array(mc["weight"]))}}
        with h.quiet():
            o = observe_cfrac(spec, amp, fcn)
    else:
        o = {"nd": gen["nd"], "nb": gen["nb"], "ni": gen["ni"], "wbkg": wbkg, "wmc": ext["wmc"], "f": f, "g": g,
             "v": np.array(mc["weight"]), "cs": cs, "batch": gen["batch"]}
    impl = h.eval_fcn(fcn)
    o["gen"] = gen
    return label, kind, o, impl


def real_ext_cases(ctx):
    rng = np.random.Generator(np.random.Philox(ctx.seed * 1000 + 6060))
    names = list(REAL_EXT)
    if ctx.quick:  # a seeded subset keeps the quick tier short: both resolution cases alternate, the cfit constraint case too
        drop = {["res2", "res3_extended"][ctx.seed % 2], ["gauss_constr_cfit", "inject_mc"][(ctx.seed // 2) % 2]}
        names = [n for n in names if n not in drop]
    out = []
    for rep in range(1 if ctx.quick else 3):
        for name in names:
            R = REAL_EXT[name].get("R", 1)
            nd, nm, nb = int(rng.choice([4, 6, 9])), int(rng.choice([11, 20])), int(rng.choice([0, 2, 3]))
            n = nd + (nb if REAL_EXT[name].get("kind") != "cfit" else 0)
            gen = {"name": name, "key": int(ctx.seed * 100000 + 6060 * 10 + len(out)), "nd": nd, "nm": nm, "nb": nb, "ni": 3,
                   "batch": int(rng.choice([2, n - 1, n, 2 * n])) * R, "wmode": str(rng.choice(["none", "pos"]))}
            out.append(real_ext_one(gen))
    return out


def line_of(kind, o):
    if kind == "mix":
        return mix_line(o, o["parts"], o["cs"])
    if kind == "simfit":
        return mix_line(o, o["parts"], o["cs"]).replace("C06 mix %d " % o["R"], "C06 simfit ", 1)
    if kind == "res":
        return res_line(o)
    if kind == "cfit":
        return H().lean_line(o)
    if kind == "constr_frac":
        return cfrac_line(o)
    return inj_line(o)


def oracle_any(kind, o):
    if kind in ("mix", "simfit"):
        return mix_oracle(o["parts"], o["cs"])
    if kind == "res":
        return oracle_of(o)
    if kind == "cfit":
        return H().formula(o)
    if kind == "constr_frac":
        return cfrac_oracle(o)
    return inj_oracle(o)


# --------------------------------------------------------------------------
# correspondence
# --------------------------------------------------------------------------

def _cmp(entries, out, res, what, stats):
    """entries: (label, impl, scale, kappa); out: model lines"""
    nbad, first = 0, None
    for (label, impl, scale, kappa), line in zip(entries, out):
        if line == "bad-op":
            res.broke("model driver bad-op (%s)" % what, label)
            return
        if not np.isfinite(scale) or kappa > 1e4:
            stats["skipped"] += 1
            continue
        mv = [C.h2f(x) for x in line.split()]
        for path, m in zip(PATHS, mv):
            iv = impl[path]
            if isinstance(iv, str):
                err = float("inf")
            elif not (np.isfinite(iv) and np.isfinite(m)):
                err = 0.0 if str(iv) == str(m) else float("inf")
            else:
                err = abs(iv - m) / scale
                stats["worst"] = max(stats["worst"], err)
            stats["compared"] += 1
            if not (err < TOL):
                nbad += 1
                first = first or {"case": label, "path": path, "impl": iv, "model": m, "rel_err": err, "scale": scale}
    if nbad:
        res.broke("correspondence NLLF vs tf_pwa.model (%s)" % what, {"n": nbad, "first": first})
        stats["disagreements"] += nbad


def correspond(ctx, res):
    h = H()
    q = ctx.quick
    rng = np.random.Generator(np.random.Philox(ctx.seed * 1000 + 61))
    stats = {"skipped": 0, "worst": 0.0, "compared": 0, "disagreements": 0}
    groups, lines = [], []
    sizes = [1, 2, 3, 5, 8, 13, 30] if q else [1, 2, 3, 5, 8, 13, 30, 80, 200]
    # (1)+(4) resolution_size > 1, clip region included
    ents, nclip, nzero = [], 0, 0
    for i in range(40 if q else 400):
        spec = gen_res(rng, sizes)
        amp, model, fcn = build_res(spec)
        o = observe_res(spec, amp, fcn)
        val, scale, kappa, regular = oracle_of(o)
        nclip += 0 if regular else 1
        W = np.array(o["w"] + o["bgw"]).reshape(-1, o["R"]).sum(1)
        nzero += int(np.any(W == 0))
        ents.append(("res#%d R=%d ext=%d n=%d batch=%d" % (i, o["R"], o["ext"], len(o["f"]), o["batch"]), h.eval_fcn(fcn), scale, kappa))
        lines.append(res_line(o))
    groups.append(("resolution_size>1 (toy AbsPDF)", ents))
    h.tlog("ext: %d resolution cases evaluated" % len(ents))
    # (2) MixLogLikehoodFCN
    ents = []
    for i in range(12 if q else 120):
        spec = gen_mix(rng, [1, 2, 3, 5, 8] if q else [1, 2, 3, 5, 8, 30])
        amp, mix = build_mix(spec)
        obs, cs = observe_mix(spec, amp, mix)
        val, scale, kappa, regular = mix_oracle(obs, cs)
        ents.append(("mix#%d K=%d R=%d batch=%d" % (i, len(obs), spec["R"], spec["batch"]), h.eval_fcn(mix), scale, kappa))
        lines.append(mix_line(spec, obs, cs))
    groups.append(("MixLogLikehoodFCN (toy AbsPDF)", ents))
    # (2) constr_frac / cfit_constr_frac
    ents = []
    for i in range(20 if q else 200):
        spec = gen_cfrac(rng, sizes[:6] if q else sizes)
        amp, fcn = build_cfrac(spec)
        o = observe_cfrac(spec, amp, fcn)
        val, scale, kappa, regular = cfrac_oracle(o)
        ents.append(("constr_frac#%d cfit=%d k=%d n=%d batch=%d" % (i, o["cfit"], len(o["gis"]), len(o["f"]), o["batch"]), h.eval_fcn(fcn), scale, kappa if regular else float("inf")))
        lines.append(cfrac_line(o))
    groups.append(("constr_frac / cfit_constr_frac (toy AbsPDF)", ents))
    # (2) inject_mc
    ents = []
    for i in range(10 if q else 100):
        spec = gen_inj(rng, sizes[:6] if q else sizes)
        amp, fcn = build_inj(spec)
        o = observe_inj(spec, amp, fcn)
        val, scale, kappa, regular = inj_oracle(o)
        ents.append(("inject_mc#%d n=%d batch=%d" % (i, len(o["f"]), o["batch"]), h.eval_fcn(fcn), scale, kappa))
        lines.append(inj_line(o))
    groups.append(("inject_mc Model_new (toy AbsPDF)", ents))
    h.tlog("ext: mix / constr_frac / inject_mc cases evaluated")
    # real AmplitudeModel through ConfigLoader
    real = real_ext_cases(ctx)
    _X["real"] = real
    ents = []
    for (label, kind, o, impl) in real:
        if kind == "cfit":
            scale, kappa = h.model_scale(o)
        else:
            _, scale, kappa, _ = oracle_any(kind, o)
        ents.append((label, impl, scale, kappa))
        lines.append(line_of(kind, o))
    groups.append(("real AmplitudeModel via ConfigLoader: resolution_size / gauss_constr / constr_frac / inmc", ents))
    h.tlog("ext: %d real-amplitude cases evaluated" % len(real))
    out = ctx.model.query(lines)
    pos = 0
    for what, ents in groups:
        _cmp(ents, out[pos:pos + len(ents)], res, what, stats)
        pos += len(ents)
    res.coverage["ext"] = {
        "rule": "seeded cases per added code path, each comparing FCN.__call__, nll_grad[0], nll_grad_hessian[0] with the Float instance (rel 1e-10 of the forward-error scale): resolution_size in {2,3,5} x weights none/positive/signed per event (+ events of total weight exactly 0) x bg none/default/own x batch = k*R x density normal/small/clip x extended; MixLogLikehoodFCN of 1..3 data sets (R in {1,2,5}); constr_frac and cfit_constr_frac with 0..3 constrained fractions; inject_mc; real AmplitudeModel through ConfigLoader with data.resolution_size, gauss_constr by all three configuration routes, model: constr_frac, inmc, using_mix_likelihood, and a simultaneous fit of two data sets with configured constraints 2 sigma off centre",
        "cases": {w: len(e) for w, e in groups},
        "resolution_cases_in_clip_region": nclip, "resolution_cases_with_zero_weight_event": nzero,
        "values_compared": stats["compared"], "ill_conditioned_skipped": stats["skipped"], "worst_rel_err": stats["worst"],
        "disagreements": stats["disagreements"], "real_cases": [r[0] for r in real],
    }
    return stats


# --------------------------------------------------------------------------
# search: the statement itself on the implementation (numpy oracle, batch variation)
# --------------------------------------------------------------------------

def _check(res, key, what, impl, val, scale, replay, paths=PATHS):
    bad = False
    for path in paths:
        iv = impl[path]
        e = float("inf") if isinstance(iv, str) or not np.isfinite(iv) else abs(iv - val) / scale
        if not (e < STOL):
            bad = True
            res.fail("%s:%s:%s" % (key[0], path, key[1]), "%s: %s = %r but the defining formula gives %r (rel %.3g)" % (what, path, iv, val, e),
                     dict(replay, path=path))
    return bad


def search(ctx, res):
    h = H()
    q = ctx.quick and not ctx.suspect
    rng = np.random.Generator(np.random.Philox(ctx.seed * 1000 + 662))
    st = {"resolution": 0, "resolution_clip": 0, "clip_r1": 0, "batch": 0, "mix": 0, "constr_frac": 0, "inject_mc": 0, "real": 0, "skipped": 0}
    sizes = [1, 2, 3, 5, 8, 13] if q else [1, 2, 3, 5, 8, 13, 40, 120]
    for i in range(12 if q else 60):
        spec = gen_res(rng, sizes, R=1 if i % 4 == 3 else None)
        amp, model, fcn = build_res(spec)
        o = observe_res(spec, amp, fcn)
        val, scale, kappa, regular = oracle_of(o)
        if not (np.isfinite(val) and kappa < 1e4):
            st["skipped"] += 1
            continue
        impl = h.eval_fcn(fcn)
        st["clip_r1" if (o["R"] == 1 and not regular) else "resolution" if regular else "resolution_clip"] += 1
        tag = "formula" if regular else "clipped"
        _check(res, ("resolution" if o["R"] > 1 else "default", tag),
               "Model(resolution_size=%d, extended=%s) n=%d batch=%d" % (o["R"], o["ext"], len(o["f"]), o["batch"]), impl, val, scale,
               {"op": "ext-res", "spec": spec})
        nev = len(o["f"]) // o["R"]
        for k in sorted({1, nev, nev // 2 + 1})[: 2 if q else 3]:
            if -(-nev // k) > 12:
                continue
            _, _, fb = build_res(spec, amp=amp, batch=k * o["R"])
            st["batch"] += 1
            _check(res, ("resolution" if o["R"] > 1 else "default", "batch"), "Model(resolution_size=%d) batch=%d" % (o["R"], k * o["R"]),
                   h.eval_fcn(fb), val, scale, {"op": "ext-res", "spec": dict(spec, batch=k * o["R"])})
    for i in range(5 if q else 30):
        spec = gen_mix(rng, [1, 2, 3, 5, 8])
        amp, mix = build_mix(spec)
        obs, cs = observe_mix(spec, amp, mix)
        val, scale, kappa, regular = mix_oracle(obs, cs)
        if not (np.isfinite(val) and kappa < 1e4):
            st["skipped"] += 1
            continue
        st["mix"] += 1
        _check(res, ("mix", "formula"), "MixLogLikehoodFCN K=%d R=%d batch=%d" % (len(obs), spec["R"], spec["batch"]), h.eval_fcn(mix), val, scale,
               {"op": "ext-mix", "spec": spec})
    for i in range(8 if q else 40):
        spec = gen_cfrac(rng, sizes[:5])
        amp, fcn = build_cfrac(spec)
        o = observe_cfrac(spec, amp, fcn)
        val, scale, kappa, regular = cfrac_oracle(o)
        if not (regular and np.isfinite(val) and kappa < 1e4):
            st["skipped"] += 1
            continue
        st["constr_frac"] += 1
        _check(res, ("cfit_constr_frac" if o["cfit"] else "constr_frac", "formula"), "constr_frac cfit=%s k=%d n=%d batch=%d" % (o["cfit"], len(o["gis"]), len(o["f"]), o["batch"]),
               h.eval_fcn(fcn), val, scale, {"op": "ext-cfrac", "spec": spec})
        if i % 2 == 0:
            n = len(o["f"])
            _, fb = build_cfrac(spec, batch=max(1, n // 2))
            _check(res, ("cfit_constr_frac" if o["cfit"] else "constr_frac", "batch"), "constr_frac batch=%d" % max(1, n // 2), h.eval_fcn(fb), val, scale,
                   {"op": "ext-cfrac", "spec": dict(spec, batch=max(1, n // 2))})
    for i in range(4 if q else 20):
        spec = gen_inj(rng, sizes[:5])
        amp, fcn = build_inj(spec)
        o = observe_inj(spec, amp, fcn)
        val, scale, kappa, regular = inj_oracle(o)
        st["inject_mc"] += 1
        _check(res, ("inject_mc", "formula"), "Model_new n=%d batch=%d" % (len(o["f"]), o["batch"]), h.eval_fcn(fcn), val, scale, {"op": "ext-inj", "spec": spec})
    real = _X.get("real")
    if real is None:
        real = real_ext_cases(ctx)
    for (label, kind, o, impl) in real:
        val, scale, kappa, regular = oracle_any(kind, o)
        if not (regular and np.isfinite(val) and kappa < 1e4):
            st["skipped"] += 1
            continue
        st["real"] += 1
        _check(res, (o["gen"]["name"], "formula"), label, impl, val, scale, {"op": "ext-real", "gen": o["gen"]})
    # observation (not a C06 violation): cfit_constr_frac takes the partial integrals without the efficiency
    res.notes.append("observation: cfit_constr_frac constrains (sum v A_c) / (sum v eff A): the partial integral carries no efficiency factor while the total does (modelled and proved as the code is; a constant rescaling of eff_value changes the reported NLL)")
    res.notes.append("observation: MixLogLikehoodFCN needs data objects with get_weight() and a dict-constructible type (CalAngleData, what cal_angle returns; plain dicts and LazyCall data raise); its inner FCNs are built with the default batch 65000, so nll_grad_hessian asserts when resolution_size does not divide 65000; ConfigLoader reads data.using_mix_likelihood while tests/config_toy3.yml sets use_mix_likelihood, so the suite never reaches it")
    res.coverage["ext_search"] = st
    h.tlog("ext search done")


def replay(ctx, r):
    h = H()
    op = r.get("op")
    if op == "ext-res":
        spec = r["spec"]
        amp, model, fcn = build_res(spec)
        o = observe_res(spec, amp, fcn)
        val, scale, kappa, regular = oracle_of(o)
    elif op == "ext-mix":
        spec = r["spec"]
        amp, fcn = build_mix(spec)
        obs, cs = observe_mix(spec, amp, fcn)
        val, scale, kappa, regular = mix_oracle(obs, cs)
    elif op == "ext-cfrac":
        spec = r["spec"]
        amp, fcn = build_cfrac(spec)
        val, scale, kappa, regular = cfrac_oracle(observe_cfrac(spec, amp, fcn))
    elif op == "ext-inj":
        spec = r["spec"]
        amp, fcn = build_inj(spec)
        val, scale, kappa, regular = inj_oracle(observe_inj(spec, amp, fcn))
    elif op == "ext-real":
        label, kind, o, impl = real_ext_one(r["gen"])
        val, scale, kappa, regular = oracle_any(kind, o)
        print("case:", label)
        print("implementation:", impl)
        print("defining formula (numpy):", val, "scale", scale)
        return 1 if any(isinstance(impl[p], str) or abs(impl[p] - val) / scale >= STOL for p in PATHS) else 0
    else:
        return None
    impl = h.eval_fcn(fcn)
    print("implementation:", impl)
    print("defining formula (numpy):", val, "scale", scale, "above-eps", regular)
    return 1 if any(isinstance(impl[p], str) or not abs(impl[p] - val) / scale < STOL for p in PATHS) else 0
