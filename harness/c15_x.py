"""C15, round 3: the rest of the particle-model registry (FlatteGen, Flatte2, LASS, MultiBW, Kmatrix,
KMatrixSingleChannel, KmatrixSimple, KMatrixSplitLS, the interpolation family) + the registry inventory.

Imported lazily by harness/c15.py (translate / make_cases / search).  Cases use the dict format of
c15.cases_for, so the correspondence and search loops of c15.py treat them like the round-1/2 models:
  impl  : values of the implementation (Particle.__call__ / get_amp / get_ls_amp of the CURRENT tree)
  lean  : line-protocol ops of the Lean Float instance (prefix C15x = templates/LineShapeX, C15i = templates/InterpAmp)
  spec  : numpy evaluation of the DOCSTRING (third implementation), variants = listed deviations with a stable key
"""
import math
import os
import pkgutil
import re
import shutil
import tempfile
from fractions import Fraction

import numpy as np

import common as C
import c15 as B

KEY_MBW = "MultiBW:running-width"
KEY_I3 = "interp1d3:stencil-shifted"
KEY_KSD = "KmatrixSimple:barrier-extra-d-power"
KEY_SPLITLS = "KMatrixSplitLS:differs-from-docstring"
KEY_HISTWB = "hist_idx:with_bound-index"
KEY_PCHIP = "sppchip:differs-from-pchip"

# --------------------------------------------------------------------------------------------
# registry inventory
# --------------------------------------------------------------------------------------------

MODELLED = {
    # rounds 1/2 (templates/LineShape.lean.in, Props/C15, C15b)
    "BW", "BWR", "default", "BWR2", "BWR_below", "BWR_normal", "BWR_coupling", "BWR_LS", "BWR_LS2", "MultiBWR", "GS_rho",
    "Flatte", "FlatteC", "one", "exp", "exp_com", "x",
    # round 3 (templates/LineShapeX.lean.in, templates/InterpAmp.lean.in, Props/C15c, C15d)
    "Flatte2", "FlatteGen", "LASS", "MultiBW", "Kmatrix", "KMatrixSingleChannel", "KmatrixSimple",
    # round 5 (templates/LineShapeE.lean.in, Props/C15e): the code of KMatrixSplitLS as it is (1-2 partial waves)
    "KMatrixSplitLS",
    "interp", "interp_c", "interp_hist", "hist_idx", "interp1d3", "interp_l3", "interp_lagrange", "linear_npy", "linear_txt",
    "spline_c", "spline_c_idx",
}
# documented, compared with an independent oracle in `search`, but NOT inside the Lean model
ORACLE_ONLY = {
    "sppchip": "shape-preserving PCHIP with data-dependent branches and a per-interval 4x4 np.linalg.inv; compared with scipy.interpolate.PchipInterpolator (the docstring's own reference) inside the node range only",
}
# registered, but no closed formula in the documentation
NO_FORMULA = {
    "Kpi_Swave": "port of AmpGen FOCUS.cpp; the docstring only links to the C++ source",
    "pipi_Swave": "port of AmpGen kMatrix.cpp with an external option file; the docstring only links to the C++ source",
}
# modelled although the class has no docstring: the specification is the K-matrix / stencil form read off the code
MODELLED_WITHOUT_DOC = {"Kmatrix": "no docstring; proved equal to the production-vector form (beta0 + sum beta_i m_i G_i/(m_i^2-m^2))/(1 - i(K+alpha)) + KNR",
                        "interp_l3": "no docstring; same stencil code as interp1d3 on interval mid points (correspondence only)",
                        "LASS": "formula in the docstring of get_amp"}


def registry():
    """Every particle model registered by the CURRENT tree: import every module of tf_pwa.amp, read the registry,
    and (second source) grep the package for register_particle / regist_particle / simple_resonance decorators."""
    import importlib
    import tf_pwa.amp as amp
    from tf_pwa.config import get_config
    failed = {}
    for mi in pkgutil.iter_modules(amp.__path__):
        if mi.name == "tests":
            continue
        try:
            importlib.import_module("tf_pwa.amp." + mi.name)
        except Exception as e:  # a module that does not import cannot register; its names still come from the grep
            failed[mi.name] = "%s: %s" % (type(e).__name__, str(e)[:100])
    reg = set(get_config("particle_model"))
    grep = set()
    root = os.path.join(C.REPO, "tf_pwa")
    for dp, dn, fn in os.walk(root):
        if "tests" in dp.split(os.sep):
            continue
        for f in fn:
            if f.endswith(".py"):
                try:
                    src = open(os.path.join(dp, f)).read()
                except OSError:
                    continue
                grep |= set(re.findall(r"@(?:register_particle|regist_particle|simple_resonance)\(\s*[\"']([^\"']+)[\"']", src))
    return reg, grep, failed


def inventory(res):
    reg, grep, failed = registry()
    names = reg | grep
    known = MODELLED | set(ORACLE_ONLY) | set(NO_FORMULA)
    unknown = sorted(names - known)
    gone = sorted(known - names)
    res.coverage["registry"] = {
        "registered": sorted(reg), "decorators_in_source": sorted(grep), "modules_failing_import": failed,
        "modelled": sorted(MODELLED & names), "oracle_only": {k: v for k, v in ORACLE_ONLY.items() if k in names},
        "no_documented_formula": {k: v for k, v in NO_FORMULA.items() if k in names}, "modelled_without_docstring": MODELLED_WITHOUT_DOC,
        "unclassified": unknown, "classified_but_not_registered": gone,
    }
    if unknown:
        res.broke("registry inventory: particle model(s) neither modelled nor on the no-documented-formula list",
                  {"models": unknown, "hint": "add a model + theorem (templates/LineShapeX.lean.in, Props/C15c.lean) or list it in c15_x.NO_FORMULA with a reason"})
    if gone:
        res.notes.append("registry inventory: classified models no longer registered: %s" % gone)
    return names


# --------------------------------------------------------------------------------------------
# numpy oracles written from the docstrings
# --------------------------------------------------------------------------------------------

def s_FlatteGen(m, m0, chans, ls, sq=False, sgn=-1.0, has_bprime=True, no_m0=False, no_q0=False, cut_phsp=False, d=3.0):
    """docstring of ParticleFlateGen / ParticleFlate2"""
    tot = 0
    for (ma, mb, g), l in zip(chans, ls):
        gi = g * g if sq else g
        q = B.s_flatte_q(m, ma, mb)
        q0 = complex(B.s_flatte_q(np.array([m0]), ma, mb)[0])
        if cut_phsp:
            prod = (m ** 2 - (ma + mb) ** 2) * (m ** 2 - (ma - mb) ** 2)
            q = np.where(prod < 0, 0.0, q)
        aq, aq0 = np.abs(q), abs(q0)
        term = gi * q / m
        if no_q0:
            aq0 = 1.0
        else:
            term = term * m0 / aq0
        term = term * (aq / aq0) ** (2 * l)
        if has_bprime:
            term = term * B.s_Bprime2(l, aq * aq, aq0 * aq0, d)[0]
        tot = tot + term
    pref = 1.0 if no_m0 else m0
    return 1 / (m0 ** 2 - m ** 2 + sgn * 1j * pref * tot)


def s_LASS(m, m0, g0, q, q0, a, r):
    a, r = abs(a), abs(r)
    cot = 1 / (a * q) + 0.5 * r * q
    e2 = (cot ** 2 - 1) / (cot ** 2 + 1) + 1j * 2 * cot / (cot ** 2 + 1)
    return m / (q * cot - 1j * q) + e2 * (m0 * g0 * m0 / q0) / ((m0 ** 2 - m ** 2) - 1j * m0 * g0 * (q / m) * (m0 / q0))


def s_barrier(l, q2, q02, d):
    b2, _ = B.s_Bprime2(l, q2, q02, d)
    return np.sqrt(q2 / q02) ** l * np.sqrt(b2)


def s_KMatrixSingle(L, m, m1, m2, ms, gs, betas, d=3.0):
    q = np.where(m > m1 + m2, B.s_q(m, m1, m2), 0.0)  # no decay momentum below threshold (K = 0 there)
    K, P = 0, 0
    for mi, gi, bi in zip(ms, gs, betas):
        qi = B.s_q(np.array([mi]), m1, m2)[0]
        K = K + mi * B.s_Gamma(L, m, gi, q, qi, mi, d) / (mi ** 2 - m ** 2)
        P = P + bi * mi * gi / (mi ** 2 - m ** 2)
    return P / (1 - 1j * K)


def s_Kmatrix(L, m, q, d, poles, alpha, knr, b0, betas):
    K, P = alpha, b0
    for (mi, wi, qi), bi in zip(poles, betas):
        K = K + mi * B.s_Gamma(L, m, wi, q, qi, mi, d) / (mi ** 2 - m ** 2)
        P = P + bi * mi * wi / (mi ** 2 - m ** 2)
    return P / (1 - 1j * K) + knr


def s_KmatrixSimple(m, ms, betas, chans, eps=1e-10, d=3.0, doc=True):
    """docstring of KmatrixSimple: R = n (1 - K i rho n^2)^-1 P; n_ii = q^l B'_l(q, 1/d, d) (doc) or (q d)^l B'_l (code);
    the docstring's `+ i epsilon` is read as the Feynman prescription m_a^2 - m^2 - i epsilon"""
    nc = len(chans)
    out = np.zeros((len(m), nc), dtype=np.complex128)
    for t, mm in enumerate(m):
        s = mm * mm
        prop = [1 / (ma * ma - s - 1j * eps) for ma in ms]
        Kmat = np.array([[sum(ci["g"][a] * cj["g"][a] * prop[a] for a in range(len(ms))) for cj in chans] for ci in chans])
        P = np.array([sum(betas[a] * ci["g"][a] * prop[a] for a in range(len(ms))) + ci["bkg"] for ci in chans])
        n, rho = [], []
        for c in chans:
            q = float(B.s_q(np.array([mm]), c["m1"], c["m2"])[0]) if mm > c["m1"] + c["m2"] else 0.0
            b2 = float(B.s_Bprime2(c["l"], q * q, (1 / d) ** 2, d)[0])
            n.append((q if doc else q * d) ** c["l"] * math.sqrt(b2))
            rho.append(q / mm)
        n, rho = np.array(n), np.array(rho)
        dom = np.eye(nc) - 1j * Kmat * (rho * n ** 2)[None, :]
        out[t] = n * np.linalg.solve(dom, P)
    return out


def s_KMatrixSplitLS(m, m1, m2, ls, ms, gs, fracs, betas, d=3.0):
    """docstring of KmatrixSplitLSParticle: K_ab = sum_i m_i sqrt(G_ai(m) G_bi(m))/(m_i^2-m^2), P_b = sum_i beta_i m_i G_bi0/(m_i^2-m^2),
    R = (1 - iK)^-1 P with G_ai(m) = G_i0 f_ia^2 (q/q_i)^(2 l_a + 1) (m_i/m) B'_la^2"""
    q = B.s_q(m, m1, m2)
    n = len(ls)
    out = np.zeros((len(m), n), dtype=np.complex128)
    for t, mm in enumerate(m):
        Kmat = np.zeros((n, n), dtype=np.complex128)
        P = np.zeros(n, dtype=np.complex128)
        for i, (mi, gi) in enumerate(zip(ms, gs)):
            qi = B.s_q(np.array([mi]), m1, m2)[0]
            G = [B.s_Gamma(l, mm, gi * fracs[i][a] ** 2, q[t], qi, mi, d) for a, l in enumerate(ls)]
            for a in range(n):
                P[a] += betas[i] * mi * gi * fracs[i][a] ** 2 / (mi ** 2 - mm ** 2)
                for b in range(n):
                    Kmat[a, b] += mi * np.sign(fracs[i][a] * fracs[i][b]) * math.sqrt(abs(G[a] * G[b])) / (mi ** 2 - mm ** 2)
        out[t] = np.linalg.solve(np.eye(n) - 1j * Kmat, P)
    return out


def s_pchip(xs, y, m, edge=3.0, f32=False, flat_end=False):
    """PCHIP (Fritsch-Carlson / scipy.interpolate.pchip_interpolate, the reference named in the docstring of sppchip):
    harmonic-mean interior slopes, three-point end slopes limited to `edge` * secant (scipy: 3); f32 = node positions
    rounded to float32 in the slope computation (tf.stack of Python floats)"""
    x = np.asarray(xs, dtype=np.float64)
    xh = x.astype(np.float32).astype(np.float64) if f32 else x
    y = np.asarray(y, dtype=np.float64)
    h = np.diff(xh)
    dl = np.diff(y) / h
    w1, w2 = 2 * h[1:] + h[:-1], h[1:] + 2 * h[:-1]
    with np.errstate(divide="ignore", invalid="ignore"):
        din = np.where(dl[:-1] * dl[1:] <= 0, 0.0, (w1 + w2) / (w1 / dl[:-1] + w2 / dl[1:]))

    def end(h0, h1, m0, m1):
        dd = ((2 * h0 + h1) * m0 - h0 * m1) / (h0 + h1)
        if (dd * m0 < 0) if flat_end else (np.sign(dd) != np.sign(m0)):  # flat_end: an exactly flat end secant keeps its three-point slope
            return 0.0
        if ((m0 * m1 < 0) if flat_end else (np.sign(m0) != np.sign(m1))) and abs(dd) > 3 * abs(m0):
            return edge * m0
        return dd
    ds = np.concatenate([[end(h[0], h[1], dl[0], dl[1])], din, [end(h[-1], h[-2], dl[-1], dl[-2])]])
    k = np.clip(np.searchsorted(x, m, side="right") - 1, 0, len(x) - 2)
    H = x[k + 1] - x[k]
    t = (m - x[k]) / H
    return ((2 * t ** 3 - 3 * t ** 2 + 1) * y[k] + (t ** 3 - 2 * t ** 2 + t) * H * ds[k]
            + (-2 * t ** 3 + 3 * t ** 2) * y[k + 1] + (t ** 3 - t ** 2) * H * ds[k + 1])


def lagrange_w(xs, x):
    """weights of the Lagrange polynomial through the nodes xs at x"""
    w = []
    for i, xi in enumerate(xs):
        v = 1.0
        for j, xj in enumerate(xs):
            if j != i:
                v *= (x - xj) / (xi - xj)
        w.append(v)
    return w


def s_interp1d3(xs, full, m):
    """'Piecewise third order interpolation': on [x_j, x_j+1) the cubic through the nodes j-1 .. j+2 (fewer at the ends)"""
    out = np.zeros(len(m), dtype=np.complex128)
    N = len(xs) - 1
    for t, x in enumerate(m):
        if not (xs[0] <= x < xs[-1]):
            continue
        j = int(np.searchsorted(xs, x, side="right")) - 1
        ks = [k for k in range(j - 1, j + 3) if 0 <= k <= N]
        w = lagrange_w([xs[k] for k in ks], x)
        out[t] = sum(wi * full[k] for wi, k in zip(w, ks))
    return out


def s_interp1d3_code(xs, full, m, legacy=True):
    """the stencil loop of get_matrix_interp1d3 as written (legacy) / with range(i-2, i+2)"""
    N = len(xs) - 1
    out = np.zeros(len(m), dtype=np.complex128)
    for t, x in enumerate(m):
        tot = 0
        for i in range(1, N):
            js = range(i - 1, i + 3) if legacy else range(i - 2, i + 2)
            h = 0.0
            for j in js:
                if j < 0 or j > N - 1:
                    continue
                r = 1.0
                for k in range(j - 1, j + 3):
                    if k == i or k < 0 or k > N:
                        continue
                    r = r * (x - xs[k]) / (xs[i] - xs[k])
                if xs[j] <= x < xs[j + 1]:
                    h += r
            tot += h * full[i]
        out[t] = tot
    return out


# --------------------------------------------------------------------------------------------
# observation of the tree (selects the Lean variant it is compared with)
# --------------------------------------------------------------------------------------------

def observe_x():
    import tensorflow as tf
    from tf_pwa.amp import interpolation as I
    from tf_pwa.amp.core import variable_scope
    # MultiBW: BW (documented) or BWR2 (inherited get_ls_amp)?
    cfg = {"L": 1, "m1": 0.3, "m2": 0.4, "m0": 1.2, "g0": 0.1}
    m = np.array([1.0, 1.5])
    with variable_scope():
        b = B.build("MultiBW", cfg, J=1, P=-1, mass=1.2, width=None, mass_list=[1.2], width_list=[0.3])
        lss = b.dec.get_ls_list()
        q2 = B.s_q2(m, 0.3, 0.4)
        v = B.cnum(b.p.get_ls_amp(m, lss, q2, np.full_like(m, B.s_q2(1.2, 0.3, 0.4)), 3.0)[0])
    bf = s_barrier(1, q2, B.s_q2(1.2, 0.3, 0.4), 3.0)
    use_bw = bool(np.all(np.abs(v - B.s_BW(m, 1.2, 0.3) * bf) < 1e-9 * np.abs(v)))
    # interp1d3 stencil
    xi = [0.0, 1.0, 2.0, 3.0, 4.0, 5.0, 6.0]
    h = I.get_matrix_interp1d3(tf.constant(np.array([2.5])), xi)[0].numpy()[0]
    i3_fixed = bool(abs(h[3] + 0.0625) < 1e-12)  # weight of node 4 on [2,3): -1/16 for the cubic through 1,2,3,4
    # which barrier factor does the docstring of KmatrixSimple state? (fixes/C15-fix_kmatrix_simple_doc.diff corrects the docstring)
    from tf_pwa.amp import kmatrix_simple
    ks_doc_d = "(q_i d)^l" in (kmatrix_simple.KmatrixSimple.__doc__ or "")
    return {"multibw_bw": use_bw, "i1d3_fixed": i3_fixed, "ksim_doc_has_d": ks_doc_d}


# --------------------------------------------------------------------------------------------
# cases
# --------------------------------------------------------------------------------------------

def _cl(c):
    return [float(np.real(c)), float(np.imag(c))]


def _away(m, pts, rel=2e-3):
    keep = np.ones_like(m, dtype=bool)
    for p in pts:
        keep &= np.abs(m - p) > rel * max(abs(p), 0.1)
    return m[keep]


def cases_lineshape(rng, quick, obs, obx):
    from tf_pwa.amp.core import get_relative_p, get_relative_p2, variable_scope
    fixs = "1" if obs["bwr2_fixed"] else "0"
    nrep = 1 if quick else 4
    npt = 10 if quick else 30
    # ---- FlatteGen / Flatte2
    optsets = [dict(), dict(has_bprime=False), dict(no_m0=True), dict(no_q0=True), dict(cut_phsp=True),
               dict(no_m0=True, no_q0=True, has_bprime=False), dict(cut_phsp=True, no_q0=True)]
    for rep in range(nrep):
        for io, opt in enumerate(optsets):
            for model, sq in (("FlatteGen", False), ("Flatte2", True)):
                if quick and (io + (1 if sq else 0) + rep) % 2 == 1 and io not in (0, 4):
                    continue
                cfg = B.gen_cfg(rng, 0)
                m0 = cfg["m0"]
                nch = 1 + int(rng.integers(0, 3))
                chans = [(cfg["m1"], cfg["m2"], float(rng.uniform(0.05, 0.8)))]
                for k in range(1, nch):
                    chans.append((float(rng.uniform(0.1, 0.9)), float(rng.uniform(0.1, 0.9)), float(rng.uniform(-0.4, 0.8))))
                ls = [int(rng.integers(0, 5)) for _ in chans]
                sgn = -1.0 if rng.random() < 0.7 else 1.0
                lo = min(a + b_ for a, b_, g in chans)
                hi = max(a + b_ for a, b_, g in chans)
                mind = max(abs(a - b_) for a, b_, g in chans)
                mlow = 0.3 * lo
                if opt.get("cut_phsp"):
                    mlow = max(mlow, mind * 1.01)  # doc: q_i = 0 where the radicand is negative; code: where m < ma+mb; equal for m > |ma-mb|
                m = np.concatenate([[m0], rng.uniform(mlow, hi + 2.0, size=npt)])
                m = _away(m, [a + b_ for a, b_, g in chans] + [abs(a - b_) for a, b_, g in chans])
                kw = dict(opt)
                if sgn != -1.0:
                    kw["im_sign"] = 1
                with variable_scope() as vm:
                    b = B.build(model, cfg, width=None, mass_list=[[a, b_] for a, b_, g in chans], l_list=ls, **kw)
                    for i, (a, b_, g) in enumerate(chans):
                        vm.set("R_g_%d" % i, g)
                    impl = B.cnum(b.p(m))
                flat = []
                for a, b_, g in chans:
                    flat += [a, b_, g]
                o = "".join("1" if x else "0" for x in (opt.get("has_bprime", True), opt.get("no_m0", False), opt.get("no_q0", False), opt.get("cut_phsp", False)))
                yield {"model": model, "cfg": dict(cfg, chans=chans, l_list=ls, im_sign=sgn, **opt), "m": m, "impl": [impl], "conj_key": None,
                       "lean": ["C15x flattegen %s %s %d %s %s" % (o, "1" if sq else "0", len(chans), " ".join(map(str, ls)), B.fl([sgn, 3.0, mm, m0] + flat)) for mm in m],
                       "spec": [s_FlatteGen(m, m0, chans, ls, sq=sq, sgn=sgn, **opt)]}
    # ---- LASS
    for rep in range(2 * nrep):
        cfg = B.gen_cfg(rng, 0)
        m = B.mass_grid(rng, cfg, npt)
        a, r = float(rng.uniform(-3, 3)), float(rng.uniform(-3, 3))
        with variable_scope() as vm:
            b = B.build("LASS", cfg)
            vm.set("R_a", a)
            vm.set("R_r", r)
            impl = B.cnum(b.p(m))
        q, q0 = B.s_q(m, cfg["m1"], cfg["m2"]), B.s_q(cfg["m0"], cfg["m1"], cfg["m2"])
        yield {"model": "LASS", "cfg": dict(cfg, a=a, r=r), "m": m, "impl": [impl], "conj_key": None,
               "lean": ["C15x calllass " + B.fl([mm, cfg["m0"], cfg["g0"], cfg["m1"], cfg["m2"], a, r]) for mm in m],
               "spec": [s_LASS(m, cfg["m0"], cfg["g0"], q, q0, a, r)]}
    # ---- MultiBW
    spin_cfgs = [(1, 1, ((1, -1), (0, -1))), (2, -1, ((1, -1), (0, -1))), (2, 1, ((1, -1), (1, -1)))]
    for rep in range(nrep):
        for (J, P, dau) in (spin_cfgs[:2] if quick else spin_cfgs):
            cfg = B.gen_cfg(rng, 0)
            m = B.mass_grid(rng, cfg, npt)
            m0, g0, m1, m2 = cfg["m0"], cfg["g0"], cfg["m1"], cfg["m2"]
            nk = 2 + (J % 2)
            ml = [m0 + 0.13 * k for k in range(nk)]
            wl = [g0 * (1 + 0.5 * k) for k in range(nk)]
            with variable_scope() as vm:
                b = B.build("MultiBW", cfg, J=J, P=P, dau=dau, mass=m0, width=None, mass_list=ml, width_list=wl)
                for n in list(vm.trainable_vars):
                    if "coeff" in n:
                        vm.set(n, float(rng.uniform(0.2, 1.5)))
                lss = b.dec.get_ls_list()
                ls = [int(l) for l, s in lss]
                co = B.cnum(b.p.coeff())
                q2i = B.cnum(get_relative_p2(m, m1, m2)).real
                q02 = float(B.cnum(get_relative_p2(np.array([m0]), m1, m2)).real[0])
                impl = [B.cnum(x) for x in b.p.get_ls_amp(m, lss, q2i, np.full_like(m, q02), 3.0)]
            lmin = min(ls)
            spec, spec_code = [], []
            for i, l in enumerate(ls):
                tot, totr = 0, 0
                for k in range(nk):
                    tot = tot + co[i, k] * B.s_BW(m, ml[k], wl[k])
                    totr = totr + co[i, k] * B.s_BWR2(lmin, m, ml[k], wl[k], B.s_q2(m, m1, m2), B.s_q2(m0, m1, m2), 3.0)[0]
                bf = s_barrier(l, B.s_q2(m, m1, m2), B.s_q2(m0, m1, m2), 3.0)
                spec.append(tot * bf)
                spec_code.append(totr * bf)
            flat = []
            for k in range(nk):
                flat += [ml[k], wl[k]]
            for i in range(len(ls)):
                for k in range(nk):
                    flat += _cl(co[i, k])
            yield {"model": "MultiBW", "cfg": dict(cfg, J=J, P=P, dau=dau, ls=ls, mass_list=ml, width_list=wl, coeff=[[complex(x) for x in r] for r in co]),
                   "m": m, "impl": impl, "conj_key": None, "lean_multi": len(ls),
                   "variants": [(KEY_MBW, "sums coefficient x BWR2 (running width, the inherited MultiBWR.get_ls_amp; the overridden dom_fun = BW is never called) where 'Combine Multi BW' documents constant-width BW terms", spec_code)],
                   "lean": ["C15x mbw %s %s %d %d %s %s" % ("1" if obx["multibw_bw"] else "0", fixs, len(ls), nk, " ".join(map(str, ls)), B.fl([mm, qq, q02, 3.0] + flat)) for mm, qq in zip(m, q2i)],
                   "spec": spec}
    # ---- Kmatrix (amp/base.py)
    for rep in range(2 * nrep):
        L = int(rng.integers(0, 4))
        cfg = B.gen_cfg(rng, L)
        m1, m2 = cfg["m1"], cfg["m2"]
        S = m1 + m2
        pm = [S + float(rng.uniform(0.2, 1.0)), S + float(rng.uniform(1.1, 1.8))]
        pw = [float(rng.uniform(0.02, 0.3)), float(rng.uniform(0.02, 0.3))]
        m = _away(S + rng.uniform(0.02, 2.5, size=npt), pm)
        with variable_scope() as vm:
            b = B.build("Kmatrix", cfg, mass=pm[0], width=None)
            vm.set("R_mass1", pm[0]); vm.set("R_mass2", pm[1]); vm.set("R_width1", pw[0]); vm.set("R_width2", pw[1])
            vm.set("R_alpha", float(rng.uniform(-1, 1)))
            for n in list(vm.variables):
                if n.startswith("R_") and any(t in n for t in ("KNR", "beta0", "beta1", "beta2")):
                    vm.set(n, float(rng.uniform(-1.5, 1.5)))
            knr, b0, b1, b2 = (complex(B.cnum(x())) for x in (b.p.KNR, b.p.beta0, b.p.beta1, b.p.beta2))
            alpha = float(B.cnum(b.p.alpha()).real)
            q = B.cnum(get_relative_p(m, m1, m2)).real
            outs = b.dec.outs
            impl = B.cnum(b.p.get_amp({"m": m}, {"|q|": q}, all_data={"particle": {outs[0]: {"m": np.full_like(m, m1)}, outs[1]: {"m": np.full_like(m, m2)}}}))
            Lc = int(b.p.bw_l)
        qs = [float(B.s_q(np.array([x]), m1, m2)[0]) for x in pm]
        yield {"model": "Kmatrix", "cfg": dict(cfg, poles=list(zip(pm, pw)), alpha=alpha, KNR=knr, beta=[b0, b1, b2], L=Lc), "m": m, "impl": [impl], "conj_key": None,
               "lean": ["C15x kmatrix %d %s" % (Lc, B.fl([mm, qq, 3.0, pm[0], pw[0], qs[0], pm[1], pw[1], qs[1], alpha] + _cl(knr) + _cl(b0) + _cl(b1) + _cl(b2))) for mm, qq in zip(m, q)],
               "spec": [s_Kmatrix(Lc, m, B.s_q(m, m1, m2), 3.0, [(pm[0], pw[0], qs[0]), (pm[1], pw[1], qs[1])], alpha, knr, b0, [b1, b2])]}
    # ---- KMatrixSingleChannel
    for rep in range(2 * nrep):
        L = int(rng.integers(0, 4))
        cfg = B.gen_cfg(rng, L)
        m1, m2 = cfg["m1"], cfg["m2"]
        S = m1 + m2
        npole = 1 + int(rng.integers(0, 3))
        pm = sorted(S + float(rng.uniform(0.2, 1.8)) for _ in range(npole))
        pw = [float(rng.uniform(0.02, 0.3)) for _ in range(npole)]
        m = _away(np.concatenate([S * rng.uniform(0.5, 0.99, size=2), S + rng.uniform(0.02, 2.5, size=npt)]), pm + [S])
        with variable_scope() as vm:
            b = B.build("KMatrixSingleChannel", cfg, mass=pm[0], width=None, mass_list=pm, width_list=pw)
            for n in list(vm.trainable_vars):
                if "beta" in n and n.startswith("R_"):
                    vm.set(n, float(rng.uniform(-1.5, 1.5)))
            br, bi = b.p.get_beta()
            betas = [complex(float(x), float(y)) for x, y in zip(br, bi)]
            impl = B.cnum(b.p(m))
            Lc = int(b.p.bw_l)
        flat = []
        for a, w in zip(pm, pw):
            flat += [a, w]
        for z in betas:
            flat += _cl(z)
        yield {"model": "KMatrixSingleChannel", "cfg": dict(cfg, mass_list=pm, width_list=pw, beta=betas, L=Lc), "m": m, "impl": [impl], "conj_key": None,
               "lean": ["C15x callkmsingle %d %d %s" % (Lc, npole, B.fl([3.0, mm, m1, m2] + flat)) for mm in m],
               "spec": [s_KMatrixSingle(Lc, m, m1, m2, pm, pw, betas)]}
    # ---- KmatrixSimple: one and two channels (Lean + oracle), three channels (oracle only)
    for rep in range(2 * nrep):
        for nch in (1, 2, 3):
            if quick and nch == 3 and rep > 0:
                continue
            cfg = B.gen_cfg(rng, 0)
            npole = 1 + int(rng.integers(0, 3))
            chans = []
            for k in range(nch):
                chans.append({"m1": float(rng.uniform(0.1, 0.6)), "m2": float(rng.uniform(0.1, 0.6)), "l": int(rng.integers(0, 3))})
            if rep % 2 == 0:
                for c in chans:
                    c["l"] = 0  # all S-wave: the listed d^l deviation does not show
            S = min(c["m1"] + c["m2"] for c in chans)
            pm = sorted(S + float(rng.uniform(0.3, 1.8)) for _ in range(npole))
            m = _away(np.concatenate([S * rng.uniform(0.6, 0.99, size=2), S + rng.uniform(0.02, 2.5, size=npt)]), pm + [c["m1"] + c["m2"] for c in chans], rel=2e-2)
            with variable_scope() as vm:
                b = B.build("KmatrixSimple", dict(cfg, m1=chans[0]["m1"], m2=chans[0]["m2"]), mass=pm[0], width=None, mass_list=pm, width_list=[0.1] * npole,
                            decay_list=[[c["m1"], c["m2"]] for c in chans], l_list=[c["l"] for c in chans], index_list=list(range(nch)))
                for n in list(vm.trainable_vars):
                    if n.startswith("R_") and any(t in n for t in ("gij", "beta", "bkg")):
                        vm.set(n, float(rng.uniform(0.2, 1.5)))
                g = np.asarray(B.cnum(b.p.coeffs())).real.reshape(nch, npole)
                betas = [complex(z) for z in np.atleast_1d(B.cnum(b.p.beta()))]
                bkg = [complex(z) for z in np.atleast_1d(B.cnum(b.p.bkg()))]
                eps = float(b.p._epsilon)
                out = B.cnum(b.p(m))
            for k, c in enumerate(chans):
                c["g"] = [float(x) for x in g[k]]
                c["bkg"] = bkg[k]
            spec = s_KmatrixSimple(m, pm, betas, chans, eps=eps, doc=not obx.get("ksim_doc_has_d", False))
            code = s_KmatrixSimple(m, pm, betas, chans, eps=eps, doc=False)
            case = {"model": "KmatrixSimple", "cfg": {"poles": pm, "beta": betas, "channels": [dict(c) for c in chans], "eps": eps}, "m": m,
                    "impl": [out[:, k] for k in range(nch)], "conj_key": None,
                    "spec": [spec[:, k] for k in range(nch)],
                    "variants": [(KEY_KSD, "uses the barrier factor (q d)^l B'_l(q, 1/d, d) where the docstring has n_ii = q^l B'_l(q, 1/d, d): a channel with l >= 1 differs by d^l = 3^l (and 9^l inside rho n^2)", [code[:, k] for k in range(nch)])]}
            head = []
            for z in betas:
                head += _cl(z)

            def chblock(c):
                return [c["m1"], c["m2"]] + _cl(c["bkg"]) + c["g"]
            if nch == 1:
                case["lean"] = ["C15x ksim1 %d %d %s" % (chans[0]["l"], npole, B.fl([eps, 3.0, mm] + pm + head + chblock(chans[0]))) for mm in m]
            elif nch == 2:
                case["lean"] = ["C15x ksim2 %d %d %d %s" % (chans[0]["l"], chans[1]["l"], npole, B.fl([eps, 3.0, mm] + pm + head + chblock(chans[0]) + chblock(chans[1]))) for mm in m]
                case["lean_multi"] = 2
            else:  # three channels: Cramer's rule (templates/LineShapeE.lean.in, round 5)
                case["lean"] = ["C15e ksim3 %d %d %d %d %s" % (chans[0]["l"], chans[1]["l"], chans[2]["l"], npole, B.fl([eps, 3.0, mm] + pm + head + chblock(chans[0]) + chblock(chans[1]) + chblock(chans[2]))) for mm in m]
                case["lean_multi"] = 3
            yield case
    # ---- KMatrixSplitLS: oracle only
    for rep in range(nrep):
        cfg = B.gen_cfg(rng, 0)
        m1, m2 = cfg["m1"], cfg["m2"]
        S = m1 + m2
        pm = [S + float(rng.uniform(0.3, 1.2))]
        pw = [float(rng.uniform(0.05, 0.3))]
        m = _away(S + rng.uniform(0.05, 2.0, size=npt), pm, rel=2e-2)
        with variable_scope() as vm:
            b = B.build("KMatrixSplitLS", cfg, mass=pm[0], width=None, mass_list=pm, width_list=pw)
            ls = [int(l) for l in b.dec.get_l_list()]
            out = B.cnum(b.p.get_ls_amp(m))
        spec = s_KMatrixSplitLS(m, m1, m2, ls, pm, pw, [[1.0]], [1.0 + 0j])
        yield {"model": "KMatrixSplitLS", "cfg": dict(cfg, mass_list=pm, width_list=pw, ls=ls), "m": m, "impl": [out[:, 0]], "conj_key": None, "lean": [],
               "spec": [spec[:, 0]], "any_key": (KEY_SPLITLS, "one pole, one S-wave: the implementation evaluates m1 G/(m1^2 - m^2 - i G sqrt((q/q1)(m1/m)) - 1e-4 i), the docstring's R = (1-iK)^-1 P gives m1 G/(m1^2 - m^2 - i m1 G (q/q1)(m1/m)): sqrt of the phase-space ratio, no factor m1, p = |q| passed where q^2 is expected, epsilon = 1e-4")}


def _set_points(vm, b, rng):
    for n in list(vm.trainable_vars):
        if "point" in n and n.startswith("R_"):
            vm.set(n, float(rng.uniform(0.3, 2.5)))
    return [complex(z) for z in np.atleast_1d(B.cnum(b.p.point_value()))]


def _pflat(ps):
    out = []
    for z in ps:
        out += _cl(z)
    return out


def spline_oracle(xs, full, m, extrapolate):
    from scipy.interpolate import CubicSpline
    cs = CubicSpline(np.array(xs), np.array(full), bc_type="not-a-knot", extrapolate=True)
    v = cs(m)
    if not extrapolate:
        v = np.where((m >= xs[0]) & (m < xs[-1]), v, 0)
    return v


def cases_interp(rng, quick, obx):
    from tf_pwa.amp import interpolation as I
    from tf_pwa.amp.core import variable_scope
    nrep = 1 if quick else 3
    npt = 12 if quick else 40
    leg = "0" if obx["i1d3_fixed"] else "1"
    cfg = {"L": 0, "m1": 0.1, "m2": 0.1, "m0": None, "g0": None}
    for rep in range(nrep):
        for N in ((5, 8) if quick else (4, 5, 6, 8, 11)):
            uniform = (rep + N) % 2 == 0
            lo = float(rng.uniform(0.2, 0.5))
            hi = lo + float(rng.uniform(0.5, 1.5))
            if uniform:
                kw = dict(min_m=lo, max_m=hi, interp_N=N)
            else:
                inner = np.sort(rng.uniform(lo, hi, size=N - 2))
                while np.min(np.diff(np.concatenate([[lo], inner, [hi]]))) < 0.02 * (hi - lo):
                    inner = np.sort(rng.uniform(lo, hi, size=N - 2))
                kw = dict(points=[lo] + [float(x) for x in inner] + [hi])
            w = hi - lo
            mg = np.concatenate([rng.uniform(lo - 0.3 * w, hi + 0.3 * w, size=npt // 3), rng.uniform(lo, hi, size=npt)])
            for model in ("interp", "interp_c", "interp_hist", "hist_idx", "interp1d3", "interp_l3", "interp_lagrange", "spline_c", "spline_c_idx", "spline_c+wb", "spline_c_idx+wb", "sppchip"):
                wb = model.endswith("+wb")
                name = model.split("+")[0]
                with variable_scope() as vm:
                    b = B.build(name, cfg, mass=None, width=None, **(dict(kw, with_bound=True) if wb else kw))
                    xs = [float(x) for x in b.p.points]
                    mids = [(xs[i] + xs[i + 1]) / 2 for i in range(N - 1)]
                    m = mg
                    # index-based models: tf.histogram_fixed_width_bins rounds (m - lo)/width, and tf.raw_ops.Bucketize keeps its
                    # `boundaries` attribute in float32 (node positions rounded at 6e-8): stay 1e-6 off the nodes
                    exact_nodes = name not in ("hist_idx", "spline_c_idx", "sppchip")
                    if not exact_nodes:
                        m = _away(m, xs, rel=1e-6)
                    else:
                        m = np.concatenate([np.array(xs), m])  # exactly at the nodes
                    if name in ("interp_hist", "interp_l3"):
                        m = _away(m, mids, rel=1e-9)
                    if name == "sppchip":
                        m = m[(m >= xs[0]) & (m < xs[-1])]  # tf.gather raises outside the node range on CPU
                    ps = _set_points(vm, b, rng)
                    impl = B.cnum(b.p(m))
                    tab = np.asarray(I.spline_xi_matrix(xs)).ravel() if name.startswith("spline") else None
                full = ps if wb else [0j] + ps + [0j]
                fa = np.array(full)
                inside = (m >= xs[0]) & (m < xs[-1])
                c = {"model": name, "cfg": dict(kw, N=N, with_bound=wb, values=ps), "m": m, "impl": [impl], "conj_key": None}
                head = B.fl(xs)
                if name == "interp":
                    pr = [abs(z.real) for z in ps]  # real parameters; N+1 of them, the last one is never used
                    c["lean"] = ["C15i interp %d %s %s %s" % (N, B.fl([mm]), head, B.fl([z.real for z in ps])) for mm in m]
                    v = np.interp(m, xs, pr[:N])
                    c["spec"] = [np.where((m > xs[0]) & (m <= xs[-1]), v, 0) + 0j]
                elif name == "interp_c":
                    c["lean"] = ["C15i interpc %d %s %s %s" % (N, B.fl([mm]), head, B.fl(_pflat(ps))) for mm in m]
                    c["spec"] = [np.where(inside, np.interp(m, xs, fa.real) + 1j * np.interp(m, xs, fa.imag), 0)]
                elif name == "interp_hist":
                    c["lean"] = ["C15i hist %d %s %s %s" % (N, B.fl([mm]), head, B.fl(_pflat(ps))) for mm in m]
                    near = np.array([int(np.argmin(np.abs(np.array(xs) - mm))) for mm in m])
                    c["spec"] = [fa[near]]
                elif name == "hist_idx":
                    c["lean"] = ["C15i histidx %d %s %s %s" % (N, B.fl([mm]), head, B.fl(_pflat(ps))) for mm in m]
                    k = np.clip(np.searchsorted(xs, m, side="right") - 1, 0, N - 2)
                    c["spec"] = [np.where(inside, np.array(ps)[k], np.nan)]  # outside the range: not documented (wraps around)
                elif name in ("interp1d3", "interp_l3"):
                    c["lean"] = ["C15i i1d3 %s %s %d %s %s %s" % (leg, "1" if name == "interp_l3" else "0", N, B.fl([mm]), head, B.fl(_pflat(ps))) for mm in m]
                    if name == "interp1d3":
                        c["spec"] = [s_interp1d3(xs, full, m)]
                        c["variants"] = [(KEY_I3, "get_matrix_interp1d3 attaches node i to the intervals i-1 .. i+2 (for j in range(i-1, i+3)) instead of i-2 .. i+1: on [x_j, x_j+1) the weight of node j+2 is missing and node j-2 gets a spurious quartic weight, so the result is not the cubic through the four neighbouring nodes (constants are not reproduced)", [s_interp1d3_code(xs, full, m, True)])]
                    else:
                        c["spec"] = [np.full(len(m), np.nan)]  # no docstring
                elif name == "interp_lagrange":
                    c["lean"] = ["C15i lagrange %d %s %s %s" % (N, B.fl([mm]), head, B.fl(_pflat(ps))) for mm in m]
                    c["spec"] = [np.array([sum(wi * z for wi, z in zip(lagrange_w(xs, mm), full)) for mm in m])]
                    c["tol_scale"] = np.array([sum(abs(wi * z) for wi, z in zip(lagrange_w(xs, mm), full)) for mm in m])
                elif name == "spline_c":
                    c["lean"] = ["C15i spline %s %d %s %s %s %s" % ("1" if wb else "0", N, B.fl([mm]), head, B.fl(tab), B.fl(_pflat(ps))) for mm in m]
                    c["spec"] = [spline_oracle(xs, full, m, False)]
                elif name == "spline_c_idx":
                    c["lean"] = ["C15i splineidx %s %d %s %s %s %s" % ("1" if wb else "0", N, B.fl([mm]), head, B.fl(tab), B.fl(_pflat(ps))) for mm in m]
                    c["spec"] = [spline_oracle(xs, full, m, True)]
                elif name == "sppchip":
                    from scipy.interpolate import PchipInterpolator
                    c["lean"] = []
                    c["spec"] = [PchipInterpolator(np.array(xs), fa.real)(m) + 1j * PchipInterpolator(np.array(xs), fa.imag)(m)]
                    own = s_pchip(xs, fa.real, m) + 1j * s_pchip(xs, fa.imag, m)
                    c["oracle_self_check"] = float(np.max(np.abs(own - c["spec"][0])))  # own PCHIP = scipy's
                    c["variants"] = [(KEY_PCHIP, "differs from scipy's pchip_interpolate (the reference of its docstring): the end slopes are limited to 2 x secant where PCHIP has 3 x and are not zeroed when the end secant is exactly 0 (sppchip_coeffs.cond: `d_tmp * delta < 0`; the default zero end value next to a node value with zero imaginary part then overshoots a flat segment), and the node positions pass through float32 (tf.stack of Python floats) in the slope computation (1e-8 relative)",
                                      [s_pchip(xs, fa.real, m, 2.0, True, True) + 1j * s_pchip(xs, fa.imag, m, 2.0, True, True)])]
                # absolute scale for interpolants (values pass through zero): error relative to max |node value|
                if "tol_scale" not in c:
                    c["tol_scale"] = np.full(len(m), max(abs(z) for z in full) if full else 1.0)
                    if name.startswith("spline"):
                        c["tol_scale"] = c["tol_scale"] * (1 + np.abs(m) ** 3 * float(np.max(np.abs(tab))) / max(1.0, float(np.max(np.abs(fa)))))
                yield c
        # linear_npy / linear_txt
        for model, ext in (("linear_npy", ".npy"), ("linear_txt", ".txt")):
            N = 6 + rep
            xs = np.sort(rng.uniform(0.2, 1.2, size=N))
            vals = rng.uniform(-2, 2, size=N) + 1j * rng.uniform(-2, 2, size=N)
            arr = np.stack([xs, vals.real, vals.imag], axis=-1)
            tmp = tempfile.mkdtemp(prefix="c15x_")
            try:
                path = os.path.join(tmp, "nodes" + ext)
                if ext == ".npy":
                    np.save(path, arr)
                else:
                    np.savetxt(path, arr, fmt="%.17g")
                m = _away(np.concatenate([xs * (1 + 1e-5), rng.uniform(0.0, 1.4, size=npt)]), xs, rel=1e-6)  # Bucketize boundaries are float32
                with variable_scope():
                    b = B.build(model, cfg, mass=None, width=None, file=path)
                    impl = B.cnum(b.p(m))
            finally:
                shutil.rmtree(tmp, ignore_errors=True)
            inside = (m >= xs[0]) & (m < xs[-1])
            yield {"model": model, "cfg": {"points": [float(x) for x in xs], "values": [complex(v) for v in vals]}, "m": m, "impl": [impl], "conj_key": None,
                   "lean": ["C15i file %d %s %s %s" % (N, B.fl([mm]), B.fl(xs), B.fl(_pflat(vals))) for mm in m],
                   "spec": [np.where(inside, np.interp(m, xs, vals.real) + 1j * np.interp(m, xs, vals.imag), 0)],
                   "tol_scale": np.full(len(m), float(np.max(np.abs(vals))))}


def cases_x(seed, quick, obs, obx):
    rng = np.random.Generator(np.random.Philox(seed + 7000))
    out = list(cases_lineshape(rng, quick, obs, obx))
    rng = np.random.Generator(np.random.Philox(seed + 7001))
    out += list(cases_interp(rng, quick, obx))
    return out


# --------------------------------------------------------------------------------------------
# translator: spline coefficient tables of the current tree as exact rationals
# --------------------------------------------------------------------------------------------

SPLINE_NODES = [[0, 1, 2, 3], [0, 1, 2, 3, 4], [0, 1, 2, 3, 4, 5], [0, 1, 2, 3, 4, 5, 6, 7],
                [Fraction(0), Fraction(1), Fraction(5, 2), Fraction(3), Fraction(9, 2), Fraction(6)]]


def _rat(q):
    q = Fraction(q)
    return "((%d : Rat) / %d)" % (q.numerator, q.denominator) if q.denominator != 1 else "(%d : Rat)" % q.numerator


def spline_tables():
    """run the real spline_xi_matrix on small-rational node sets; every entry is a rational number whose float64 image
    is recovered exactly (denominators far below 2^26); returns [(nodes, flat table, max float distance)]"""
    from tf_pwa.amp import interpolation as I
    out = []
    for xs in SPLINE_NODES:
        M = np.asarray(I.spline_xi_matrix([float(x) for x in xs]))
        want = (len(xs) - 1, 4, len(xs))
        if M.shape != want:
            raise ValueError("spline_xi_matrix returned shape %s, expected %s" % (M.shape, want))
        flat = [Fraction(float(v)).limit_denominator(10 ** 7) for v in M.ravel()]
        err = max(abs(float(f) - float(v)) / max(1.0, abs(float(v))) for f, v in zip(flat, M.ravel()))
        out.append(([Fraction(x) for x in xs], flat, err))
    return out


def translate_x(ctx, res):
    tabs = spline_tables()
    lines = ["-- GENERATED by harness/c15_x.py (translate_x) by running tf_pwa.amp.interpolation.spline_xi_matrix of the current tree; do not edit",
             "namespace TfPwaV.SplineTable",
             "/-- node sets -/", "def nodes : List (List Rat) := ["]
    lines.append(",\n".join("  [%s]" % ", ".join(_rat(x) for x in xs) for xs, _, _ in tabs))
    lines += ["]", "/-- `spline_xi_matrix(nodes)` of shape (N-1, 4, N), row-major, as exact rationals -/", "def tabs : List (List Rat) := ["]
    lines.append(",\n".join("  [%s]" % ", ".join(_rat(x) for x in fl) for _, fl, _ in tabs))
    lines += ["]", "end TfPwaV.SplineTable", ""]
    C.write_if_changed(os.path.join(C.GEN, "SplineTable.lean"), "\n".join(lines))
    worst = max(e for _, _, e in tabs)
    ctx.c15_spline = tabs
    if worst > 1e-11:
        res.broke("translator: spline_xi_matrix entries are not the float images of small rationals", {"worst_distance": worst})
    return {"SplineTable": {"node_sets": [[str(x) for x in xs] for xs, _, _ in tabs], "float_to_rational_distance": worst}}
