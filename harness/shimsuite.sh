#!/bin/sh
# shimsuite.sh <repo_dir> <out>: run the WHOLE test-suite with the numpy.Inf shim plugin (development helper, compares trees)
cd $1 && PYTHONPATH=/tmp/shim:$1 MPLBACKEND=Agg /venv/bin/python -m pytest -p npshim -q -p no:cacheprovider --timeout=1800 --continue-on-collection-errors -x --co -q >/dev/null 2>&1
cd $1 && PYTHONPATH=/tmp/shim:$1 MPLBACKEND=Agg /venv/bin/python -m pytest -p npshim -rfE -q -p no:cacheprovider --timeout=1800 --continue-on-collection-errors 2>&1 | grep -E "^(FAILED|ERROR)|passed|failed" | sed 's/ - .*//' | sort > $2
