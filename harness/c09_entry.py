"""C09 (entry points): the functions that REPORT parameter uncertainties — ConfigLoader.get_params_error (methods
None/"correct", "3-point", "hesse", using_cached, force_pos, correct_params), cal_hesse_error, cal_hesse_correct,
num_hess_inv_3point, corr_coef_matrix, FitResult.set_error / save_as — with the model state (a) equal to `params`,
(b) different from `params` (dict and FitResult forms), (c) bounded, tied and fixed parameters present.

Model = templates/ErrEntry.lean.in (driver prefix C09y).  Called from c09.correspond / c09.search."""
import contextlib
import io
import json
import math
import os
import shutil
import tempfile
import warnings

import numpy as np

import common as C

EPS3 = 5e-4   # num_hess_inv_3point(_epsilon)
EPSC = 1e-3   # cal_hesse_correct(_epsilon)
METHODS = [None, "correct", "3-point", "hesse"]


def quiet():
    return contextlib.redirect_stdout(io.StringIO())


def H(xs):
    return " ".join(C.f2h(float(x)) for x in xs)


@contextlib.contextmanager
def scratch_cwd():
    """cal_hesse_error(save_npy=True) writes error_matrix.npy into the working directory"""
    old = os.getcwd()
    d = tempfile.mkdtemp(prefix="c09_entry_")
    os.chdir(d)
    try:
        yield d
    finally:
        os.chdir(old)
        shutil.rmtree(d, ignore_errors=True)


# --------------------------------------------------------------------------------------------------
# synthetic likelihood over the DISTINCT stored variables ("slots") of a real VarsManager:
#   NLL(z) = c + b.z + z.A.z/2 + sum_k q_k z_k^4        (A symmetric)
# its Hessian A + diag(12 q z^2) depends on the point, so "evaluated at the wrong point" is visible
# --------------------------------------------------------------------------------------------------

def nll_z(c, b, A, q, z):
    z = np.asarray(z, dtype=float)
    return float(c + b @ z + 0.5 * z @ A @ z + np.sum(q * z ** 4))


def grad_z(b, A, q, z):
    z = np.asarray(z, dtype=float)
    return b + A @ z + 4.0 * q * z ** 3


def hess_z(A, q, z):
    z = np.asarray(z, dtype=float)
    return A + np.diag(12.0 * q * z ** 2)


class EntryFCN:
    """what get_params_error / cal_hesse_error / cal_hesse_correct / num_hess_inv_3point use of an FCN; every
    evaluation installs its argument with VarsManager.set_all exactly like FCN -> Model.set_params"""

    def __init__(self, vm, slots, c, b, A, q):
        self.vm, self.slots = vm, list(slots)
        self.c, self.b, self.A, self.q = float(c), np.array(b, float), np.array(A, float), np.array(q, float)
        self.tr = [self.slots.index(nm) for nm in vm.trainable_vars]
        self.log = []  # the points (all slots) at which the likelihood / its derivatives were evaluated

    def z(self):
        return np.array([float(self.vm.get(nm, False)) for nm in self.slots])

    def get_params(self, trainable_only=False):
        return self.vm.get_all_dic(trainable_only)

    def _set(self, x):
        if x is None:
            x = {}
        self.vm.set_all(x if type(x) == dict else np.asarray(x, dtype=float))  # noqa: E721  (the code's own test)

    def __call__(self, x={}):
        self._set(x)
        z = self.z()
        self.log.append(("f", z))
        return nll_z(self.c, self.b, self.A, self.q, z)

    def nll_grad(self, x={}):
        self._set(x)
        z = self.z()
        self.log.append(("g", z))
        return nll_z(self.c, self.b, self.A, self.q, z), grad_z(self.b, self.A, self.q, z)[self.tr]

    def nll_grad_hessian(self, x={}, batch=None):
        import tensorflow as tf
        self._set(x)
        z = self.z()
        self.log.append(("h", z))
        h = hess_z(self.A, self.q, z)[np.ix_(self.tr, self.tr)]
        return nll_z(self.c, self.b, self.A, self.q, z), grad_z(self.b, self.A, self.q, z)[self.tr], tf.constant(h)


class StubConfig:
    """the attributes of ConfigLoader that get_params_error touches"""

    def __init__(self, fcn, fit_params=None):
        self.vm = fcn.vm
        self.inv_he = None
        self._fcn = fcn
        if fit_params is not None:
            self.fit_params = fit_params

    def get_all_data(self):
        return None, None, None, None

    def get_fcn(self, all_data=None, batch=65000, **kw):
        return self._fcn


LAYOUTS = {
    # name: (names, bounds, fixed, tied pairs)
    "free": (["a", "b", "c", "d"], {}, [], []),
    "bft": (["a", "b", "c", "d", "e", "f"], {"a": (0.0, 2.0), "b": (None, 1.0)}, ["e"], [("c", "f")]),
    "bnd": (["a", "b", "c"], {"a": (-1.0, 1.5), "c": (-2.0, None)}, [], []),
}


def build_vm(layout):
    from tf_pwa.variable import VarsManager
    names, bounds, fixed, tied = LAYOUTS[layout]
    with quiet():
        vm = VarsManager()
        for nm in names:
            vm.add_real_var(nm, value=0.5)
        if bounds:
            vm.set_bound(dict(bounds))  # sympy solve ~0.5 s per bound
        for nm in fixed:
            vm.set_fix(nm, 0.5)
        for pair in tied:
            vm.set_same(list(pair))
    alias = {b_: a_ for a_, b_ in tied}
    slots = [nm for nm in names if nm not in alias]
    return vm, slots, alias


def _in_bounds(layout, nm, v, rng):
    lo, hi = LAYOUTS[layout][1].get(nm, (None, None))
    if lo is not None and hi is not None:
        return lo + (hi - lo) * float(rng.uniform(0.15, 0.85))
    if lo is not None:
        return lo + abs(v) + 0.2
    if hi is not None:
        return hi - abs(v) - 0.2
    return v


def make_case(rng, layout, vm, slots, stationary=True):
    """likelihood with its minimum (over the trainable slots) at z_fit; another point z_other well away"""
    n = len(slots)
    a = rng.normal(size=(n, n))
    A = 300.0 * (a @ a.T / n + 0.05 * np.eye(n))
    q = rng.uniform(20.0, 120.0, size=n)
    z_fit = np.array([_in_bounds(layout, nm, float(rng.uniform(-1.2, 1.2)), rng) for nm in slots])
    z_other = np.array([_in_bounds(layout, nm, float(rng.uniform(-1.2, 1.2)), rng) for nm in slots])
    for k in range(n):  # make sure the two points are apart in every coordinate
        if abs(z_other[k] - z_fit[k]) < 0.15:
            z_other[k] = _in_bounds(layout, slots[k], z_fit[k] + 0.4, rng) if slots[k] not in LAYOUTS[layout][1] else z_other[k]
    b = rng.normal(size=n) * 3.0
    if stationary:
        tr = [slots.index(nm) for nm in vm.trainable_vars]
        g = grad_z(b, A, q, z_fit)
        b[tr] -= g[tr]
    return {"layout": layout, "c": float(rng.normal()), "b": b, "A": A, "q": q, "z_fit": z_fit, "z_other": z_other}


def as_dict(slots, alias, z, partial=None):
    d = {nm: float(v) for nm, v in zip(slots, z)}
    for al, nm in alias.items():
        d[al] = d[nm]
    if partial is not None:
        d = {k: v for k, v in d.items() if k in partial}
    return d


def run_entry(vm, slots, alias, case, method, state, form, force_pos=True, correct_params=None, partial=None, direct=None):
    """one call on the real code.  state: 'same' (model holds params) | 'other'.  form: 'dict' | 'FitResult' | 'none'
    direct: None = ConfigLoader.get_params_error, else 'cal_hesse_error' | 'num_hess_inv_3point' | 'cal_hesse_correct'"""
    from tf_pwa.applications import cal_hesse_correct, cal_hesse_error, num_hess_inv_3point
    from tf_pwa.config_loader import ConfigLoader
    from tf_pwa.fit import FitResult
    fcn = EntryFCN(vm, slots, case["c"], case["b"], case["A"], case["q"])
    p_fit = as_dict(slots, alias, case["z_fit"], partial)
    z_entry = case["z_fit"] if state == "same" else case["z_other"]
    with quiet():
        vm.set_all(as_dict(slots, alias, z_entry))
    z_req = np.array(z_entry, dtype=float)
    for k, nm in enumerate(slots):
        if nm in p_fit:
            z_req[k] = p_fit[nm]
    fr = FitResult(dict(p_fit), fcn, 0.0)
    arg = {"dict": p_fit, "FitResult": fr, "none": None}[form]
    if form == "none":
        z_req = np.array(z_entry, dtype=float)
    cfg = StubConfig(fcn, fit_params=fr)
    out = {"z_entry": np.array(z_entry, float), "z_req": z_req, "names": list(vm.trainable_vars), "tr": list(fcn.tr)}
    with quiet(), warnings.catch_warnings(), scratch_cwd() as d:
        warnings.simplefilter("ignore")
        if direct is None:
            kw = {"method": method, "force_pos": force_pos}
            if correct_params is not None:
                kw["correct_params"] = correct_params
            err = ConfigLoader.get_params_error(cfg, arg, data=[None], phsp=[None], **kw)
            out["err"] = {k: float(v) for k, v in err.items()}
            out["order"] = list(err.keys())
            out["inv_he"] = np.array(cfg.inv_he, dtype=float)
            out["fit_error"] = dict(fr.error)
            fr.hess_inv = cfg.inv_he
            fr.save_as(os.path.join(d, "final_params.json"), save_hess=True)
            with open(os.path.join(d, "final_params.json")) as f:
                out["saved"] = json.load(f)
        elif direct == "cal_hesse_error":
            e, inv = cal_hesse_error(fcn, p_fit, check_posi_def=True, force_pos=force_pos, save_npy=False)
            out["err"] = dict(zip(vm.trainable_vars, [float(x) for x in e]))
            out["inv_he"] = np.array(inv, dtype=float)
        elif direct == "num_hess_inv_3point":
            inv = np.array(num_hess_inv_3point(fcn, p_fit), dtype=float)
            out["err"] = dict(zip(vm.trainable_vars, np.sqrt(np.fabs(inv.diagonal())).tolist()))
            out["inv_he"] = inv
        else:
            h = np.array(cal_hesse_correct(fcn, p_fit, correct_params or []), dtype=float)
            inv = np.linalg.inv(h)
            out["err"] = dict(zip(vm.trainable_vars, np.sqrt(np.fabs(inv.diagonal())).tolist()))
            out["inv_he"] = inv
            out["hess"] = h
    out["z_after"] = fcn.z()
    out["log"] = fcn.log
    return out


def fd_hessian(case, z, tr, h=1e-3):
    """independent oracle: central second differences of the plain likelihood VALUE at z over the trainable slots"""
    f = lambda zz: nll_z(case["c"], case["b"], case["A"], case["q"], zz)  # noqa: E731
    m = len(tr)
    Hm = np.zeros((m, m))
    for a_ in range(m):
        for b_ in range(a_, m):
            i, j = tr[a_], tr[b_]
            if i == j:
                zp, zm = z.copy(), z.copy()
                zp[i] += h
                zm[i] -= h
                v = (f(zp) - 2.0 * f(z) + f(zm)) / (h * h)
            else:
                pts = []
                for si, sj in ((1, 1), (1, -1), (-1, 1), (-1, -1)):
                    zz = z.copy()
                    zz[i] += si * h
                    zz[j] += sj * h
                    pts.append(f(zz))
                v = (pts[0] - pts[1] - pts[2] + pts[3]) / (4 * h * h)
            Hm[a_, b_] = Hm[b_, a_] = v
    return Hm


def method_key(method):
    return {None: "default", "correct": "correct", "3-point": "3-point", "hesse": "hesse"}[method]


# --------------------------------------------------------------------------------------------------
# search: the statement on the real code — reported errors = sqrt(diag(H(params)^-1)), H by finite differences
# --------------------------------------------------------------------------------------------------

def search_entry(ctx, res, S, hard):
    rng = np.random.Generator(np.random.Philox(ctx.seed + 90909))
    vms = getattr(ctx, "_c09_entry_vms", None)
    if vms is None:
        vms = {lay: build_vm(lay) for lay in LAYOUTS}
        ctx._c09_entry_vms = vms
    ncase = 0
    worst = 0.0
    worst_ratio = 0.0
    reported = set()

    def judge(label, key, out, case, tol, expect_state=None):
        nonlocal ncase, worst, worst_ratio
        ncase += 1
        tr = out["tr"]
        Hfd = fd_hessian(case, out["z_req"], tr)
        if np.min(np.linalg.eigvalsh((Hfd + Hfd.T) / 2)) <= 0:
            return  # outside the property's hypothesis (never happens with these likelihoods)
        exp = np.sqrt(np.diag(np.linalg.inv(Hfd)))
        got = np.array([out["err"][nm] for nm in out["names"]])
        dev = float(np.max(np.abs(got / exp - 1.0)))
        worst = max(worst, dev)
        worst_ratio = max(worst_ratio, dev / tol)
        if key in reported:
            return
        if not dev <= tol:
            # is it the Hessian of the ENTRY state instead?
            He = fd_hessian(case, out["z_entry"], tr)
            ee = np.sqrt(np.abs(np.diag(np.linalg.inv(He))))
            at_entry = bool(np.max(np.abs(got / ee - 1.0)) <= tol) and not np.array_equal(out["z_entry"], out["z_req"])
            reported.add(key)
            res.fail(key, "%s: reported errors %r but sqrt(diag(H(params)^-1)) = %r with H the central-difference Hessian of the likelihood at the REQUESTED point %r (max rel. deviation %.3g)%s; model held %r on entry" % (
                label, dict(zip(out["names"], got.tolist())), exp.tolist(), out["z_req"].tolist(), dev,
                " — the reported values are sqrt(diag(H^-1)) at the point the model held ON ENTRY" if at_entry else "", out["z_entry"].tolist()),
                {"kind": "entry", "seed": ctx.seed, "label": label})
            return
        if "order" in out and out["order"] != out["names"]:
            reported.add(key)
            res.fail(key + ":names", "%s: error dict keys %r are not trainable_vars %r" % (label, out["order"], out["names"]), {"kind": "entry", "seed": ctx.seed})
            return
        if "fit_error" in out:
            sv = out["saved"]
            ok = out["fit_error"] == out["err"] and sv.get("error") == out["err"] and sv.get("free_params") == out["names"] \
                and np.allclose(np.array(sv.get("hess_inv")), out["inv_he"], rtol=0, atol=0)
            if not ok:
                reported.add(key)
                res.fail("fit:FitResult:error-fields", "%s: FitResult.error / save_as fields differ from the returned errors: error=%r saved=%r returned=%r" % (
                    label, out["fit_error"], {k: sv.get(k) for k in ("error", "free_params")}, out["err"]), {"kind": "entry", "seed": ctx.seed})

    reps = 1 if not hard else 6
    for rep in range(reps):
        for layout, (vm, slots, alias) in vms.items():
            case = make_case(rng, layout, vm, slots, stationary=True)
            bounded = bool(LAYOUTS[layout][1])
            for method in METHODS:
                tol = 2e-4 if (method == "3-point" and bounded) else 2e-5
                for state in ("same", "other"):
                    for form in ("dict", "FitResult"):
                        out = run_entry(vm, slots, alias, case, method, state, form)
                        judge("get_params_error(params=%s, method=%r) on layout %s, model holds %s" % (form, method, layout, "params" if state == "same" else "OTHER values"),
                              "config_loader:get_params_error:%s:%s" % (method_key(method), "state-equals-params" if state == "same" else "state-differs"), out, case, tol)
                # force_pos=False, params=None (errors at the CURRENT state)
                out = run_entry(vm, slots, alias, case, method, "same", "none", force_pos=False)
                judge("get_params_error(params=None, method=%r, force_pos=False) on layout %s" % (method, layout),
                      "config_loader:get_params_error:%s:params-none" % method_key(method), out, case, tol)
            # correct_params given (method stays None -> cal_hesse_error unless method says otherwise)
            cp = [vm.trainable_vars[int(i)] for i in rng.permutation(len(vm.trainable_vars))[:2]]
            for method in (None, "correct"):
                out = run_entry(vm, slots, alias, case, method, "other", "dict", correct_params=cp)
                judge("get_params_error(params=dict, method=%r, correct_params=%r) on layout %s, model holds OTHER values" % (method, cp, layout),
                      "config_loader:get_params_error:correct_params:%s" % method_key(method), out, case, 2e-4)
            # the functions underneath, called directly
            for direct in ("cal_hesse_error", "num_hess_inv_3point", "cal_hesse_correct"):
                tol = 2e-4 if (direct == "num_hess_inv_3point" and bounded) else 2e-5
                out = run_entry(vm, slots, alias, case, None, "other", "dict", direct=direct)
                judge("%s(fcn, params) on layout %s, model holds OTHER values" % (direct, layout), "applications:%s:state-differs" % direct, out, case, tol)
        # a point that is NOT stationary, free parameters only: every method still reports sqrt(diag(H(params)^-1))
        vm, slots, alias = vms["free"]
        case = make_case(rng, "free", vm, slots, stationary=False)
        for method in METHODS:
            out = run_entry(vm, slots, alias, case, method, "other", "dict", partial=None if rep % 2 else ["a", "c", "d"])
            judge("get_params_error(params=%s dict, method=%r) at a non-stationary point, model holds OTHER values" % ("full" if rep % 2 else "PARTIAL", method),
                  "config_loader:get_params_error:%s:non-stationary" % method_key(method), out, case, 2e-5)

    # corr_coef_matrix: rho_ij = V_ij / (sigma_i sigma_j)
    from tf_pwa.applications import corr_coef_matrix
    for k in range(4 if not hard else 40):
        m = int(rng.integers(1, 6))
        a = rng.normal(size=(m, m))
        V = 0.01 * (a @ a.T / m + 0.05 * np.eye(m))
        cc = np.array(corr_coef_matrix(V))
        s = np.sqrt(np.diag(V))
        exp = V / s[:, None] / s[None, :]
        ncase += 1
        if not (cc.shape == V.shape and np.all(np.abs(cc - exp) <= 1e-12) and np.all(np.abs(np.diag(cc) - 1.0) <= 1e-12) and np.all(np.abs(cc) <= 1 + 1e-12)):
            res.fail("applications:corr_coef_matrix", "corr_coef_matrix(V=%r) = %r, V_ij/(sigma_i sigma_j) = %r" % (V.tolist(), cc.tolist(), exp.tolist()), {"kind": "entry", "seed": ctx.seed})
            break
    # error_print: the parts that do not round (no error / non-positive / nan error) and, for a positive error, the
    # printed pair read back: both within half a unit of the last printed digit, at most 15% of the error
    from tf_pwa.utils import error_print
    for k in range(60 if not hard else 2000):
        x = float(rng.normal()) * 10.0 ** int(rng.integers(-4, 5))
        e = float(rng.uniform(0.1, 1.0)) * 10.0 ** int(rng.integers(-6, 5))
        ncase += 1
        bad = None
        if error_print(x) != "{}".format(x):
            bad = "error_print(x) without error = %r" % error_print(x)
        for e0 in (0.0, -e, float("nan")):
            if bad is None and error_print(x, e0) != "{} ? {}".format(x, e0):
                bad = "error_print(%r, %r) = %r" % (x, e0, error_print(x, e0))
        if bad is None:
            txt = error_print(x, e)
            try:
                xs, es = txt.split(" +/- ")
                xp, ep = float(xs), float(es)
            except ValueError:
                xp = ep = float("nan")
            d = math.ceil(math.log10(e))
            b_err = e / 10.0 ** d
            dig = 2 if b_err < 0.355 else (1 if b_err < 0.950 else 0)
            unit = 10.0 ** (d - dig)
            if not (abs(ep - e) <= 0.5 * unit * (1 + 1e-9) and abs(xp - x) <= 0.5 * unit * (1 + 1e-9) + 1e-12 * abs(x) and abs(ep - e) <= 0.15 * e):
                bad = "error_print(%r, %r) = %r: printed pair is not the rounded input (unit of the last digit %g)" % (x, e, txt, unit)
        if bad:
            res.fail("utils:error_print", bad, {"kind": "entry", "seed": ctx.seed})
            break
    res.coverage["search_entry_cases"] = int(ncase)
    res.coverage["search_entry_max_rel_dev"] = worst
    res.coverage["search_entry_max_dev_over_tolerance"] = worst_ratio
    search_real(ctx, res, hard)


# --------------------------------------------------------------------------------------------------
# search on a small REAL ConfigLoader model (three spin-1 resonances, scalar finals, one free bounded mass)
# --------------------------------------------------------------------------------------------------

_REAL_CFG = {
    "data": {"dat_order": ["B", "C", "D"]},
    "decay": {"A": [["R_BC", "D"], ["R_BD", "C"], ["R_CD", "B"]], "R_BC": ["B", "C"], "R_BD": ["B", "D"], "R_CD": ["C", "D"]},
    "particle": {
        "$top": {"A": {"J": 0, "P": -1, "mass": 4.6}},
        "$finals": {"B": {"J": 0, "P": -1, "mass": 2.00698}, "C": {"J": 0, "P": -1, "mass": 2.01028}, "D": {"J": 0, "P": -1, "mass": 0.13957}},
        "R_BC": {"J": 1, "Par": -1, "m0": 4.16, "g0": 0.1},
        "R_BD": {"J": 1, "Par": -1, "m0": 2.43, "g0": 0.3, "float": "m", "m_min": 2.23, "m_max": 2.63},
        "R_CD": {"J": 1, "Par": -1, "m0": 2.42, "g0": 0.03},
    },
}
_REAL_GEN = {
    "A->R_BC.DR_BC->B.C_total_0r": 1.0, "A->R_BC.DR_BC->B.C_total_0i": 0.0, "A->R_BD.CR_BD->B.D_total_0r": 1.2,
    "A->R_BD.CR_BD->B.D_total_0i": 0.8, "A->R_CD.BR_CD->C.D_total_0r": 0.7, "A->R_CD.BR_CD->C.D_total_0i": -1.1, "R_BD_mass": 2.45,
}


def search_real(ctx, res, hard):
    import copy
    import tensorflow as tf
    from tf_pwa.config_loader import ConfigLoader
    np.random.seed(ctx.seed + 4009)
    tf.random.set_seed(ctx.seed + 4009)
    out_cov = {}
    with quiet(), warnings.catch_warnings(), scratch_cwd():
        warnings.simplefilter("ignore")
        config = ConfigLoader(copy.deepcopy(_REAL_CFG))
        config.get_amplitude()
        phsp = config.generate_phsp(1500 if not hard else 4000)
        config.set_params(dict(_REAL_GEN))
        toy = config.generate_toy(600 if not hard else 1500)
        fr = config.fit(data=[toy], phsp=[phsp], print_init_nll=False)
        names = list(config.vm.trainable_vars)
        p_fit = {k: float(v) for k, v in fr.params.items()}
        fcn = config.get_fcn([[toy], [phsp], None, None])
        # independent oracle: central differences of the gradient of the likelihood at p_fit (full dict installed each time)
        hstep = 1e-4
        Hfd = np.zeros((len(names), len(names)))
        for i, nm in enumerate(names):
            gs = []
            for sgn in (1.0, -1.0):
                q = dict(p_fit)
                q[nm] = p_fit[nm] + sgn * hstep
                _, g = fcn.nll_grad(q)
                gs.append(np.array(g, dtype=float))
            Hfd[i] = (gs[0] - gs[1]) / (2 * hstep)
        Hfd = (Hfd + Hfd.T) / 2
        _, g0 = fcn.nll_grad(p_fit)
        g0 = np.array(g0, dtype=float)
    eig = np.linalg.eigvalsh(Hfd)
    out_cov["search_real_hessian_min_eig"] = float(eig[0])
    out_cov["search_real_gradient_norm_at_fit"] = float(np.max(np.abs(g0)))
    if not (fr.success and eig[0] > 0 and np.max(np.abs(g0)) < 1e-2 * math.sqrt(eig[0])):
        res.notes.append("real-model entry-point search skipped: the toy fit did not reach a regular minimum (success=%r, min eigenvalue %r, |grad| %r)" % (fr.success, float(eig[0]), float(np.max(np.abs(g0)))))
        res.coverage.update(out_cov)
        return
    ref = np.sqrt(np.diag(np.linalg.inv(Hfd)))
    p_other = dict(p_fit)
    for k in names:
        p_other[k] = p_fit[k] + 0.03 if k.endswith("_mass") else 0.6 * p_fit[k] + 0.3
    p_other["R_CD_width"] = p_fit["R_CD_width"] * 1.5  # a FIXED variable that differs too: `params` must install it
    cases = [(m, "same", "dict", False) for m in (None, "3-point", "hesse")]
    cases += [(None, "other", "FitResult", False), ("3-point", "other", "FitResult", False), ("hesse", "other", "dict", False),
              ("3-point", "other", "dict", True), ("hesse", "other", "FitResult", True)]
    if hard:
        cases += [(m, "other", f, b) for m in (None, "correct", "3-point", "hesse") for f in ("dict", "FitResult") for b in (False, True)]
    ncase, worst = 0, 0.0
    reported = set()
    for method, state, form, bounded in cases:
        with quiet(), warnings.catch_warnings(), scratch_cwd():
            warnings.simplefilter("ignore")
            config.set_params(p_fit if state == "same" else p_other)
            if bounded:
                config.vm.set_bound(dict(config.bound_dic))
            try:
                err = config.get_params_error(fr if form == "FitResult" else dict(p_fit), data=[toy], phsp=[phsp], method=method)
            finally:
                if bounded:
                    config.vm.remove_bound()
            fit_err = dict(fr.error)
        got = np.array([float(err[k]) for k in names])
        dev = float(np.max(np.abs(got / ref - 1.0)))
        ncase += 1
        worst = max(worst, dev)
        key = "config_loader:get_params_error:%s:real-model:%s" % (method_key(method), "state-equals-params" if state == "same" else "state-differs")
        if not dev <= 2e-3 and key not in reported:
            reported.add(key)
            res.fail(key, "real 3-resonance model, get_params_error(params=%s of the fit, method=%r)%s while the model holds %s: reported %r, sqrt(diag(H(params)^-1)) with the central-difference Hessian of fcn at the fit point = %r (max rel. deviation %.3g)" % (
                form, method, " with the mass bound installed in the VarsManager" if bounded else "", "the fit point" if state == "same" else "OTHER values (trainable and one fixed variable)",
                dict(zip(names, got.tolist())), ref.tolist(), dev), {"kind": "entry-real", "seed": ctx.seed})
        if list(err.keys()) != names or {k: float(v) for k, v in fit_err.items()} != {k: float(v) for k, v in err.items()}:
            res.fail("fit:FitResult:error-fields:real-model", "get_params_error keys %r / FitResult.error %r differ from trainable_vars %r / the returned errors" % (list(err.keys()), fit_err, names), {"kind": "entry-real", "seed": ctx.seed})
    out_cov["search_real_cases"] = ncase
    out_cov["search_real_max_rel_dev"] = worst
    res.coverage.update(out_cov)


# --------------------------------------------------------------------------------------------------
# correspondence: the statement sequences of templates/ErrEntry.lean.in vs the real entry points
# --------------------------------------------------------------------------------------------------

_BKIND = {"(b-a)*(sin(x)+1)/2+a": 1, "b+1-sqrt(x**2+1)": 2, "a-1+sqrt(x**2+1)": 3}


def gpe_line(vm, slots, alias, case, out, method, form, p_names, fp, cidx, early=False):
    tr = out["tr"]
    sl = lambda nm: slots.index(alias.get(nm, nm))  # noqa: E731
    kinds, bab = [], []
    for nm in vm.trainable_vars:
        if nm in vm.bnd_dic:
            bd = vm.bnd_dic[nm]
            kinds.append(_BKIND[bd.func])
            bab += [bd.lower if bd.lower is not None else -1e9, bd.upper if bd.upper is not None else 1e9]
        else:
            kinds.append(0)
            bab += [0.0, 0.0]
    ps = [sl(nm) for nm, _ in p_names]
    pv = [v for _, v in p_names]
    n = len(slots)
    ints = tr + ps + list(cidx) + kinds
    fl = [case["c"]] + list(case["b"]) + list(np.asarray(case["A"]).flatten()) + list(case["q"]) + bab + list(out["z_entry"]) + pv
    return "C09y gpe %s %s %d %d %d %d %d %d %s %s" % (
        {None: "none"}.get(method, method), {"dict": "dict", "FitResult": "fit", "none": "none"}[form], int(early), int(fp),
        n, len(tr), len(ps), len(cidx), " ".join(str(i) for i in ints), H(fl))


def correspond_entry(ctx, res, S):
    from tf_pwa.applications import corr_coef_matrix
    from tf_pwa.config_loader import ConfigLoader
    rng = np.random.Generator(np.random.Philox(ctx.seed + 90009))
    vms = getattr(ctx, "_c09_entry_vms", None)
    if vms is None:
        vms = {lay: build_vm(lay) for lay in LAYOUTS}
        ctx._c09_entry_vms = vms
    lines, tags, runs = [], [], {}

    def add(tag, line):
        tags.append(tag)
        lines.append(line)

    k = 0
    for rep in range(1 if ctx.quick else 12):
        for layout, (vm, slots, alias) in vms.items():
            case = make_case(rng, layout, vm, slots, stationary=(rep % 2 == 0))
            combos = [(m, st, fm, True, None, None) for m in METHODS for st in ("same", "other") for fm in ("dict", "FitResult")]
            combos += [(m, "other", "none", False, None, None) for m in METHODS]
            cp = [int(i) for i in rng.permutation(len(vm.trainable_vars))[:2]]
            combos += [(None, "other", "dict", True, cp, None), ("correct", "other", "dict", False, cp, None), ("correct", "same", "FitResult", True, cp[:1], None)]
            part = [nm for nm in slots if rng.random() < 0.6] or slots[:1]
            combos += [(m, "other", "dict", True, None, part) for m in METHODS]
            for method, state, form, fp, cidx, partial in combos:
                cpn = None if cidx is None else [vm.trainable_vars[i] for i in cidx]
                out = run_entry(vm, slots, alias, case, method, state, form, force_pos=fp, correct_params=cpn, partial=partial)
                p_names = [] if form == "none" else list(as_dict(slots, alias, case["z_fit"], partial).items())
                runs[k] = (layout, method, state, form, fp, cidx, out)
                add(("gpe", k, 0), gpe_line(vm, slots, alias, case, out, method, form, p_names, fp, cidx or []))
                if method == "3-point" and state == "other":
                    add(("gpe", k, 1), gpe_line(vm, slots, alias, case, out, method, form, p_names, fp, cidx or [], early=True))
                k += 1
    # using_cached
    cached = []
    for j in range(3 if ctx.quick else 30):
        vm, slots, alias = vms["free"]
        m = len(vm.trainable_vars)
        a = rng.normal(size=(m, m))
        V = 0.01 * (a @ a.T / m + 0.05 * np.eye(m)) * (1.0 if j % 3 else -1.0)  # a negative diagonal: sqrt(fabs())
        z0 = rng.normal(size=m)
        fcn = EntryFCN(vm, slots, 0.0, np.zeros(m), np.eye(m), np.zeros(m))
        with quiet():
            vm.set_all(as_dict(slots, alias, z0))
            cfg = StubConfig(fcn)
            cfg.inv_he = V.copy()
            err = ConfigLoader.get_params_error(cfg, {"a": 9.0}, using_cached=True, method=[None, "3-point", "hesse"][j % 3])
        cached.append((V, z0, [float(err[nm]) for nm in vm.trainable_vars], fcn.z(), len(fcn.log), np.array(cfg.inv_he)))
        add(("cached", j), "C09y cached %d %s" % (m, H(list(V.flatten()) + list(z0))))
    ccs = []
    for j in range(4 if ctx.quick else 40):
        m = int(rng.integers(1, 6))
        a = rng.normal(size=(m, m))
        V = 0.01 * (a @ a.T / m + 0.05 * np.eye(m))
        ccs.append((V, np.array(corr_coef_matrix(V))))
        add(("cc", j), "C09y cc %d %s" % (m, H(V.flatten())))

    outl = ctx.model.query(lines)
    if "bad-op" in outl:
        res.broke("model driver bad-op (ErrEntry)", lines[outl.index("bad-op")][:300])
        return
    ans = {t: [C.h2f(x) for x in o.split()] for t, o in zip(tags, outl)}

    bad, early_match, early_seen = [], 0, 0
    for k, (layout, method, state, form, fp, cidx, out) in runs.items():
        nt, ns = len(out["tr"]), len(out["z_entry"])
        got_e = np.array([out["err"][nm] for nm in out["names"]])
        got_v = out["inv_he"]

        def cmp(mv):
            me, mvv, ms = np.array(mv[:nt]), np.array(mv[nt:nt + nt * nt]).reshape(nt, nt), np.array(mv[nt + nt * nt:])
            ok_e = bool(np.all(np.abs(me - got_e) <= 1e-8 * np.abs(got_e)))
            ok_v = bool(np.all(np.abs(mvv - got_v) <= 1e-8 * np.max(np.abs(got_v))))
            exact_state = not (cidx and method == "correct")
            ok_s = bool(np.array_equal(ms, out["z_after"])) if exact_state else bool(np.all(np.abs(ms - out["z_after"]) <= 1e-9))
            return ok_e and ok_v, ok_s, me, ms

        ok, ok_s, me, ms = cmp(ans[("gpe", k, 0)])
        if ("gpe", k, 1) in ans:
            early_seen += 1
            ok1, _, _, _ = cmp(ans[("gpe", k, 1)])
            if ok1 and not ok:
                early_match += 1
                continue
        if not ok:
            bad.append({"what": "errors / inv_he", "layout": layout, "method": method, "state": state, "params": form, "force_pos": fp, "correct_params_idx": cidx,
                        "impl": got_e.tolist(), "model": me.tolist()})
        elif not ok_s:
            bad.append({"what": "state after the call", "layout": layout, "method": method, "state": state, "params": form, "correct_params_idx": cidx,
                        "impl": out["z_after"].tolist(), "model": ms.tolist(), "entry": out["z_entry"].tolist(), "requested": out["z_req"].tolist()})
    if early_match:
        res.broke("correspondence ErrEntryF.entry3pt vs num_hess_inv_3point: the working tree implements the text that reads x0 BEFORE fcn(params) (entry3pt early = true, refuted by three_point_early_violates): Hessian and dy/dx are taken at the state held on entry",
                  {"cases_matching_early_text": early_match, "of": early_seen})
        ctx.suspect = True
    if bad:
        res.broke("correspondence ErrEntryF.getParamsError vs ConfigLoader.get_params_error (synthetic likelihood over a real VarsManager)", {"n": len(bad), "first": bad[:2]})
        ctx.suspect = True
    nbad, first = 0, None
    for j, (V, z0, err, zaft, nlog, inv) in enumerate(cached):
        mv = ans[("cached", j)]
        m = len(z0)
        if not (np.allclose(mv[:m], err, rtol=1e-14, atol=0) and np.array_equal(np.array(mv[m:m + m * m]).reshape(m, m), inv) and np.array_equal(np.array(mv[m + m * m:]), zaft) and nlog == 0):
            nbad += 1
            first = first or {"V": V.tolist(), "impl": err, "model": mv[:m], "state_after": zaft.tolist(), "likelihood_evaluations": nlog}
    if nbad:
        res.broke("correspondence ErrEntryF.getParamsError(using_cached) vs ConfigLoader.get_params_error", {"n": nbad, "first": first})
    nbad, first = 0, None
    for j, (V, cc) in enumerate(ccs):
        m = len(V)
        mv = np.array(ans[("cc", j)]).reshape(m, m)
        if not np.all(np.abs(mv - cc) <= 1e-13):
            nbad += 1
            first = first or {"V": V.tolist(), "impl": cc.tolist(), "model": mv.tolist()}
    if nbad:
        res.broke("correspondence ErrEntryF.corrCoef vs tf_pwa.applications.corr_coef_matrix", {"n": nbad, "first": first})
    res.coverage.update({"entry_lines": len(lines), "entry_get_params_error_cases": len(runs), "entry_three_point_early_text_matches": early_match})
    if "traces_validated_against_impl" in res.coverage:
        res.coverage["traces_validated_against_impl"] += len(lines)
        res.coverage["evaluations"] += len(lines)
