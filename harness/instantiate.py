"""Instantiate lean/templates/*.lean.in at the scalars they declare.

A template is ordinary Lean text using the type `K` and the vocabulary of TfPwaV.Model.ScalarF /
ScalarQ / TfPwaV.Proofs.ScalarR.  First line: `--@scalars F R Q` (subset).  `@S@` in the text is
replaced by the scalar tag, so the namespace is e.g. `TfPwaV.KinF` / `TfPwaV.KinR`.
Lines starting with `--@only F ` are kept (without the marker) only in that instance.
The same text therefore defines the executable Float model, the exact Rat model and the ℝ model
the theorems are about.
"""
import glob
import os
import re

import common as C

PRELUDE = {
    "F": ("import TfPwaV.Model.ScalarF\nimport TfPwaV.Model.Util", "open TfPwaV.ScalarF", False),
    "Q": ("import TfPwaV.Model.ScalarQ", "open TfPwaV.ScalarQ", False),
    "R": ("import TfPwaV.Proofs.ScalarR", "open TfPwaV.ScalarR", True),
}


def instantiate_all():
    made = []
    for path in sorted(glob.glob(os.path.join(C.LEAN, "templates", "*.lean.in"))):
        name = os.path.basename(path)[: -len(".lean.in")]
        src = open(path).read()
        first = src.splitlines()[0]
        m = re.match(r"--@scalars\s+(.*)", first)
        tags = m.group(1).split() if m else ["F", "R"]
        body = "\n".join(src.splitlines()[1:])
        for t in tags:
            imp, opn, noncomp = PRELUDE[t]
            lines = []
            for line in body.splitlines():
                mm = re.match(r"--@only\s+(\w+)\s(.*)", line)
                if mm:
                    if t in mm.group(1):
                        lines.append(mm.group(2))
                    continue
                lines.append(line)
            txt = "\n".join(lines).replace("@S@", t)
            extra_imports = "\n".join(re.findall(r"^--@import\s+(.*)$", txt, flags=re.M))
            extra_imports = "\n".join("import " + i.replace("@S@", t) for i in extra_imports.split("\n") if i)
            out = "-- GENERATED from templates/%s.lean.in by harness/instantiate.py; do not edit\n%s\n%s\n%s\n%s%s\n" % (
                name, imp, extra_imports, opn, "noncomputable section\n" if noncomp else "", txt)
            dst = os.path.join(C.GEN, "%s%s.lean" % (name, t))
            C.write_if_changed(dst, out)
            made.append(os.path.relpath(dst, C.LEAN))
    return made


if __name__ == "__main__":
    print(instantiate_all())
