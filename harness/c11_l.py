"""C11 (extension, Props/C11e.lean): the DecayChain bookkeeping around the cascade model.

Correspondence of `templates/CascadeL.lean.in` (Float instance) + `Model/ChainL.lean` with the real class
`tf_pwa.data_trans.helicity_angle.HelicityAngle` (and `HelicityAngle1.get_phsp_factor`) on all 3..5-body topologies in
SEEDED LISTING ORDERS of the decays (not only depth-first pre-order), and the model-independent search of the same
clauses on the implementation."""
import math

import numpy as np

import common as C


# ---------------------------------------------------------------------------------------------
# chains in arbitrary listing order, particles with nominal masses
# ---------------------------------------------------------------------------------------------

def _mp_class():
    from tf_pwa.particle import BaseParticle

    class MP(BaseParticle):
        """BaseParticle with the `get_mass()` accessor HelicityAngle needs (tf_pwa.amp.Particle has it)"""

        def get_mass(self):
            return self.mass
    return MP


def topo_specs(n):
    """[(core, o1, o2) names] for every topology with n finals, from the library's own enumeration"""
    from tf_pwa.particle import BaseParticle, DecayChain
    top = BaseParticle("A")
    finals = [BaseParticle(c) for c in "BCDEF"[:n]]
    out = []
    for ch in DecayChain.from_particles(top, finals):
        ren = {}
        for d in ch:
            for p in [d.core] + list(d.outs):
                if str(p) not in ren:
                    ren[str(p)] = str(p) if len(str(p)) == 1 else "R%d" % (len([v for v in ren.values() if v.startswith("R")]) + 1)
        out.append([(ren[str(d.core)], ren[str(d.outs[0])], ren[str(d.outs[1])]) for d in ch])
    return out


def make_chain(spec, order, masses=None, swap=()):
    """spec: [(core, o1, o2)] names; order: listing order; swap: indices (into spec) whose outs are exchanged"""
    from tf_pwa.particle import BaseDecay, DecayChain
    MP = _mp_class()
    names = []
    for c, a, b in spec:
        for x in (c, a, b):
            if x not in names:
                names.append(x)
    part = {x: MP(x, mass=(None if masses is None else masses[x])) for x in names}
    decs = []
    for k, (c, a, b) in enumerate(spec):
        if k in swap:
            a, b = b, a
        decs.append(BaseDecay(part[c], [part[a], part[b]], disable=True))
    return DecayChain([decs[i] for i in order]), part


def dfs_order(spec):
    core = {c: k for k, (c, a, b) in enumerate(spec)}
    tops = [c for c, _, _ in spec if not any(c in (a, b) for _, a, b in spec)]
    out = []

    def rec(p):
        if p in core:
            k = core[p]
            out.append(k)
            rec(spec[k][1])
            rec(spec[k][2])
    rec(tops[0])
    return out


def listings(spec, rnd, k):
    """k listing orders: depth-first pre-order, its reverse, then seeded permutations (never only the pre-order)"""
    d = dfs_order(spec)
    outl = [list(d), list(reversed(d))]
    while len(outl) < k:
        p = list(d)
        rnd.shuffle(p)
        outl.append(p)
    return outl[:k]


def nominal_masses(spec, rnd):
    """nominal masses with every decay above threshold"""
    core = {c: (a, b) for c, a, b in spec}
    m = {}

    def rec(p):
        if p in m:
            return m[p]
        if p in core:
            a, b = core[p]
            m[p] = rec(a) + rec(b) + rnd.choice([0.05, 0.3, 1.0]) * rnd.uniform(0.5, 1.0)
        else:
            m[p] = rnd.choice([0.0, 0.14, 0.5, 0.94])
        return m[p]
    for c, _, _ in spec:
        rec(c)
    return m


def ids_of(part, rnd):
    """seeded numbering of the particles (so that no order of the numbers is the order of anything else)"""
    names = list(part)
    nums = list(range(len(names)))
    rnd.shuffle(nums)
    return {part[x]: k for x, k in zip(names, nums)}, {x: k for x, k in zip(names, nums)}


def head_tokens(chain, pid, mass_of_id):
    P = len(mass_of_id)
    toks = [float(len(list(chain))), float(pid[chain.top])]
    for d in chain:
        toks += [float(pid[d.core]), float(pid[d.outs[0]]), float(pid[d.outs[1]])]
    toks.append(float(P))
    toks += [float(mass_of_id[k]) for k in range(P)]
    return toks


def enc(toks):
    return " ".join(C.f2h(x) for x in toks)


def _picks(ctx, rnd):
    picks = []
    for n in (3, 4, 5):
        specs = topo_specs(n)
        idx = list(range(len(specs)))
        if n == 5 and ctx.quick:
            idx = sorted(rnd.sample(idx, 10))
        for ci in idx:
            picks.append((n, ci, specs[ci]))
    return picks


# ---------------------------------------------------------------------------------------------
# (1) build_data / find_variable in arbitrary listing order
# ---------------------------------------------------------------------------------------------

def correspond_listed(ctx, res):
    import random
    import tensorflow as tf
    from tf_pwa.data_trans.helicity_angle import HelicityAngle
    rnd = random.Random(ctx.seed * 15485863 + 1105)
    N = 3 if ctx.quick else 12
    nlist = 3 if ctx.quick else 6
    lines, meta = [], []
    shape_lines, shape_meta = [], []
    n_nondfs = 0
    for n, ci, spec in _picks(ctx, rnd):
        d0 = dfs_order(spec)
        for li, order in enumerate(listings(spec, rnd, nlist)):
            swap = () if li < 2 else tuple(k for k in range(len(spec)) if rnd.random() < 0.25)
            ch, part = make_chain(spec, order, swap=swap)
            pobj, pname = ids_of(part, rnd)
            decs = list(ch)
            if [d.core for _, d in ch.depth_first()] != [d.core for d in decs]:
                n_nondfs += 1
            # seeded masses above threshold (N events), angles per LISTED decay
            mass = {}
            byc = {d.core: d for d in decs}

            def m_of(p):
                if p in mass:
                    return mass[p]
                if p in byc:
                    lo = sum(m_of(o) for o in byc[p].outs)
                    mass[p] = lo + np.array([rnd.choice([0.02, 0.3, 1.0]) * rnd.uniform(0.5, 1.0) for _ in range(N)])
                else:
                    mass[p] = np.full(N, rnd.choice([0.0, 0.14, 0.5, 0.94]))
                return mass[p]
            m_of(ch.top)
            cos = [np.array([rnd.uniform(-0.99, 0.99) for _ in range(N)]) for _ in decs]
            phi = [np.array([rnd.uniform(-3.13, 3.13) for _ in range(N)]) for _ in decs]
            ha = HelicityAngle(ch)
            ms = {k: tf.constant(v) for k, v in mass.items()}
            p4 = ha.build_data(ms, [tf.constant(c) for c in cos], [tf.constant(c) for c in phi])
            dat = ha.cal_angle(p4)
            ms2, cos2, phi2 = ha.find_variable(dat)
            # scalar-free bookkeeping
            toks_int = [len(decs), pobj[ch.top]] + [x for d in decs for x in (pobj[d.core], pobj[d.outs[0]], pobj[d.outs[1]])]
            shape_lines.append("C11s shape " + " ".join(str(x) for x in toks_int))
            pos = {d: j for j, d in enumerate(decs)}
            finals_df = []

            def leaves(p):
                if p in byc:
                    leaves(byc[p].outs[0]); leaves(byc[p].outs[1])
                else:
                    finals_df.append(pobj[p])
            leaves(ch.top)
            shape_meta.append({"chain": str(ch), "tops": [pobj[ch.top]], "df": [pos[d] for _, d in ch.depth_first()], "leaves": finals_df,
                               "all": [pobj[p] for p in ha.get_all_mass({})] if all(getattr(p, "mass", None) is not None for p in part.values()) else None,
                               "allp": [pobj[p] for p in ch.get_all_particles()]})
            for k in range(N):
                mid = {pobj[p]: float(v[k]) for p, v in mass.items()}
                head = head_tokens(ch, pobj, mid)
                tail = [float(c[k]) for c in cos] + [float(c[k]) for c in phi]
                lines += ["C11l build " + enc(head + tail), "C11l round " + enc(head + tail)]
                meta.append({
                    "n": n, "chain_index": ci, "chain": str(ch), "order": order, "swap": list(swap), "event": k,
                    "p4": {pobj[p]: [float(x) for x in v.numpy()[k]] for p, v in p4.items()},
                    "ms2": {pobj[p]: float(v.numpy()[k]) for p, v in ms2.items()},
                    "cos2": [float(c.numpy()[k]) for c in cos2], "phi2": [float(c.numpy()[k]) for c in phi2],
                    "cos": [float(c[k]) for c in cos], "phi": [float(c[k]) for c in phi],
                    "m0": float(mass[ch.top][k]), "sin_min": min(math.sqrt(max(1 - c[k] ** 2, 0.0)) for c in cos),
                    "nondfs": d0 != order,
                })
    out = ctx.model.query(shape_lines + lines)
    sh, out = out[:len(shape_lines)], out[len(shape_lines):]
    for line, mt in zip(sh, shape_meta):
        if line == "bad-op":
            res.broke("model driver bad-op (ChainL.shape)", shape_lines[0])
            return
        got = [[int(x) for x in part_.split()] for part_ in line.split("|")]
        want = [mt["tops"], mt["df"], mt["leaves"], mt["allp"]]
        if got != want:
            res.broke("correspondence ChainL (tops / depth_first order / finals / get_all_particles) vs DecayChain", {"chain": mt["chain"], "model": got, "impl": want})
            return
    nbad, worst_p, worst_a, first, nskip = 0, 0.0, 0.0, None, 0
    for i, mt in enumerate(meta):
        lb, lr = out[2 * i], out[2 * i + 1]
        if lb == "bad-op" or lr == "bad-op":
            res.broke("model driver bad-op (CascadeL)", lines[2 * i])
            return
        vb = [C.h2f(x) for x in lb.split()]
        vr = [C.h2f(x) for x in lr.split()]
        mp = {int(vb[5 * k]): vb[5 * k + 1:5 * k + 5] for k in range(len(vb) // 5)}
        if sorted(mp) != sorted(mt["p4"]):
            res.broke("correspondence CascadeL.buildDataL: set of final particles", {"chain": mt["chain"], "model": sorted(mp), "impl": sorted(mt["p4"])})
            return
        ep = max(float(np.max(np.abs(np.array(mp[k]) - np.array(mt["p4"][k])))) for k in mp) / mt["m0"]
        P = int(vr[0])
        mm = {int(vr[1 + 2 * k]): vr[2 + 2 * k] for k in range(P)}
        nd = (len(vr) - 1 - 2 * P) // 2
        mc, mph = vr[1 + 2 * P:1 + 2 * P + nd], vr[1 + 2 * P + nd:]
        if sorted(mm) != sorted(mt["ms2"]) or nd != len(mt["cos2"]):
            res.broke("correspondence CascadeL.roundL: keys of ms / number of angles", {"chain": mt["chain"], "model": [sorted(mm), nd], "impl": [sorted(mt["ms2"]), len(mt["cos2"])]})
            return
        s2 = mt["sin_min"] ** 2
        ea = max(abs(mm[k] ** 2 - mt["ms2"][k] ** 2) for k in mm) / mt["m0"] ** 2
        for j in range(nd):
            ea = max(ea, abs(mc[j] - mt["cos2"][j]) * s2, abs(mph[j] - mt["phi2"][j]) * s2)
        if mt["sin_min"] < 1e-3:
            nskip += 1
            continue
        worst_p, worst_a = max(worst_p, ep), max(worst_a, ea)
        if not (ep < 1e-10 and ea < 1e-9):
            nbad += 1
            if first is None:
                first = {k: mt[k] for k in ("chain", "n", "chain_index", "order", "swap", "cos", "phi", "cos2", "phi2")}
                first.update({"err_momenta": ep, "err_round": ea, "model_cos": mc, "model_phi": mph})
    res.coverage["listed_events"] = len(meta)
    res.coverage["listed_chain_listings"] = len(shape_lines)
    res.coverage["listed_not_depth_first"] = n_nondfs
    res.coverage["listed_worst_err_momenta"] = worst_p
    res.coverage["listed_worst_err_round"] = worst_a
    res.coverage["listed_skipped_near_pole"] = nskip
    res.coverage["traces_validated_against_impl"] = res.coverage.get("traces_validated_against_impl", 0) + 2 * (len(meta) - nskip) + len(shape_lines)
    res.samples.append({"op": lines[0][:160], "model": out[0][:160]})
    if nbad:
        res.broke("correspondence CascadeL (listing order) vs HelicityAngle.build_data / find_variable", {"n": nbad, "first": first})


# ---------------------------------------------------------------------------------------------
# (2)+(3) get_mass_range / mass_linspace / get_all_mass / get_phsp_factor / generate_p_mass
# ---------------------------------------------------------------------------------------------

def _ulp_close(a, b, k=4):
    if a == b:
        return True
    return abs(a - b) <= k * np.spacing(max(abs(a), abs(b)))


def correspond_mass(ctx, res):
    import random
    import tensorflow as tf
    from tf_pwa.data_trans.helicity_angle import HelicityAngle, HelicityAngle1
    rnd = random.Random(ctx.seed * 32452843 + 1106)
    nlist = 2 if ctx.quick else 4
    lines, checks = [], []
    for n, ci, spec in _picks(ctx, rnd):
        nom = nominal_masses(spec, rnd)
        for li, order in enumerate(listings(spec, rnd, nlist + 1)[1:]):
            ch, part = make_chain(spec, order, masses=nom)
            pobj, pname = ids_of(part, rnd)
            ha = HelicityAngle(ch)
            mid = {pname[x]: nom[x] for x in nom}
            head = head_tokens(ch, pobj, mid)
            inner = [x for x in nom if any(x == c for c, _, _ in spec) and any(x in (a, b) for _, a, b in spec)]
            # get_all_mass: keys in insertion order, values
            gam = ha.get_all_mass({})
            keys = [pobj[p] for p in gam]
            if keys != [pobj[p] for p in ch.get_all_particles()] or any(float(gam[p].numpy()) != nom[str(p)] for p in gam):
                res.broke("get_all_mass({}) is not {particle: get_mass()} in get_all_particles order", {"chain": str(ch)})
                return
            for x in nom:
                lo, hi = ha.get_mass_range(x)
                lines.append("C11l range " + enc(head + [float(pname[x])]))
                checks.append(("range", str(ch), x, [lo, hi]))
            # general eval_phsp_factor at seeded masses (some below threshold: the clamp of get_relative_p)
            msv = {p: tf.constant([nom[str(p)] * rnd.choice([1.0, 1.0, 0.9, 1.2])], tf.float64) for p in part.values()}
            f = float(ha.eval_phsp_factor(msv).numpy()[0])
            lines.append("C11l phsp " + enc(head_tokens(ch, pobj, {pobj[p]: float(v.numpy()[0]) for p, v in msv.items()})))
            checks.append(("phsp", str(ch), None, f))
            for x in inner:
                lo, hi = ha.get_mass_range(x)
                for Np in ([1, 2, 3, 17] if li == 0 else [5]):
                    ls = ha.mass_linspace(x, Np)
                    lines.append("C11l linsp " + enc(head + [float(pname[x]), float(Np)]))
                    checks.append(("linsp", str(ch), x, [float(v) for v in ls]))
                mvals = [lo + (hi - lo) * t for t in (0.0, 0.31, 0.77, 1.0, -0.05, 1.05)]
                pf = ha.get_phsp_factor(x, mvals).numpy()
                for mv, fv in zip(mvals, pf):
                    lines.append("C11l phspm " + enc(head + [float(pname[x]), float(mv)]))
                    checks.append(("phspm", str(ch), (x, mv), float(fv)))
                mv = lo + (hi - lo) * rnd.uniform(0.2, 0.8)
                gp = ha.generate_p_mass(x, [mv])
                lines.append("C11l genp " + enc(head + [float(pname[x]), float(mv)]))
                checks.append(("genp", str(ch), (x, mv), {pobj[p]: [float(t) for t in v.numpy()[0]] for p, v in gp.items()}, nom[str(ch.top)]))
        # HelicityAngle1.get_phsp_factor on the sequential topologies, listed the way HelicityAngle1 needs (top-down, the
        # decaying daughter first): its product must be HelicityAngle's for the same chain
        d = dfs_order(spec)
        seq = all(sum(1 for y in (a, b) if any(y == c for c, _, _ in spec)) <= 1 for _, a, b in spec)
        if seq:
            swap = tuple(k for k, (c, a, b) in enumerate(spec) if any(b == c2 for c2, _, _ in spec))
            ch, part = make_chain(spec, d, masses=nom, swap=swap)
            ha1, ha = HelicityAngle1(ch), HelicityAngle(ch)
            for x in [str(dd.core) for dd in list(ch)[1:]]:
                lo, hi = ha.get_mass_range(x)
                mv = lo + (hi - lo) * rnd.uniform(0.1, 0.9)
                f1 = float(ha1.get_phsp_factor(x, [mv]).numpy()[0])
                f2 = float(ha.get_phsp_factor(x, [mv]).numpy()[0])
                msl = [nom[str(dd.core)] if str(dd.core) != x else mv for dd in ch] + [nom[str(list(ch)[-1].outs[0])]]
                msp = [nom[str(dd.outs[1])] for dd in ch]
                lines.append("C11l phsp1 " + enc([float(len(msp))] + msl + msp))
                # float32 forward error bound of HelicityAngle1 (side finding): eps32 * (1 + m0/(m0 - m1 - m2)) per factor
                cond = sum(1.0 + msl[i] / max(msl[i] - msl[i + 1] - msp[i], 1e-300) for i in range(len(msp)))
                checks.append(("phsp1", str(ch), (x, mv), f1, f2, cond))
    # the sequential chain of C10's PhaseSpaceGenerator: product of relP over seqTriples vs product of C10's qListAux (getP)
    for _ in range(20 if ctx.quick else 200):
        k = rnd.choice([2, 3, 4])
        mass = [rnd.choice([0.0, 0.14, 0.5, 0.94]) for _ in range(k + 1)]
        r = mass[::-1]
        acc, msl = r[0], []
        for j in range(1, k):
            acc = acc + r[j] + rnd.uniform(0.01, 0.6)
            msl.append(acc)
        m0 = acc + r[k] + rnd.uniform(0.01, 0.6)
        lines.append("C11l seq " + enc([float(k), r[0]] + msl + r[1:] + [m0]))
        checks.append(("seq", None, (m0, mass, msl)))
    out = ctx.model.query(lines)
    nbad, first, worst = 0, None, 0.0
    cnt = {}
    for line, ck in zip(out, checks):
        kind = ck[0]
        cnt[kind] = cnt.get(kind, 0) + 1
        if line == "bad-op":
            res.broke("model driver bad-op (CascadeL %s)" % kind, str(ck)[:300])
            return
        bad = False
        if kind == "range":
            got = [None if t == "none" else C.h2f(t) for t in line.split()]
            bad = got != [None if v is None else float(v) for v in ck[3]]       # exact, None included
        elif kind == "linsp":
            got = [C.h2f(t) for t in line.split()]
            bad = len(got) != len(ck[3]) or any(not _ulp_close(a, b, 2) for a, b in zip(got, ck[3]))
        elif kind in ("phsp", "phspm"):
            got = C.h2f(line)
            if math.isnan(got) and math.isnan(ck[3]):      # 0/0 of get_relative_p at m_eff = 0 (massless daughters, m = lower bound 0)
                continue
            err = abs(got - ck[3]) / max(abs(ck[3]), 1e-300) if ck[3] != 0 else abs(got)
            worst = max(worst, err)
            bad = not err < 1e-12
        elif kind == "phsp1":
            got = C.h2f(line)
            # model (float64) = HelicityAngle on the same chain to 1e-12; HelicityAngle1 itself evaluates get_relative_p on
            # Python floats, which TensorFlow turns into float32 (side finding, see the report): float32 forward-error bound there
            err = abs(got - ck[4]) / max(abs(ck[4]), 1e-300)
            worst = max(worst, err)
            dev1 = abs(got - ck[3]) / max(abs(ck[3]), 1e-300)
            res.coverage["helicity_angle1_float32_deviation"] = max(res.coverage.get("helicity_angle1_float32_deviation", 0.0), dev1)
            bad = not (err < 1e-12 and dev1 < 3e-7 * ck[5])
        elif kind == "genp":
            v = [C.h2f(t) for t in line.split()]
            mp = {int(v[5 * k]): v[5 * k + 1:5 * k + 5] for k in range(len(v) // 5)}
            bad = sorted(mp) != sorted(ck[3]) or not max(float(np.max(np.abs(np.array(mp[k]) - np.array(ck[3][k])))) for k in mp) / ck[4] < 1e-10
        elif kind == "seq":
            a, b = [C.h2f(t) for t in line.split()]
            err = abs(a - b) / max(abs(b), 1e-300)
            worst = max(worst, err)
            bad = not err < 1e-12
        if bad:
            nbad += 1
            if first is None:
                first = {"kind": kind, "chain": ck[1], "what": str(ck[2]), "impl": str(ck[3:])[:400], "model": line[:400]}
    res.coverage["bookkeeping_ops"] = cnt
    res.coverage["bookkeeping_worst_rel_err_phsp"] = worst
    res.coverage["traces_validated_against_impl"] = res.coverage.get("traces_validated_against_impl", 0) + len(lines)
    if nbad:
        res.broke("correspondence CascadeL (get_mass_range / mass_linspace / get_phsp_factor / generate_p_mass / HelicityAngle1) vs helicity_angle.py", {"n": nbad, "first": first})


def correspond(ctx, res):
    correspond_listed(ctx, res)
    correspond_mass(ctx, res)


# ---------------------------------------------------------------------------------------------
# search: the clauses stated on the implementation, independent of the model
# ---------------------------------------------------------------------------------------------

def _roundtrip_listed(spec, order, swap, rnd, N):
    import tensorflow as tf
    from tf_pwa.data_trans.helicity_angle import HelicityAngle
    ch, part = make_chain(spec, order, swap=swap)
    decs = list(ch)
    byc = {d.core: d for d in decs}
    mass = {}

    def m_of(p):
        if p in mass:
            return mass[p]
        if p in byc:
            lo = sum(m_of(o) for o in byc[p].outs)
            mass[p] = lo + np.array([rnd.choice([0.02, 0.3, 1.0]) * rnd.uniform(0.5, 1.0) for _ in range(N)])
        else:
            mass[p] = np.full(N, rnd.choice([0.0, 0.14, 0.5, 0.94]))
        return mass[p]
    m_of(ch.top)
    cos = [np.array([rnd.uniform(-0.99, 0.99) for _ in range(N)]) for _ in decs]
    phi = [np.array([rnd.uniform(-3.13, 3.13) for _ in range(N)]) for _ in decs]
    ha = HelicityAngle(ch)
    p4 = ha.build_data({k: tf.constant(v) for k, v in mass.items()}, [tf.constant(c) for c in cos], [tf.constant(c) for c in phi])
    ms2, cos2, phi2 = ha.find_variable(ha.cal_angle(p4))
    errs = {}
    for k in mass:
        errs["mass " + str(k)] = float(np.max(np.abs(ms2[k].numpy() ** 2 - mass[k] ** 2))) / float(np.max(mass[ch.top]) ** 2) if k in ms2 else float("inf")
    for j, d in enumerate(decs):
        errs["cos(theta) of %s (listed at %d)" % (d, j)] = float(np.max(np.abs(cos[j] - cos2[j].numpy())))
        errs["phi of %s (listed at %d)" % (d, j)] = float(np.max(np.abs(phi[j] - phi2[j].numpy())))
    return str(ch), errs


def search_listed(ctx, res):
    """cascade round trip for chains listed in seeded orders (the positional costheta[j]/phi[j] must come back at position j)"""
    import random
    rnd = random.Random(ctx.seed * 49979687 + 1107)
    deep = (not ctx.quick) or ctx.suspect
    nfail, nch, worst = 0, 0, 0.0
    for n, ci, spec in _picks(ctx, rnd):
        for li, order in enumerate(listings(spec, rnd, 6 if deep else 3)[1:]):
            swap = tuple(k for k in range(len(spec)) if li > 1 and rnd.random() < 0.3)
            name, errs = _roundtrip_listed(spec, order, swap, rnd, 3)
            nch += 1
            for what, e in errs.items():
                worst = max(worst, e) if math.isfinite(e) else worst
                if not e < 1e-6:
                    if nfail < 6:
                        res.fail("cascade:listing-order", "HelicityAngle(%s).build_data -> cal_angle -> find_variable does not return the inputs: %s, max err %.3g" % (name, what, e),
                                 {"op": "listed", "spec": spec, "order": order, "swap": list(swap), "what": what})
                    nfail += 1
    res.coverage["listed_search_chain_listings"] = nch
    res.coverage["listed_search_worst_err"] = worst


def _allowed(spec, m):
    return all(m[c] >= m[a] + m[b] for c, a, b in spec)


def search_mass(ctx, res):
    """get_mass_range sound+complete: with all other masses nominal, m is kinematically allowed for `name` iff lo <= m <= hi;
    mass_linspace strictly inside; get_phsp_factor = product of the two-body momenta computed independently in numpy
    and = PhaseSpaceGenerator.get_weight * m_wtMax for the sequential chain of C10."""
    import random
    import tensorflow as tf
    from tf_pwa.data_trans.helicity_angle import HelicityAngle
    from tf_pwa.phasespace import PhaseSpaceGenerator
    rnd = random.Random(ctx.seed * 67867967 + 1108)
    nfail = 0
    nr = 0

    def fail(key, what, rp):
        nonlocal nfail
        if nfail < 8:
            res.fail(key, what, rp)
        nfail += 1
    for n, ci, spec in _picks(ctx, rnd):
        nom = nominal_masses(spec, rnd)
        order = listings(spec, rnd, 3)[2]
        ch, part = make_chain(spec, order, masses=nom)
        ha = HelicityAngle(ch)
        inner = [x for x in nom if any(x == c for c, _, _ in spec) and any(x in (a, b) for _, a, b in spec)]
        for x in inner:
            lo, hi = ha.get_mass_range(x)
            nr += 1
            rp = {"op": "range", "spec": spec, "order": order, "nominal": nom, "name": x}
            if lo is None or hi is None:
                fail("mass_range:none", "get_mass_range(%s) of %s returns %r" % (x, ch, (lo, hi)), rp)
                continue
            w = hi - lo
            for t in (1e-9, 0.5, 1 - 1e-9, -1e-6, 1 + 1e-6, -0.3, 1.4):  # not the end points themselves: a+(b-a) rounds
                mv = lo + w * t
                ok = _allowed(spec, {**nom, x: mv})
                inside = lo <= mv <= hi
                if ok != inside:
                    fail("mass_range:sound-complete", "chain %s, nominal masses %r: m(%s)=%r is %skinematically allowed but get_mass_range gives [%r, %r]" % (ch, nom, x, mv, "" if ok else "not ", lo, hi), rp)
            ls = ha.mass_linspace(x, 9)
            if len(ls) != 9 or not all(lo < v < hi for v in ls) or not all(b > a for a, b in zip(ls, ls[1:])):
                fail("mass_range:linspace", "mass_linspace(%s, 9) of %s is not an increasing grid strictly inside (%r, %r): %r" % (x, ch, lo, hi, list(ls)), rp)
            # phsp factor, independent numpy oracle (Kallen function)
            mv = lo + w * rnd.uniform(0.1, 0.9)
            mm = {**nom, x: mv}
            want = 1.0
            for c, a, b in spec:
                lam = (mm[c] ** 2 - (mm[a] + mm[b]) ** 2) * (mm[c] ** 2 - (mm[a] - mm[b]) ** 2)
                want *= math.sqrt(max(lam, 0.0)) / (2 * mm[c])
            got = float(ha.get_phsp_factor(x, [mv]).numpy()[0])
            if not abs(got - want) <= 1e-9 * abs(want) + 1e-300:
                fail("phsp_factor:product", "get_phsp_factor(%s, %r) of %s = %r, product of break-up momenta = %r" % (x, mv, ch, got, want), rp)
    # tie to C10 on the implementation: sequential chain = PhaseSpaceGenerator(m0, mass)
    for _ in range(6 if ctx.quick and not ctx.suspect else 40):
        k = rnd.choice([3, 4, 5])
        fm = [rnd.choice([0.0, 0.14, 0.5, 0.94]) for _ in range(k)]
        r = fm[::-1]
        acc, msl = r[0], []
        for j in range(1, k - 1):
            acc = acc + r[j] + rnd.uniform(0.05, 0.6)
            msl.append(acc)
        m0 = acc + r[k - 1] + rnd.uniform(0.05, 0.6)
        gen = PhaseSpaceGenerator(m0, fm)
        w = float((gen.get_weight([tf.constant([v], tf.float64) for v in msl], importances=False) * gen.m_wtMax).numpy()[0])
        # the same cascade as a DecayChain: S_j -> S_{j-1} + r_j, listed bottom-up (NOT depth-first)
        names = ["F%d" % j for j in range(k)]
        spec, prev = [], names[0]
        nomm = {names[j]: r[j] for j in range(k)}
        for j in range(1, k):
            core = "A" if j == k - 1 else "S%d" % j
            nomm[core] = m0 if j == k - 1 else msl[j - 1]
            spec.append((core, prev, names[j]))
            prev = core
        ch, part = make_chain(spec, list(range(len(spec))), masses=nomm)
        ha = HelicityAngle(ch)
        f = float(ha.eval_phsp_factor({p: tf.constant([nomm[str(p)]], tf.float64) for p in part.values()}).numpy()[0])
        if not abs(f - w) <= 1e-5 * abs(w):
            fail("phsp_factor:c10-weight", "eval_phsp_factor of the sequential chain %s = %r but PhaseSpaceGenerator(%r, %r).get_weight*wtMax = %r" % (ch, f, m0, fm, w),
                 {"op": "c10", "m0": m0, "mass": fm, "ms": msl})
    res.coverage["mass_range_search_cases"] = nr


def search(ctx, res):
    search_listed(ctx, res)
    search_mass(ctx, res)


def replay(r):
    """replay of the ops of this module; returns bad (bool)"""
    import random
    op = r.get("op")
    if op == "listed":
        spec = [tuple(x) for x in r["spec"]]
        name, errs = _roundtrip_listed(spec, r["order"], tuple(r["swap"]), random.Random(1), 4)
        print(name, {k: v for k, v in errs.items() if not v < 1e-6})
        return any(not v < 1e-6 for v in errs.values())
    if op == "range":
        from tf_pwa.data_trans.helicity_angle import HelicityAngle
        spec = [tuple(x) for x in r["spec"]]
        ch, part = make_chain(spec, r["order"], masses=r["nominal"])
        ha = HelicityAngle(ch)
        lo, hi = ha.get_mass_range(r["name"])
        print("get_mass_range(%s) of %s = %r" % (r["name"], ch, (lo, hi)))
        if lo is None or hi is None:
            return True
        bad = False
        for t in (1e-9, 0.5, 1 - 1e-9, -1e-6, 1 + 1e-6):
            mv = lo + (hi - lo) * t
            bad |= _allowed(spec, {**r["nominal"], r["name"]: mv}) != (lo <= mv <= hi)
        ls = ha.mass_linspace(r["name"], 9)
        bad |= not all(lo < v < hi for v in ls)
        nom = r["nominal"]
        mv = lo + (hi - lo) * 0.37
        mm = {**nom, r["name"]: mv}
        want = 1.0
        for c, a, b in spec:
            want *= math.sqrt(max((mm[c] ** 2 - (mm[a] + mm[b]) ** 2) * (mm[c] ** 2 - (mm[a] - mm[b]) ** 2), 0.0)) / (2 * mm[c])
        got = float(ha.get_phsp_factor(r["name"], [mv]).numpy()[0])
        print("get_phsp_factor =", got, "product of break-up momenta =", want)
        bad |= not abs(got - want) <= 1e-9 * abs(want) + 1e-300
        return bad
    if op == "c10":
        import tensorflow as tf
        from tf_pwa.data_trans.helicity_angle import HelicityAngle
        from tf_pwa.phasespace import PhaseSpaceGenerator
        m0, fm, msl = r["m0"], r["mass"], r["ms"]
        k = len(fm)
        gen = PhaseSpaceGenerator(m0, fm)
        w = float((gen.get_weight([tf.constant([v], tf.float64) for v in msl], importances=False) * gen.m_wtMax).numpy()[0])
        rr = fm[::-1]
        names = ["F%d" % j for j in range(k)]
        spec, prev = [], names[0]
        nomm = {names[j]: rr[j] for j in range(k)}
        for j in range(1, k):
            core = "A" if j == k - 1 else "S%d" % j
            nomm[core] = m0 if j == k - 1 else msl[j - 1]
            spec.append((core, prev, names[j]))
            prev = core
        ch, part = make_chain(spec, list(range(len(spec))), masses=nomm)
        f = float(HelicityAngle(ch).eval_phsp_factor({p: tf.constant([nomm[str(p)]], tf.float64) for p in part.values()}).numpy()[0])
        print("eval_phsp_factor =", f, "get_weight*wtMax =", w)
        return not abs(f - w) <= 1e-5 * abs(w)
    return None
