"""C18 (search part z): the on-disk / in-memory cache of a HeavyCall LazyCall (LazyCall.set_cached_file, the data option
`cached_lazy_call`) read with SEVERAL batch sizes in a row, also from a second LazyCall object of the same sample that finds
the files of the first one on disk (a later session).  The property's statement is tested directly: every batch holds the
same events in every leaf, merged batches = eager data, batch-wise application = whole-sample application.
Added after seeded change C18-03 (cache file name without the batch size) was missed: before, every HeavyCall case used
one batch size and no cache file."""
import os
import random
import shutil
import tempfile

K_CACHE = "LazyCall:HeavyCall:cache-file:batch-sizes"


def _np():
    import numpy as np
    return np


def _g(a, c):
    def g(d):
        return {"y": d["a"] * a + c, "s": {"q": d["b"]["c"] - c}, "t": (d["a"][..., 0] + 1.0,)}
    return g


def _case(rnd, i):
    np = _np()
    n = rnd.choice([2, 5, 7, 10, 13])
    k = rnd.choice([1, 3, 4])
    x = {"a": np.array([rnd.randint(-50, 50) for _ in range(n * k)], dtype=float).reshape(n, k),
         "b": {"c": np.array([rnd.randint(-50, 50) for _ in range(n)], dtype=float)}}
    extra = {"weight": np.array([rnd.randint(1, 9) for _ in range(n)], dtype=float)} if i % 3 != 2 else {}
    sizes = rnd.sample([1, 2, 3, 4, n - 1 if n > 1 else 1, n, n + 3, 16], 4)
    sizes.append(sizes[0])  # a repeated size re-reads its own cache
    mode = ["file", "file_second_object", "memory", "none"][i % 4]
    return {"n": n, "k": k, "x": x, "extra": extra, "sizes": [max(1, int(b)) for b in sizes], "mode": mode,
            "a": float(rnd.randint(-3, 3)), "c": float(rnd.randint(-4, 4)), "prefetch": rnd.choice([-1, 0, 2])}


def _payload(cfg):
    return {"op": "lazy_heavy_cache", "mode": cfg["mode"], "sizes": cfg["sizes"], "a": cfg["a"], "c": cfg["c"], "prefetch": cfg["prefetch"],
            "x": {"a": cfg["x"]["a"].tolist(), "b": {"c": cfg["x"]["b"]["c"].tolist()}},
            "extra": {kk: v.tolist() for kk, v in cfg["extra"].items()}}


def _from_payload(p):
    np = _np()
    return {"mode": p["mode"], "sizes": p["sizes"], "a": p["a"], "c": p["c"], "prefetch": p["prefetch"],
            "x": {"a": np.array(p["x"]["a"], dtype=float), "b": {"c": np.array(p["x"]["b"]["c"], dtype=float)}},
            "extra": {kk: np.array(v, dtype=float) for kk, v in p["extra"].items()},
            "n": len(p["x"]["b"]["c"])}


def _leaves(D, d):
    np = _np()
    return {kk: np.asarray(v) for kk, v in D.flatten_dict_data(D.data_to_numpy(d)).items()}


def _same(D, got, want):
    np = _np()
    a, b = _leaves(D, got), _leaves(D, want)
    if set(a) != set(b):
        return "leaves %s instead of %s" % (sorted(a), sorted(b))
    for kk in sorted(b):
        if a[kk].shape != b[kk].shape:
            return "leaf %r has shape %s instead of %s" % (kk, a[kk].shape, b[kk].shape)
        if not np.array_equal(a[kk], b[kk]):
            return "leaf %r has other content" % (kk,)
    return None


def run_case(D, cfg, tmp):
    """-> None or a description of the first deviation from the eager data"""
    np = _np()
    g = _g(cfg["a"], cfg["c"])
    want = dict(g(cfg["x"]))
    want.update(cfg["extra"])
    n = cfg["n"]

    def make():
        L = D.LazyCall(D.HeavyCall(g), cfg["x"])
        for kk, v in cfg["extra"].items():
            L[kk] = v
        L.prefetch = cfg["prefetch"]
        if cfg["mode"].startswith("file"):
            L.set_cached_file(os.path.join(tmp, "cache") + os.sep, "smp")
        elif cfg["mode"] == "memory":
            L.set_cached_file("", "smp")
        return L

    L = make()
    for j, b in enumerate(cfg["sizes"]):
        if cfg["mode"] == "file_second_object" and j == 2:
            L = make()  # a new object (e.g. the next session) finds the cache files written so far
        try:
            pieces = [D.data_to_numpy(p) for p in D.data_split(L, b)]
        except Exception as e:  # noqa: BLE001
            return "data_split(batch %d) raises %s: %s" % (b, type(e).__name__, str(e)[:100])
        nb = -(-n // b)
        if len(pieces) != nb:
            return "batch size %d (after %s): %d batches instead of %d" % (b, cfg["sizes"][:j], len(pieces), nb)
        for q, p in enumerate(pieces):
            ref = {kk: (v[q * b:(q + 1) * b] if not isinstance(v, (dict, tuple)) else v) for kk, v in want.items()}
            ref["s"] = {"q": want["s"]["q"][q * b:(q + 1) * b]}
            ref["t"] = (want["t"][0][q * b:(q + 1) * b],)
            bad = _same(D, p, ref)
            if bad:
                return "batch size %d (after %s), batch %d: %s" % (b, cfg["sizes"][:j], q, bad)
        bad = _same(D, D.data_merge(*pieces), want)
        if bad:
            return "batch size %d (after %s): merged batches: %s" % (b, cfg["sizes"][:j], bad)
        fun = lambda d: d["y"][..., 0] * d["s"]["q"] + d["t"][0]  # noqa: E731
        try:
            got = np.asarray(D.batch_call(fun, L, b))
        except Exception as e:  # noqa: BLE001
            return "batch_call(batch %d, after %s) raises %s: %s" % (b, cfg["sizes"][:j], type(e).__name__, str(e).strip().splitlines()[-1][:100])
        if got.shape != (n,) or not np.array_equal(got, np.asarray(fun(want))):
            return "batch_call(batch %d, after %s) differs from the function of the whole sample" % (b, cfg["sizes"][:j])
    return None


def search_cache(ctx, res, stats):
    from tf_pwa import data as D
    rnd = random.Random(4242 + ctx.seed)
    n_cases = 8 if ctx.quick and not ctx.suspect else 40
    stats["heavy_cache_cases"] = 0
    stats["heavy_cache_modes"] = {}
    for i in range(n_cases):
        cfg = _case(rnd, i)
        tmp = tempfile.mkdtemp(prefix="c18z_")
        try:
            bad = run_case(D, cfg, tmp)
        finally:
            shutil.rmtree(tmp, ignore_errors=True)
        stats["heavy_cache_cases"] += 1
        stats["heavy_cache_modes"][cfg["mode"]] = stats["heavy_cache_modes"].get(cfg["mode"], 0) + 1
        if bad:
            res.fail(K_CACHE if cfg["mode"] != "none" else "LazyCall:HeavyCall:batch-sizes",
                     "LazyCall(HeavyCall) with cache mode %r, %d events, read with batch sizes %s: %s (eager data = {**f(x), **extra})" % (
                         cfg["mode"], cfg["n"], cfg["sizes"], bad), _payload(cfg))
            return


def replay(payload):
    from tf_pwa import data as D
    cfg = _from_payload(payload)
    tmp = tempfile.mkdtemp(prefix="c18z_")
    try:
        bad = run_case(D, cfg, tmp)
    finally:
        shutil.rmtree(tmp, ignore_errors=True)
    print("cache mode %r, batch sizes %s: %s" % (cfg["mode"], cfg["sizes"], bad or "lazy = eager for every batch size"))
    return 1 if bad else 0
