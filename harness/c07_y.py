"""C07 (part Y) — custom likelihood family (BaseCustomModel + SumVar), constr_frac models, inject_mc, cfit with a parametrised
background at tape level, MixLogLikehoodFCN, ConstrainModel: assembly correspondence with templates/DerivY.lean.in and
finite-difference search.  Called from c07.correspond / c07.search / c07.replay."""
import contextlib

import numpy as np

import common as C
import c07 as B

Y_KINDS = ["constr_frac", "cfit_constr_frac", "inject_mc"]
CUSTOM_KINDS = ["simple", "simple_clip", "simple_cfit", "simple_chi2", "constr_frac", "cfit_constr_frac"]


def toy_res_class():
    """the toy amplitude of c07 with two switchable 'resonances' (temp_used_res), as constr_frac needs"""
    if "cls_res" in B._S:
        return B._S["cls_res"]
    import tensorflow as tf
    Base = B.toy_class()

    class ToyResPDF(Base):
        """f = f0 ( [R1] (a + b x)^2 + [R2] d^2 exp(c x) + 0.05 )"""
        _used = None

        @contextlib.contextmanager
        def temp_used_res(self, res):
            old = self._used
            self._used = list(res) if isinstance(res, (list, tuple)) else [res]
            try:
                yield
            finally:
                self._used = old

        def pdf(self, data):
            a, b, c, d = self.a(), self.b(), self.c(), self.d()
            x = data["x"]
            used = self._used
            r1 = (a + b * x) ** 2 if used is None or "R1" in used else 0.0
            r2 = tf.exp(c * x) * d * d if used is None or "R2" in used else 0.0
            return data["f0"] * (r1 + r2 + 0.05)

    B._S["cls_res"] = ToyResPDF
    return ToyResPDF


def make_model_y(kind, amp, spec):
    from tf_pwa.model.model import get_nll_model
    import tf_pwa.model.custom  # noqa: F401
    if kind == "constr_frac":
        return get_nll_model(kind)(amp, w_bkg=spec["wbkg"], constr_frac=dict(spec["cfrac"]))
    if kind == "cfit_constr_frac":
        return get_nll_model(kind)(amp, w_bkg=spec["wbkg"], constr_frac=dict(spec["cfrac"]), bg_frac=spec["fb"])
    if kind == "inject_mc":
        return get_nll_model(kind)(amp, spec["wbkg"], w_inmc=spec["w_inmc"], float_wmc=bool(spec.get("float_wmc")))
    return B.make_model(kind, amp, spec["wbkg"], spec["fb"], 1, spec.get("bgpar", False))


def build_y(spec, batch=None):
    from tf_pwa.model.model import FCN
    from tf_pwa.variable import VarsManager
    vm = VarsManager()
    amp = toy_res_class()(vm=vm)
    amp.set_params(dict(spec["params"]))
    model = make_model_y(spec["kind"], amp, spec)
    if spec.get("bounds"):
        vm.set_bound({k: tuple(v) for k, v in spec["bounds"].items()})
    gc = {k: tuple(v) for k, v in spec.get("gauss", {}).items()}
    with B.quiet():
        fcn = FCN(model, B._arr(spec["data"]), B._arr(spec["mc"]), bg=B._arr(spec.get("bg")),
                  batch=spec["batch"] if batch is None else batch, gauss_constr=gc)
    return vm, amp, fcn


def _nondividing(rng, n, nm):
    """a batch size that gives >= 2 batches of data and MC and divides neither"""
    cands = [b for b in (3, 4, 5, 7) if b < n and b < nm and n % b != 0 and nm % b != 0]
    return int(rng.choice(cands)) if cands else 4


def gen_case_y(rng, kind, opts=None):
    base = "simple_cfit" if kind == "cfit_constr_frac" else ("cfit" if kind == "cfit_bgpar" else "simple")
    spec = B.gen_case(rng, base, opts)
    n = len(spec["data"]["x"]) + (len(spec["bg"]["x"]) if spec.get("bg") else 0)
    spec["batch"] = _nondividing(rng, n, len(spec["mc"]["x"]))
    if kind == "cfit_bgpar":
        spec["kind"], spec["bgpar"] = "cfit", True
        return spec
    spec["kind"] = kind
    if kind in ("constr_frac", "cfit_constr_frac"):
        spec["cfrac"] = {"R1": {"res": ["R1"], "value": float(rng.uniform(0.3, 0.8)), "sigma": float(rng.choice([0.05, 0.2]))},
                         "R2": {"res": ["R2"], "value": float(rng.uniform(0.1, 0.5)), "sigma": float(rng.choice([0.1, 0.3]))}}
        if rng.uniform() < 0.4:
            spec["cfrac"].pop("R2")
    if kind == "inject_mc":
        spec["w_inmc"] = float(rng.uniform(0.05, 0.4))
        spec["float_wmc"] = bool(rng.uniform() < 0.5)
        spec["p"] = spec["p"] + [float(rng.uniform(-1, 1))]
    return spec


# --------------------------------------------------------------------------
# search
# --------------------------------------------------------------------------

def search_toy_y(spec, res, stats, label):
    kind = spec["kind"]
    vm, amp, fcn = build_y(spec)
    wrapped = bool(spec.get("bounds"))
    rep = {"op": "toyY", "spec": spec}
    n = len(spec["data"]["x"]) + (len(spec["bg"]["x"]) if spec.get("bg") else 0)
    lab = "%s %s n=%d nmc=%d batch=%d (%d data / %d MC batches)%s" % (
        label, kind, n, len(spec["mc"]["x"]), spec["batch"], -(-n // spec["batch"]), -(-len(spec["mc"]["x"]) // spec["batch"]),
        " bg_f with a floating parameter" if spec.get("bgpar") else "")
    if kind == "inject_mc":
        # Model_new.nll is a different formula (tf.math.log, unweighted MC mean): the property is about the value returned alongside
        check_alongside(lab, vm, fcn, rep, res, stats, spec["p"])
        return
    out = B.check_fcn(lab, vm, fcn, rep, res, stats, 2e-3, wrapped, spec["p"], kind, bool(spec.get("gauss")))
    if out is None:
        return
    # the batch size must not matter (once-only terms counted once for any number of batches)
    for b in (2 * n + 2 * len(spec["mc"]["x"]),):
        vm2, amp2, fcn2 = build_y(spec, batch=b)
        y0 = np.array(vm2.get_all_val(), dtype="float64")
        with B.quiet():
            v2, g2 = fcn2.nll_grad(y0)
            _, _, H2 = fcn2.nll_grad_hessian(y0)
            v1, g1 = fcn.nll_grad(y0)
            _, _, H1 = fcn.nll_grad_hessian(y0)
        stats["batch_variants"] += 1
        for nm, a, bb in (("value", v1, v2), ("gradient", g1, g2), ("hessian", H1, H2)):
            if not B._dev(a, bb) <= 1e-9:
                res.fail("%s:batch:%s" % (kind, nm), "%s %s depends on the batch size: batch=%d gives %r, one batch gives %r" % (
                    kind, nm, spec["batch"], np.array(a).tolist(), np.array(bb).tolist()), dict(rep, clause="batch", batch2=b))


def check_alongside(label, vm, fcn, rep, res, stats, p_full):
    """gradient / Hessian vs finite differences of the value returned ALONGSIDE (models whose nll() is another formula)"""
    x0 = np.array(vm.get_all_val(), dtype="float64")
    kind = rep["spec"]["kind"]

    def val(x):
        with B.quiet():
            return float(fcn.nll_grad(np.array(x))[0])

    def grad(x):
        with B.quiet():
            return np.array(fcn.nll_grad(np.array(x))[1], dtype="float64")

    with B.quiet():
        v, g = fcn.nll_grad(x0.copy())
        v2, g2, H = fcn.nll_grad_hessian(x0.copy())
    stats["objects"] += 1
    g_fd, ok1 = B.fd_checked(val, x0, 2e-3)
    H_fd, ok2 = B.fd_checked(grad, x0, 2e-3)
    if not (ok1 and ok2):
        stats["ill_conditioned"] += 1
        return
    stats["fd_gradients"] += 1
    if not abs(float(v) - float(v2)) <= 1e-9 * max(1.0, abs(float(v))):
        res.fail("%s:value:nll_grad_hessian" % kind, "%s: nll_grad returns %r, nll_grad_hessian %r" % (label, float(v), float(v2)), dict(rep, clause="value"))
    for nm, gg in (("nll_grad", g), ("nll_grad_hessian", g2)):
        e = B._dev(gg, g_fd)
        stats["worst_g"] = max(stats["worst_g"], e)
        if not e <= B.GTOL:
            res.fail("%s:gradient:%s" % (kind, nm), "%s: gradient returned by %s deviates from finite differences of the value returned alongside: %r vs %r (rel %.3g)" % (
                label, nm, list(np.array(gg)), list(g_fd), e), dict(rep, clause="gradient"))
    e = B._dev(H, H_fd)
    stats["worst_H"] = max(stats["worst_H"], e)
    if not e <= B.GTOL:
        res.fail("%s:hessian" % kind, "%s: Hessian deviates from finite differences of the gradient (rel %.3g): %r vs %r" % (
            label, e, np.array(H).tolist(), H_fd.tolist()), dict(rep, clause="hessian"))


def mix_object(rng):
    """MixLogLikehoodFCN.get_nll_grad on hand-built attributes (its __init__ needs LazyCall-like inputs that type(mcdata)(dict) cannot
    build; get_nll_grad itself only uses model, data_merge, weight_phsps, n_datas)"""
    import tensorflow as tf
    from tf_pwa.data import data_merge, split_generator
    from tf_pwa.model.model import MixLogLikehoodFCN, Model
    from tf_pwa.variable import VarsManager
    vm = VarsManager()
    amp = B.toy_class()(vm=vm)
    amp.set_params({"toy_a": float(rng.uniform(0.7, 1.6)), "toy_b": float(rng.uniform(-0.6, 0.6)),
                    "toy_c": float(rng.uniform(-0.8, 0.8)), "toy_d": float(rng.uniform(0.3, 0.9))})
    models = [Model(amp, 0.1), Model(amp, 0.2, extended=True)]
    datas, phsps, nds = [], [], []
    for i in range(2):
        d = {k: tf.constant(v) for k, v in B._sample(rng, int(rng.choice([7, 10])), "pos", extras=False).items()}
        mc = {k: tf.constant(v) for k, v in B._sample(rng, int(rng.choice([8, 11])), "pos", extras=False).items()}
        mc["weight"] = mc["weight"] / tf.reduce_sum(mc["weight"])
        datas.append(d)
        phsps.append(list(split_generator(mc, 3)))
        nds.append(tf.reduce_sum(d["weight"]))
    obj = MixLogLikehoodFCN.__new__(MixLogLikehoodFCN)
    obj.model = models
    obj.data_merge = list(split_generator(data_merge(*datas), 4))
    obj.weight_phsps = phsps
    obj.n_datas = nds
    obj.vm = vm
    return vm, amp, obj


def search_mix(rng, res, stats):
    vm, amp, obj = mix_object(rng)
    x0 = np.array(vm.get_all_val(), dtype="float64")

    def val(x):
        with B.quiet():
            return float(obj.get_nll_grad(np.array(x))[0])

    with B.quiet():
        v, g = obj.get_nll_grad(x0.copy())
    g_fd, ok = B.fd_checked(val, x0, 2e-3)
    stats["mix_fcn"] = 1 if ok else 0
    if ok and not B._dev(np.array(g), g_fd) <= B.GTOL:
        res.fail("MixLogLikehoodFCN:gradient", "MixLogLikehoodFCN.get_nll_grad gradient %r vs finite differences of its value %r" % (
            list(np.array(g)), list(g_fd)), {"op": "mix"})


def search_y(ctx, rng, res, stats):
    rot = [dict(bounds=True), dict(), dict(gauss=True, bounds=True), dict(gauss=True)]
    plan = []
    if ctx.quick and not ctx.suspect:
        plan = [(["constr_frac", "cfit_constr_frac", "constr_frac", "inject_mc"][ctx.seed % 4], rot[ctx.seed % 4]),
                ("cfit_bgpar", dict(bounds=True))]
    else:
        for r in range(1 if ctx.quick else 3):
            for k in Y_KINDS + ["cfit_bgpar"]:
                for o in rot[:: (2 if ctx.quick else 1)]:
                    plan.append((k, o))
    for i, (kind, opts) in enumerate(plan):
        spec = gen_case_y(rng, kind, dict(opts, tie=False) if kind != "inject_mc" else {})
        if kind == "cfit_bgpar" and ctx.quick and not ctx.suspect:
            vm, amp, fcn = B.build_toy(spec)
            B.check_fcn("searchY#%d cfit batch=%d bg_f with a floating parameter" % (i, spec["batch"]), vm, fcn, {"op": "toy", "spec": spec},
                        res, stats, 2e-3, True, spec["p"], "cfit", bool(spec["gauss"]))
        elif kind == "cfit_bgpar":
            B.search_toy(spec, res, stats, "searchY#%d" % i)
        else:
            search_toy_y(spec, res, stats, "searchY#%d" % i)
    search_mix(rng, res, stats)
    stats["y_objects"] = len(plan)


# --------------------------------------------------------------------------
# correspondence
# --------------------------------------------------------------------------

def tape_part(model, var, data, weight, norm_vals, idx, hess=False):
    """the library's eval_nll_part under the tape, normalisation factors as independent variables"""
    import tensorflow as tf
    norms = [tf.Variable(float(v), dtype="float64") for v in norm_vals]
    allv = list(var) + norms
    if not hess:
        with tf.GradientTape() as tape:
            a = model.eval_nll_part(data, weight, norms, idx)
        g = tape.gradient(a, allv, unconnected_gradients="zero")
        return float(a), np.array([float(x) for x in g])
    with tf.GradientTape(persistent=True) as t0:
        with tf.GradientTape() as t1:
            a = model.eval_nll_part(data, weight, norms, idx)
        g = t1.gradient(a, allv, unconnected_gradients="zero")
    H = [[float(y) for y in t0.gradient(gi, allv, unconnected_gradients="zero")] for gi in g]
    del t0
    return float(a), np.array([float(x) for x in g]), np.array(H)


def corr_custom(spec, cor):
    import tensorflow as tf
    from tf_pwa.data import data_split, split_generator
    from tf_pwa.variable import SumVar
    kind = spec["kind"]
    vm, amp, fcn = build_y(spec)
    model = fcn.model
    var = amp.trainable_variables
    n = len(var)
    rep = {"op": "toyY", "spec": spec}
    y0 = np.array(vm.get_all_val(), dtype="float64")
    wl = list(data_split(fcn.weight, fcn.batch))
    lab = "%s batch=%d" % (kind, spec["batch"])
    with B.quiet():
        model.set_params(y0)
        mcb = list(zip(fcn.batch_mcdata, fcn.batch_mc_weight))
        dtb = list(zip(fcn.batch_data, wl))
        # ---- nll_grad_batch
        mcs, tot = [], None
        for i, j in mcb:
            a, grad = model._fast_int_mc_grad((i, j))
            a = [float(x) for x in a]
            grad = [np.array(x, dtype="float64") for x in grad]
            mcs.append((a, grad))
            tot = np.array(a) if tot is None else tot + np.array(a)
        m = len(mcs[0][0])
        tot = np.zeros(0) if m == 0 else tot
        parts = []
        for idx, (i, j) in enumerate(dtb):
            a, g = tape_part(model, var, i, j, tot, idx)
            parts.append((a, g[:n], g[n:]))
        v, g = model.nll_grad_batch(fcn.batch_data, fcn.batch_mcdata, weight=wl, mc_weight=fcn.batch_mc_weight)
        line = "C07d custom %d %d %d %d %s" % (n, m, len(mcs), len(parts), B.L(*[np.concatenate([np.array(a), np.array(gr).ravel()]) if m else np.zeros(0) for a, gr in mcs],
                                                                           *[np.concatenate([[a], gt, gn]) for a, gt, gn in parts]))
        cor.add(line, list(tot) + [float(v)] + [float(x) for x in g], lab + " BaseCustomModel.nll_grad_batch (%d MC / %d data batches)" % (len(mcs), len(parts)), rep)
        # ---- closed formulas of eval_nll_part in the normalisation factors
        if kind in ("simple", "simple_clip", "constr_frac"):
            cf = list(getattr(model, "constr_frac", None).values()) if kind == "constr_frac" else []
            for idx, (i, j) in enumerate(dtb[:2]):
                ln = float(tf.reduce_sum(j * tf.math.log(amp(i)))) if kind != "simple_clip" else float(tf.reduce_sum(j * __import__("tf_pwa.model.model", fromlist=["clip_log"]).clip_log(amp(i))))
                sw = float(tf.reduce_sum(j))
                tag = {"simple": "simple", "simple_clip": "clip", "constr_frac": "frac"}[kind]
                cor.add("C07d fracGN %s %d %d %s" % (tag, idx, len(cf), B.L([ln, sw], tot, *[[c["value"], c["sigma"]] for c in cf])),
                        [parts[idx][0]] + list(parts[idx][2]), lab + " eval_nll_part value / partials w.r.t. the normalisation factors, idx=%d" % idx, rep)
        if kind == "cfit_constr_frac":
            cf = list(model.constr_frac.values())
            i, j = dtb[0]
            _, g1 = tape_part(model, var, i, j, tot, 1)  # the same events WITHOUT the once-only terms
            cor.add("C07d cfitFracGN 0 %d %s" % (len(cf), B.L([g1[n], g1[-1]], tot, *[[c["value"], c["sigma"]] for c in cf])),
                    list(parts[0][2]), lab + " cfit_constr_frac partials, idx=0", rep)
        # ---- nll_grad_hessian: per MC batch SumVar.from_call_with_hess (values, gradients, Hessians), per data batch the tape's Hessian blocks
        b = fcn.batch
        svs, tot_h = [], np.zeros(m)
        for i, j in zip(split_generator(fcn.mcdata, b), split_generator(fcn.mc_weight, b)):
            sv = SumVar.from_call_with_hess(lambda: model.eval_normal_factors(i, j), var)
            vals = np.array([float(x) for x in sv.value], dtype="float64")
            Yb = np.array([np.array(x) for x in sv.grad], dtype="float64").reshape(m, n) if m else np.zeros((0, n))
            Zb = np.array([np.array(x) for x in sv.hess], dtype="float64").reshape(m, n, n) if m else np.zeros((0, n, n))
            svs.append(np.concatenate([vals, Yb.ravel(), Zb.ravel()]))
            tot_h = tot_h + vals
        hp = []
        for idx, (i, j) in enumerate(zip(split_generator(fcn.data, b), split_generator(fcn.weight, b))):
            a, g, H = tape_part(model, var, i, j, tot_h, idx, hess=True)
            hp.append(np.concatenate([[a], g, H.ravel()]))
        v3, g3, H3 = model.nll_grad_hessian(fcn.data, fcn.mcdata, weight=fcn.weight, batch=b, mc_weight=fcn.mc_weight)
        cor.add("C07d customH %d %d %d %d %s" % (n, m, len(svs), len(hp), B.L(*svs, *hp)),
                list(tot_h) + [float(v3)] + list(np.array(g3)) + list(np.array(H3).ravel()),
                lab + " BaseCustomModel.nll_grad_hessian (%d MC / %d data batches)" % (len(svs), len(hp)), rep)


def corr_cfit_tape(spec, cor):
    """Model_cfit with a parametrised bg_f: the tape on ll vs per-event jacobians of sig AND bg"""
    import tensorflow as tf
    from tf_pwa.data import data_split
    from tf_pwa.model.model import clip_log, sum_gradient
    vm, amp, fcn = B.build_toy(spec)
    m = fcn.model
    var = m.vm.trainable_variables
    n = len(var)
    with B.quiet():
        wl = list(data_split(fcn.weight, fcn.batch))
        mcd, mcw = list(fcn.batch_mcdata), list(fcn.batch_mc_weight)
        isg, gsg = sum_gradient(m.sig, mcd, var, mcw)
        ibg, gbg = sum_gradient(m.bg, mcd, var, mcw)
        vs, vb = tf.Variable(isg, dtype="float64"), tf.Variable(ibg, dtype="float64")

        def prob(x):
            return (1 - m.w_bkg) * m.sig(x) / vs + m.w_bkg * m.bg(x) / vb

        ll, gll = sum_gradient(prob, fcn.batch_data, var + [vs, vb], wl, trans=clip_log, resolution_size=m.resolution_size)
        data = {k: tf.constant(v) for k, v in fcn.data.items() if k != "weight"}
        with tf.GradientTape(persistent=True) as tape:
            S = m.sig(data)
            Bg = m.bg(data)
        dS = [np.array(x) for x in tape.jacobian(S, var, unconnected_gradients="zero", experimental_use_pfor=False)]
        dB = [np.array(x) for x in tape.jacobian(Bg, var, unconnected_gradients="zero", experimental_use_pfor=False)]
        del tape
        # the assembled gradient from these tape-level numbers, and the library's
        v, g = m.nll_grad_batch(fcn.batch_data, fcn.batch_mcdata, weight=wl, mc_weight=fcn.batch_mc_weight)
    ne = len(np.array(S))
    cor.add("C07d cfitTape %d %d %s" % (n, ne, B.L([float(m.w_bkg), float(isg), float(ibg)], np.array(fcn.weight), np.array(S), np.array(Bg), dS, dB)),
            [float(ll)] + [float(x) for x in gll], "cfit (bg_f with a floating parameter) batch=%d: sum_gradient(prob) vs per-event chain rule through sig and bg" % spec["batch"],
            {"op": "toy", "spec": spec})
    return float(np.max(np.abs(np.array(gbg))))


def corr_mix(rng, cor):
    import tensorflow as tf
    from tf_pwa.model.model import clip_log, sum_gradient
    vm, amp, obj = mix_object(rng)
    x0 = np.array(vm.get_all_val(), dtype="float64")
    with B.quiet():
        [i.set_params(x0) for i in obj.model]
        sig = obj.model[0].model.signal
        var = sig.trainable_variables
        w = [i["weight"] for i in obj.data_merge]
        ln, gln = sum_gradient(sig, obj.data_merge, var, weight=w, trans=clip_log)
        parts = []
        for mod, k, l in zip(obj.model, obj.weight_phsps, obj.n_datas):
            im, gim = sum_gradient(mod.model.signal, k, var, weight=[i["weight"] for i in k])
            ext = 1.0 if float(mod.model.int_f(tf.constant(2.0, dtype="float64"))) == 2.0 else 0.0
            parts.append(np.concatenate([[ext, float(im), float(l)], np.array(gim)]))
        v, g = obj.get_nll_grad(x0)
    n = len(var)
    cor.add("C07d mix %d %d %s" % (n, len(parts), B.L([float(ln)], np.array(gln), *parts)), [float(v)] + list(np.array(g)),
            "MixLogLikehoodFCN.get_nll_grad (normalised + extended model)", {"op": "mix"})


def corr_constrain_model(cor):
    from tf_pwa.model.model import ConstrainModel
    from tf_pwa.variable import VarsManager
    vm = VarsManager()
    amp = B.toy_class()(vm=vm)
    amp.set_params({"toy_a": 1.2, "toy_b": 0.3, "toy_c": -0.2, "toy_d": 0.6})
    names = [v.name for v in amp.trainable_variables]
    for cons in ({names[2]: (0.1, 0.3), names[0]: (1.0, 0.2), "not_a_variable": (0.0, 0.1), names[3]: (0.5, 0.05)},
                 {names[1]: (0.0, 0.4), names[3]: (0.5, 0.05)}):
        cm = ConstrainModel(amp, 0.5, constrain=dict(cons))
        t = float(cm.get_constrain_term())
        g = [float(x) for x in cm.get_constrain_grad()]
        H = np.array(cm.get_constrain_hessian(), dtype="float64")
        xs = [float(v) for v in amp.trainable_variables]
        toks = []
        for k, (mu, sg) in cons.items():
            toks += [str(names.index(k)) if k in names else "-1", C.f2h(mu), C.f2h(sg)]
        cor.add("C07d cm %d %d %s %s" % (len(names), len(cons), B.L(xs), " ".join(toks)), [t] + g + list(H.ravel()),
                "ConstrainModel.get_constrain_term/_grad/_hessian (break at the first name that is not trainable)", {"op": "constrain_model"})


def corr_inmc(spec, cor):
    import tensorflow as tf
    from tf_pwa.data import data_split
    from tf_pwa.model.model import sum_gradient
    spec = dict(spec, float_wmc=False)
    vm, amp, fcn = build_y(spec)
    model = fcn.model
    var = amp.trainable_variables
    n = len(var)
    with B.quiet():
        wl = list(data_split(fcn.weight, fcn.batch))
        v, g = model.nll_grad_batch(fcn.batch_data, fcn.batch_mcdata, weight=wl, mc_weight=fcn.batch_mc_weight)
        im, gim = sum_gradient(amp, list(fcn.batch_mcdata), var, weight=list(fcn.batch_mc_weight))
        data = {k: tf.constant(val) for k, val in fcn.data.items() if k != "weight"}
        f, J, _ = B.per_event(amp, data) if False else _f_and_jac(amp, data, var)
    cor.add("C07d inmc %d %d %s" % (n, len(f), B.L([float(im), float(model.w_inmc())], np.array(fcn.weight), f, J, np.array(gim))),
            [float(v)] + [float(x) for x in g], "inject_mc nll_grad_batch (sum_gradient_new) vs per-event chain rule, batch=%d" % spec["batch"], {"op": "toyY", "spec": spec})


def _f_and_jac(amp, data, var):
    import tensorflow as tf
    with tf.GradientTape(persistent=True) as t1:
        f = amp.pdf(data)
    J = t1.jacobian(f, var, unconnected_gradients="zero", experimental_use_pfor=False)
    del t1
    return np.array(f), np.array([np.array(j) for j in J]), None


def correspond_y(ctx, rng, cor, res):
    kinds = list(CUSTOM_KINDS)
    reps = 1 if ctx.quick else 4
    for r in range(reps):
        for i, k in enumerate(kinds):
            if ctx.quick and k in ("simple_clip", "simple_chi2") and (i + ctx.seed) % 2 == 0:
                continue
            if k in Y_KINDS:
                spec = gen_case_y(rng, k, {})
            else:
                spec = B.gen_case(rng, k, {})
                n = len(spec["data"]["x"]) + (len(spec["bg"]["x"]) if spec.get("bg") else 0)
                spec["batch"] = _nondividing(rng, n, len(spec["mc"]["x"]))
            corr_custom(spec, cor)
        spec = gen_case_y(rng, "cfit_bgpar", {})
        gb = corr_cfit_tape(spec, cor)
        if not gb > 1e-6:
            res.broke("correspondence: the parametrised background of the toy cfit model has no gradient in I_bg (the case does not exercise the chain rule through I_bg)", gb)
        corr_inmc(gen_case_y(rng, "inject_mc", {}), cor)
        corr_mix(rng, cor)
    # (ConstrainModel looks its names up among tf.Variable.name, which is "Variable:0" for every variable of this TensorFlow version: the
    #  class's three functions collapse onto one entry; c07.search_constrain_model probes their mutual consistency, no correspondence here)
