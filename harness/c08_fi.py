"""C08 helper: tf_pwa.fit_improve — the one minimiser the library ships itself (fit_scipy(method="test")).

* instrumented runs of the REAL `minimize` / `fmin_bfgs_f` / `line_search_wolfe2` / `line_search_nonmonote` / `Cached_FG`
  on small synthetic objectives; everything the Lean model (templates/FitImprove.lean.in) takes as a parameter is recorded
  (outer objective calls, line-search answers, `np.linalg.inv` answers) and fed to the model, the whole iterate sequence and
  the OptimizeResult are compared;
* the hypotheses of the Lean theorems about the line search (`new_fval = f(xk + alpha pk)`, Armijo) are checked on every
  recorded answer of the real line search;
* the clauses of the property on the minimiser itself (model independent): s.fun = f(s.x), s.jac = grad f(s.x),
  s.fun <= f(x0), nit, status.
"""
import contextlib
import io
import math
import random
import warnings

import common as C

TOL = 1e-12


# ----------------------------------------------------------------------------------------------
# objectives: pure functions x -> (f, g)
# ----------------------------------------------------------------------------------------------

def make_objective(kind, n, seed):
    import numpy as np
    rnd = random.Random(seed * 7919 + n)
    if kind == "quad":
        L = np.array([[rnd.uniform(-1, 1) for _ in range(n)] for _ in range(n)])
        A = L @ L.T + np.diag([rnd.uniform(0.3, 3.0) for _ in range(n)])
        c = np.array([rnd.uniform(-2, 2) for _ in range(n)])
        off = rnd.uniform(-5, 5)

        def fg(x):
            d = np.asarray(x, float) - c
            return float(off + 0.5 * d @ A @ d), A @ d
        return fg
    if kind == "rosen":
        def fg(x):
            x = np.asarray(x, float)
            f = 0.0
            g = np.zeros(len(x))
            for i in range(len(x) - 1):
                f += 100 * (x[i + 1] - x[i] ** 2) ** 2 + (1 - x[i]) ** 2
                g[i] += -400 * x[i] * (x[i + 1] - x[i] ** 2) - 2 * (1 - x[i])
                g[i + 1] += 200 * (x[i + 1] - x[i] ** 2)
            return float(f), g
        return fg
    if kind == "cos":
        p = np.array([rnd.uniform(-3, 3) for _ in range(n)])
        a = np.array([rnd.uniform(0.5, 2.0) for _ in range(n)])

        def fg(x):
            x = np.asarray(x, float)
            return float(-np.sum(a * np.cos(x - p)) + 0.05 * np.sum(x * x)), a * np.sin(x - p) + 0.1 * x
        return fg
    if kind == "l1":  # kinks: the Wolfe search fails, the fallback search is exercised
        c = np.array([rnd.uniform(-1, 1) for _ in range(n)])
        w = np.array([rnd.uniform(0.5, 2.0) for _ in range(n)])

        def fg(x):
            d = np.asarray(x, float) - c
            return float(np.sum(w * np.abs(d))), w * np.sign(d)
        return fg
    if kind == "nangrad":  # a gradient component is NaN beyond a threshold (failed autodiff): Cached_FG's NaN branches
        c = np.array([rnd.uniform(-1, 1) for _ in range(n)])
        a = np.array([rnd.uniform(0.5, 2.0) for _ in range(n)])
        t = rnd.uniform(-0.5, 0.5)

        def fg(x):
            d = np.asarray(x, float) - c
            g = a * d
            if x[0] > t:
                g = g.copy()
                g[0] = float("nan")
            return float(0.5 * np.sum(a * d * d)), g
        return fg
    if kind == "witness":  # the objective of TfPwaV.C08b.fun_above_start_witness: f(x) = 2 |x|^2
        def fg(x):
            x = np.asarray(x, float)
            return float(2 * np.sum(x * x)), 4 * x
        return fg
    if kind == "steep":  # a full quasi-Newton step with H = I overshoots by far: the unchecked fall-back steps go uphill
        a = np.array([rnd.uniform(2.0, 6.0) for _ in range(n)])

        def fg(x):
            x = np.asarray(x, float)
            return float(np.sum(a * x * x)), 2 * a * x
        return fg
    raise ValueError(kind)


@contextlib.contextmanager
def quiet():
    with contextlib.redirect_stdout(io.StringIO()), warnings.catch_warnings():
        warnings.simplefilter("ignore")
        yield


class HarnessLarge(Exception):
    """raised by the harness callback (stands for LargeNumberError)"""


def run_real(fg, x0, maxiter=None, gtol=1e-5, M=2, cb_limit=None, ls_raises_at=()):
    """the real tf_pwa.fit_improve.minimize with everything the model takes as a parameter recorded"""
    import numpy as np
    import tf_pwa.fit_improve as FI
    rec = {"calls": [], "ls": [], "inv": {}, "nm_direct": []}
    cur = {}

    base = FI.Cached_FG

    class RecFG(base):
        def __call__(self, x):
            r = base.__call__(self, x)
            rec["calls"].append((np.array(x, float), float(r[0]), np.array(r[1], float)))
            return r

    o_cf, o_ls, o_nm, o_inv = FI.Cached_FG, FI.line_search_wolfe2, FI.line_search_nonmonote, np.linalg.inv

    def ls(f, myfprime, xk, pk, gfk=None, fk=None, old_fval=None, old_old_fval=None, *a, **k):
        cf = f.__self__
        n0 = cf.ncall
        ent = {"xk": np.array(xk, float), "pk": np.array(pk, float), "gfk": np.array(gfk, float), "fmax": float(fk),
               "oldF": float(old_fval), "oldOldF": float(old_old_fval), "nm": None}
        rec["ls"].append(ent)
        cur["ent"] = ent
        try:
            if len(rec["ls"]) - 1 in ls_raises_at:
                raise RuntimeError("line search made to fail by the harness")
            r = o_ls(f, myfprime, xk, pk, gfk, fk, old_fval, old_old_fval, *a, **k)
        except Exception as e:
            ent["exc"] = type(e).__name__
            ent["nfun"] = cf.ncall - n0
            raise
        ent["nfun"] = cf.ncall - n0
        ent["ans"] = (None if r[0] is None else float(r[0]), float("nan") if r[3] is None else float(r[3]),
                      float("nan") if r[4] is None else float(r[4]), np.array(r[5], float))
        return r

    def nm(*a, **k):
        buf = io.StringIO()
        with contextlib.redirect_stdout(buf):
            r = o_nm(*a, **k)
        cur["ent"]["nm"] = "notfound" if "not found" in buf.getvalue() else "found"
        return r

    def inv(m):
        idx = len(rec["ls"])
        try:
            r = o_inv(m)
        except Exception:
            rec["inv"][idx] = (np.array(m, float), None)
            raise
        rec["inv"][idx] = (np.array(m, float), np.array(r, float))
        return r

    def cb(x):
        if cb_limit is not None and float(np.fabs(x).sum()) > cb_limit:
            raise HarnessLarge()

    opts = {"gtol": gtol, "maxiter": maxiter, "M": M, "disp": 1}
    FI.Cached_FG, FI.line_search_wolfe2, FI.line_search_nonmonote, np.linalg.inv = RecFG, ls, nm, inv
    try:
        with quiet():
            try:
                s = FI.minimize(fg, np.array(x0, float), callback=cb, options=opts)
                out = ("ok", s)
            except HarnessLarge:
                out = ("raised", "LargeNumberError")
    finally:
        FI.Cached_FG, FI.line_search_wolfe2, FI.line_search_nonmonote, np.linalg.inv = o_cf, o_ls, o_nm, o_inv
    return out, rec


def hs(v):
    return " ".join(C.f2h(float(t)) for t in v)


def run_line(x0, rec, maxiter, gtol, M, cb_limit, best):
    n = len(x0)
    t = ["C08b", "run", "1" if best else "0", str(M), C.f2h(gtol), "N" if maxiter is None else str(maxiter),
         "N" if cb_limit is None else C.f2h(cb_limit), str(n), hs(x0), str(len(rec["calls"]))]
    for x, f, g in rec["calls"]:
        t += [hs(x), C.f2h(f), hs(g)]
    t.append(str(len(rec["ls"])))
    for e in rec["ls"]:
        if "exc" in e:
            t += ["E", str(e["nfun"])]
        else:
            a, nf, of, g = e["ans"]
            t += ["A", "N" if a is None else C.f2h(a), C.f2h(nf), C.f2h(of), hs(g), str(e["nfun"])]
    ninv = (max(rec["inv"]) + 1) if rec["inv"] else 0
    t.append(str(ninv))
    for i in range(ninv):
        ent = rec["inv"].get(i)
        if ent is None or ent[1] is None:
            t.append("X")
        else:
            t += ["I", hs(ent[1].flatten())]
    return " ".join(t)


def vec_close(a, b, tol=TOL):
    a = [float(v) for v in a]
    b = [float(v) for v in b]
    if len(a) != len(b):
        return False
    fin = [abs(v) for v in a + b if math.isfinite(v)]
    scale = max([1.0] + fin)
    for u, v in zip(a, b):
        if math.isnan(u) or math.isnan(v):
            if not (math.isnan(u) and math.isnan(v)):
                return False
        elif math.isinf(u) or math.isinf(v):
            if u != v:
                return False
        elif abs(u - v) > tol * scale:
            return False
    return True


def parse_run(line, n):
    head, _, tail = line.partition(" # ")
    h = head.split()
    out = {"states": []}
    if h[0] == "raised":
        out["raised"] = h[1]
    elif h[0] == "ok":
        fl = [C.h2f(v) for v in h[6:]]
        out.update({"status": int(h[1]), "nit": int(h[2]), "nfev": int(h[3]), "bodies": int(h[4]), "success": h[5] == "1",
                    "fun": fl[0], "x": fl[1:1 + n], "jac": fl[1 + n:1 + 2 * n], "hess": fl[1 + 2 * n:]})
    else:
        out["bad"] = head
    for st in [s for s in tail.split(" ; ") if s.strip()]:
        fl = [C.h2f(v) for v in st.split()]
        out["states"].append({"xk": fl[0:n], "fk": fl[n], "gk": fl[n + 1:2 * n + 1], "pk": fl[2 * n + 1:3 * n + 1], "fmax": fl[3 * n + 1],
                              "oldF": fl[3 * n + 2], "oldOldF": fl[3 * n + 3], "Bk": fl[3 * n + 4:]})
    return out


def compare_run(out, rec, m, n):
    """whole iterate sequence + result fields; -> None or a description of the first difference"""
    if "bad" in m:
        return "model answer unreadable: %r" % m["bad"][:80]
    kind, s = out
    if kind == "raised":
        if m.get("raised") != s:
            return "impl raised %s, model %r" % (s, {k: v for k, v in m.items() if k != "states"})
    else:
        if "raised" in m:
            return "impl returned, model raised %s" % m["raised"]
        if (int(s.status), int(s.nit), int(s.nfev), bool(s.success)) != (m["status"], m["nit"], m["nfev"], m["success"]):
            return "status/nit/nfev/success: impl %r model %r" % ((int(s.status), int(s.nit), int(s.nfev), bool(s.success)),
                                                                   (m["status"], m["nit"], m["nfev"], m["success"]))
        for name, a, b in (("fun", [s.fun], [m["fun"]]), ("x", s.x, m["x"]), ("jac", s.jac, m["jac"]), ("hess", s.hess.flatten(), m["hess"])):
            if not vec_close(a, b):
                return "result.%s: impl %r model %r" % (name, [float(v) for v in a], list(b))
    if len(m["states"]) < len(rec["ls"]):
        return "iterations: impl made %d line searches, model entered %d loop bodies" % (len(rec["ls"]), len(m["states"]))
    for j, e in enumerate(rec["ls"]):
        st = m["states"][j]
        for name, a, b in (("xk", e["xk"], st["xk"]), ("pk", e["pk"], st["pk"]), ("gfk", e["gfk"], st["gk"]), ("fmax", [e["fmax"]], [st["fmax"]]),
                           ("old_fval", [e["oldF"]], [st["fk"]]), ("old_old_fval", [e["oldOldF"]], [st["oldOldF"]])):
            if not vec_close(a, b):
                return "iteration %d, line-search argument %s: impl %r model %r" % (j, name, [float(v) for v in a], list(b))
        ent = rec["inv"].get(j + 1)
        if ent is not None and j + 1 < len(m["states"]):
            if not vec_close(ent[0].flatten(), m["states"][j + 1]["Bk"], 1e-11):
                return "iteration %d, Bk after the update: impl %r model %r" % (j, ent[0].flatten().tolist(), m["states"][j + 1]["Bk"])
    return None


def check_contract(fg, rec, refresh):
    """the hypotheses of the Lean theorems on every recorded answer of the REAL line search; -> (list of problems, counts)"""
    import numpy as np
    bad, cnt = [], {"wolfe": 0, "nm-found": 0, "nm-notfound": 0, "exc": 0, "alpha-none": 0}
    for j, e in enumerate(rec["ls"]):
        if "exc" in e:
            cnt["exc"] += 1
            continue
        a, nf, of, g = e["ans"]
        if a is None:
            cnt["alpha-none"] += 1
            continue
        kind = "wolfe" if e["nm"] is None else "nm-" + e["nm"]
        cnt[kind] += 1
        xn = e["xk"] + a * e["pk"]
        ft, gt = fg(xn)
        d0 = float(np.dot(e["gfk"], e["pk"]))
        same = (nf == ft or (math.isnan(nf) and math.isnan(ft))) and np.array_equal(g, gt, equal_nan=True)
        if kind != "nm-notfound" or refresh:
            if not same:
                bad.append("iteration %d (%s): line search returns new_fval %r, gradient %r; f, grad at xk + alpha pk are %r, %r" % (j, kind, nf, g.tolist(), ft, gt.tolist()))
        if kind == "wolfe" and not (nf <= e["oldF"] + 1e-4 * a * d0):
            bad.append("iteration %d: Wolfe answer violates Armijo: %r > %r + 1e-4*%r*%r" % (j, nf, e["oldF"], a, d0))
        if kind == "nm-found" and not (nf < e["fmax"] + 1e-4 * a * d0):
            bad.append("iteration %d: non-monotone answer violates its test: %r >= %r + 1e-4*%r*%r" % (j, nf, e["fmax"], a, d0))
        if not (e["oldF"] <= e["fmax"]) and not math.isnan(e["oldF"]):
            bad.append("iteration %d: fk = %r above the window maximum %r" % (j, e["oldF"], e["fmax"]))
    return bad, cnt


def check_clauses(fg, x0, out, maxiter, gtol, n):
    """the property on the minimiser itself; -> list of (key, what)"""
    import numpy as np
    kind, s = out
    if kind != "ok":
        return []
    fails = []
    f0 = fg(np.array(x0, float))[0]
    fx, gx = fg(np.array(s.x, float))
    fun = float(s.fun)
    if math.isnan(fun) or any(math.isnan(float(v)) for v in s.x):
        fails.append(("fmin_bfgs_f:nan-result", "fit_improve.minimize returns fun = %r at x = %r (start %r, f(start) = %r, status %r)" % (
            fun, [float(v) for v in s.x], [float(v) for v in x0], f0, int(s.status))))
        return fails
    jac = np.array(s.jac, float)
    known = ~np.isnan(gx)  # a NaN component of the objective's gradient is replaced by Cached_FG's finite difference
    if fun != fx or not np.array_equal(jac[known], gx[known]):
        fails.append(("fmin_bfgs_f:fun-vs-x", "fit_improve.minimize: s.fun = %r, s.jac = %r but f(s.x) = %r, grad f(s.x) = %r" % (fun, [float(v) for v in s.jac], fx, gx.tolist())))
    if not fun <= f0:
        fails.append(("fmin_bfgs_f:fun-above-start", "fit_improve.minimize: s.fun = %r > f(x0) = %r (x0 = %r, status %r)" % (fun, f0, [float(v) for v in x0], int(s.status))))
    mi = 200 * n if maxiter is None else maxiter
    if not (0 <= int(s.nit) <= max(mi - 1, 0)) or bool(s.success) != (int(s.status) == 0) or int(s.status) not in (0, 1, 2):
        fails.append(("fmin_bfgs_f:bookkeeping", "nit = %r, status = %r, success = %r with maxiter %r" % (s.nit, s.status, s.success, mi)))
    if bool(s.success) and not float(np.max(np.abs(s.jac))) <= gtol:
        fails.append(("fmin_bfgs_f:success-without-gtol", "success with max|jac| = %r > gtol %r" % (float(np.max(np.abs(s.jac))), gtol)))
    return fails


def gen_cases(seed, quick, suspect=False):
    """(kind, n, objective seed, x0, maxiter, gtol, M, cb_limit, ls_raises_at)"""
    rnd = random.Random(seed * 1000003 + 17)
    cases = []
    reps = 2 if quick else 12
    if suspect:
        reps *= 3
    for r in range(reps):
        for kind, ns in (("quad", [1, 2, 3, 4]), ("rosen", [2, 3]), ("cos", [2, 3]), ("l1", [1, 2, 3]), ("nangrad", [2, 3]), ("steep", [1, 2])):
            n = rnd.choice(ns)
            x0 = [round(rnd.uniform(-3, 3), 3) for _ in range(n)]
            maxiter = rnd.choice([None, None, 0, 1, 2, 3, 7, 25])
            gtol = rnd.choice([1e-5, 1e-3, 1e-3, 1e-9])
            M = rnd.choice([2, 2, 2, 1, 3])
            cbl = rnd.choice([None, None, None, 4.0])
            raises = ()
            if kind in ("steep", "quad") and rnd.random() < 0.6:
                raises = tuple(sorted(rnd.sample(range(0, 6), rnd.randint(1, 4))))
            cases.append((kind, n, rnd.randrange(1 << 20), x0, maxiter, gtol, M, cbl, raises))
    # deterministic corner cases
    cases.append(("witness", 1, 1, [1.0], 1, 1e-5, 2, None, (0,)))        # the Lean witness: one failed line search
    cases.append(("steep", 2, 2, [1.0, -0.5], None, 1e-5, 2, None, (0, 1, 2)))  # re_search > 2 exit
    cases.append(("quad", 2, 3, [0.5, 0.5], 0, 1e-5, 2, None, ()))         # maxiter = 0
    cases.append(("l1", 2, 1, [-1.319, 5.696], None, 1e-5, 2, None, ()))   # Wolfe fails -> fallback search -> NaN update
    cases.append(("quad", 3, 431, [-2.126, 2.874, 0.83], None, 1e-12, 2, None, ()))  # gtol below the attainable precision: "not found" exit of the fallback search
    cases.append(("cos", 3, 964, [-2.847, 1.336, 2.872], None, 1e-12, 2, None, ()))
    return cases


# ----------------------------------------------------------------------------------------------
# line_search_nonmonote / Cached_FG directly
# ----------------------------------------------------------------------------------------------

def nm_cases(seed, quick):
    rnd = random.Random(seed * 31337 + 5)
    out = []
    for i in range(12 if quick else 80):
        kind = rnd.choice(["quad", "cos", "l1", "steep", "nangrad"])
        n = rnd.choice([1, 2, 3])
        xk = [round(rnd.uniform(-2, 2), 3) for _ in range(n)]
        pk = [round(rnd.uniform(-2, 2), 3) for _ in range(n)]
        out.append((kind, n, rnd.randrange(1 << 20), xk, pk, rnd.choice([1e-4, 0.5, 0.1]), rnd.choice([0, 1, 3, 10]), rnd.choice([-1.0, 0.0, 1.0, 30.0])))
    return out


def run_nm(case):
    """real line_search_nonmonote with a real Cached_FG; -> (outcome, table of raw evaluations)"""
    import numpy as np
    import tf_pwa.fit_improve as FI
    kind, n, sd, xk, pk, c1, maxiter, dold = case
    fg = make_objective(kind, n, sd)
    tab = []

    def raw(x):
        r = fg(x)
        tab.append((np.array(x, float), float(r[0]), np.array(r[1], float)))
        return r

    cf = FI.Cached_FG(raw)
    xk, pk = np.array(xk, float), np.array(pk, float)
    f0, g0 = cf(xk)
    old = f0 + dold
    try:
        with quiet():
            r = FI.line_search_nonmonote(cf.fun, cf.grad, xk, pk, g0, old, f0, f0, (), c1, maxiter)
        out = ("ret", float(r[0]), None if r[3] is None else float(r[3]), float(r[4]), np.array(r[5], float))
    except TypeError:
        out = ("raised",)
    return out, tab, (xk, pk, g0, old)


def nm_line(case, tab, args, refresh):
    kind, n, sd, _, _, c1, maxiter, _ = case
    xk, pk, g0, old = args
    t = ["C08b", "nm", "1" if refresh else "0", C.f2h(c1), str(maxiter), str(n), hs(xk), hs(pk), hs(g0), C.f2h(old), str(len(tab))]
    for x, f, g in tab:
        t += [hs(x), C.f2h(f), hs(g)]
    return " ".join(t)


def compare_nm(out, line):
    w = line.split()
    if out[0] == "raised" or w[0] == "raised":
        return None if (out[0] == w[0]) else "impl %r model %r" % (out[0], w[0])
    a, phi, old, g = out[1:]
    ma, mphi, mold = C.h2f(w[1]), (None if w[2] == "N" else C.h2f(w[2])), C.h2f(w[3])
    mg = [C.h2f(v) for v in w[5:]]
    if not vec_close([a, old], [ma, mold]) or (phi is None) != (mphi is None) or (phi is not None and not vec_close([phi], [mphi])) or not vec_close(g, mg):
        return "impl (alpha %r, phi %r, old %r, g %r) model (%r, %r, %r, %r)" % (a, phi, old, g.tolist(), ma, mphi, mold, mg)
    return None


def cache_cases(seed, quick):
    rnd = random.Random(seed * 271 + 3)
    out = []
    for i in range(10 if quick else 60):
        kind = rnd.choice(["quad", "nangrad", "nangrad", "cos"])
        n = rnd.choice([1, 2, 3])
        # points on a small grid: different points that share coordinates (a cache keyed on part of x would hit)
        pts = [[rnd.choice([-1.0, 0.5, 1.25, round(rnd.uniform(-1.5, 1.5), 2)]) for _ in range(n)] for _ in range(4)]
        ops = [("C", rnd.choice(pts))] + [(rnd.choice("FGC"), rnd.choice(pts)) for _ in range(rnd.randint(2, 8))]
        out.append((kind, n, rnd.randrange(1 << 20), rnd.choice([1.0, 1.0, 2.5]), ops))
    return out


def run_cache(case):
    import numpy as np
    import tf_pwa.fit_improve as FI
    kind, n, sd, scale, ops = case
    fg = make_objective(kind, n, sd)
    tab = []

    def raw(x):
        r = fg(x)
        tab.append((np.array(x, float), float(r[0]), np.array(r[1], float)))
        return r[0], np.array(r[1], float)

    cf = FI.Cached_FG(raw, grad_scale=scale)
    outs = []
    for op, x in ops:
        x = np.array(x, float)
        try:
            with quiet():
                if op == "F":
                    outs.append(("F", [float(cf.fun(x))], cf.ncall))
                elif op == "G":
                    outs.append(("G", [float(v) for v in cf.grad(x)], cf.ncall))
                else:
                    f, g = cf(x)
                    outs.append(("C", [float(f)] + [float(v) for v in g], cf.ncall))
        except TypeError:
            outs.append(("G", None, cf.ncall))
    return outs, tab


def cache_line(case, tab):
    kind, n, sd, scale, ops = case
    t = ["C08b", "cache", C.f2h(scale), str(n), str(len(tab))]
    for x, f, g in tab:
        t += [hs(x), C.f2h(f), hs(g)]
    for op, x in ops:
        t += [op, hs(x)]
    return " ".join(t)


def compare_cache(outs, line):
    parts = line.split(" ; ")
    if len(parts) != len(outs):
        return "impl %d ops, model %d answers" % (len(outs), len(parts))
    for i, ((op, vals, nc), p) in enumerate(zip(outs, parts)):
        w = p.split()
        if w[0] != op or int(w[-1]) != nc:
            return "op %d: impl (%s, ncall %d) model %r" % (i, op, nc, p[:60])
        if vals is None or w[1] == "raised":
            if not (vals is None and w[1] == "raised"):
                return "op %d (%s): impl %r model %r" % (i, op, vals, p[:60])
            continue
        mv = [C.h2f(v) for v in w[1:-1]]
        if not vec_close(vals, mv):
            return "op %d (%s): impl %r model %r" % (i, op, vals, mv)
    return None


# ----------------------------------------------------------------------------------------------
# which variant does the tree have
# ----------------------------------------------------------------------------------------------

def probe_fix():
    import numpy as np
    import tf_pwa.fit_improve as FI
    fg = make_objective("witness", 1, 1)
    out, rec = run_real(fg, [1.0], maxiter=1, ls_raises_at=(0,))
    best = out[0] == "ok" and float(out[1].fun) <= fg(np.array([1.0]))[0]
    f = lambda x: float(x[0])
    with quiet():
        r = FI.line_search_nonmonote(f, lambda x: np.array([1.0]), np.array([0.0]), np.array([1.0]), np.array([1.0]), 0.0, 0.0, 0.0, (), 0.5, 3)
    refresh = r[3] == f(np.array([0.0]) + r[0] * np.array([1.0]))
    return {"best": bool(best), "refresh": bool(refresh)}
