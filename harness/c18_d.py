"""C18 (round 6, model TfPwaV.DataZ): iteration of a merged LazyCall, save_data / save_dataz / load_data files, flat npz files
read back by key, LazyCall(HeavyCall(g), LazyFile(x)) (also on memory-mapped npy input), cache naming of as_dataset.
correspond(): exact comparison of the real code with the Lean model; search(): the statements on the implementation with
numpy oracles that do not use the model."""
import os
import random
import shutil
import tempfile

import common as C

K_MERGE_ITER = "LazyCall.merge:iteration"
K_LOAD_BARE = "load_data:bare-array:one-element"
K_LOAD_BARE_Z = "load_data:bare-array:npz"
K_SAVE_LOAD = "save_data/load_data:dict"
K_FLAT_NPZ = "flatten_dict_data:npz:by-key"
K_LAZYFILE = "LazyFile:HeavyCall:batches"
K_ROOT = "root_io:save_dict_to_root/load_root_data"


def _np():
    import numpy as np
    return np


def P(**kw):
    d = {"op": "d_search"}
    d.update(kw)
    return d


# ----------------------------------------------------------------------------- helpers
def show_batches(B, fn):
    """'ok k ; tree ; tree' (dict keys sorted) or 'none' when the code raises anywhere during the iteration"""
    try:
        ps = fn()
        return "ok %d ; %s" % (len(ps), " ; ".join(B.encs(p, True) for p in ps))
    except Exception:  # noqa: BLE001 - any exception of the code under test is the 'none' outcome
        return "none"


def aligned_case(rnd, B, out_key_all=None):
    """operands that ARE pieces of samples: x_i with n_i rows, every attached item with n_i rows; some items attached to all
    operands, some to a few only; an item named like an output of f is attached to all or to none"""
    np = _np()
    m = rnd.choice([1, 2, 2, 3])
    fid = rnd.choice([1, 3, 3])
    tmpl = B.gen_dict_tree(rnd, 1, depth=1)
    inner = {"weight": (), "c": (2,), "q": ()}
    pool = rnd.sample(sorted(inner), rnd.randint(0, 3))
    partial = {k for k in pool if rnd.random() < 0.3}
    y_all = rnd.random() < 0.4 if out_key_all is None else out_key_all

    def arr(n, sh):
        return np.array([rnd.randint(-9, 9) for _ in range(n * int(np.prod(sh, dtype=int)))], dtype=float).reshape((n,) + sh)

    xs, es = [], []
    for i in range(m):
        n = rnd.choice([1, 2, 3, 5])
        x = B.tree_map(tmpl, lambda a: arr(n, a.shape[1:]))
        e = {}
        for k in pool:
            if k in partial and rnd.random() < 0.5:
                continue
            e[k] = arr(n, inner[k])
        if y_all:
            e["y"] = B.tree_map(x, lambda a: a + 100.0)
        xs.append(x)
        es.append(e)
    return fid, xs, es


def mk_lazy(D, B, fid, xs, es):
    Ls = []
    for x, e in zip(xs, es):
        L = D.LazyCall(B.test_f(fid), x)
        for k, v in e.items():
            L[k] = v
        Ls.append(L)
    return Ls


def run_lmiter(D, B, fid, xs, es, b):
    def lazy():
        M = D.data_merge(*mk_lazy(D, B, fid, xs, es))
        M.as_dataset(b)
        return [D.data_to_numpy(p) for p in M]

    def eager():
        return [D.data_to_numpy(p) for p in D.data_split(D.data_merge(*[L.eval() for L in mk_lazy(D, B, fid, xs, es)]), b)]
    return show_batches(B, lazy), show_batches(B, eager)


def str_dict_tree(rnd, B, n, collide=False):
    """a dict whose own keys are str (np.savez(**flat) needs str keywords); below: any nesting, BaseParticle keys, empty containers"""
    out = {}
    for k in rnd.sample(B.KEYS, rnd.randint(1, 3)):
        out[k] = B.gen_tree(rnd, n, depth=rnd.choice([0, 1, 2]), p_empty=0.15, top=False)
    if collide:
        np = _np()
        out["a"] = {"b": np.arange(float(n)) + 1}
        out["a/b"] = np.arange(float(n)) + 7
    return out


def leaf_paths(t, pre=()):
    if isinstance(t, dict):
        for k, v in t.items():
            yield from leaf_paths(v, pre + (k,))
    elif isinstance(t, (list, tuple)):
        for i, v in enumerate(t):
            yield from leaf_paths(v, pre + (i,))
    else:
        yield pre


def walk(t, path):
    """exact addressing (independent of data_index): dict by key object, list / tuple by position; None when absent"""
    for k in path:
        if isinstance(t, dict):
            if isinstance(k, int) or k not in t:
                return None
            t = t[k]
        elif isinstance(t, (list, tuple)):
            if not isinstance(k, int) or k >= len(t):
                return None
            t = t[k]
        else:
            return None
    return None if isinstance(t, (dict, list, tuple)) else t


def path_tokens(B, path):
    return [("#%d" % k) if isinstance(k, int) else B.keystr(k) for k in path]


def rows(B, a):
    return "none" if a is None else B.encs(_np().asarray(a))


def show_loaded(B, fn):
    np = _np()
    try:
        r = fn()
    except Exception:  # noqa: BLE001
        return "raise"
    if isinstance(r, (dict, list, tuple)) or (isinstance(r, np.ndarray) and r.ndim >= 1):
        return "T " + B.encs(r)
    if isinstance(r, (int, float)) and float(r) == int(r):
        return "S %d" % int(r)
    return "other:%s" % type(r).__name__


def observe_load_variant():
    """which load_data does the working tree implement? (0 = data.item() turns a one-element array into a scalar, 1 = after
    fix_load_data_bare_array.diff)"""
    np = _np()
    from tf_pwa import data as D
    tmp = tempfile.mkdtemp(prefix="c18d_v_")
    try:
        path = os.path.join(tmp, "one.npy")
        D.save_data(path, np.array([5.0]))
        r = D.load_data(path)
        path = os.path.join(tmp, "two.npz")
        D.save_dataz(path, np.array([5.0, 6.0]))
        try:
            r2 = D.load_data(path)
        except Exception:  # noqa: BLE001
            r2 = None
        return 1 if isinstance(r, np.ndarray) and r.shape == (1,) and isinstance(r2, np.ndarray) and r2.shape == (2,) else 0
    finally:
        shutil.rmtree(tmp, ignore_errors=True)


def cache_run(D, tmp, name, x, hist):
    """every pass by a NEW LazyCall object (only the files survive): sizes of the batches it sees; then the cache keys on disk"""
    g = lambda d: {"y": d["a"] * 2.0}  # noqa: E731
    out = []
    for b in hist:
        L = D.LazyCall(D.HeavyCall(g), x)
        L.set_cached_file(tmp + os.sep, name)
        L.as_dataset(b)
        out.append(",".join(str(len(p["y"])) for p in L))
    keys = sorted({f.split(".")[0] for f in os.listdir(tmp)})
    return " ; ".join(out) + " | " + ",".join(keys)


# ----------------------------------------------------------------------------- correspondence
def correspond(ctx, res):
    import c18 as B
    import c18_y as Y
    np = _np()
    from tf_pwa import data as D
    rnd = random.Random(9191 + ctx.seed)
    scale = 1 if ctx.quick and not ctx.suspect else 4
    lines, impl, kinds = [], [], []
    LV = observe_load_variant()
    res.coverage["c18d_load_data_variant"] = "fixed" if LV else "unfixed (one-element bare array -> scalar)"

    def add(op, got, kind):
        lines.append("C18d " + op)
        impl.append(got)
        kinds.append(kind)

    # --- iteration of data_merge(L0, L1, ...) | data_split of data_merge of the eager values -------------------------------
    for ci in range(40 * scale):
        if ci % 2 == 0:
            fid, xs, es = aligned_case(rnd, B)
        else:
            fid, xs, es = Y.merge_case(rnd, B)
        if not all(B.has_leaf(x) for x in xs):
            continue
        b = rnd.choice([1, 2, 3, 4, 7])
        lazy, eager = run_lmiter(D, B, fid, xs, es, b)
        add("lmiter %d %d %d %s" % (fid, b, len(xs), " ".join(B.encs(x) + " " + B.encs(e) for x, e in zip(xs, es))), lazy + " | " + eager, "lmiter")

    tmp = tempfile.mkdtemp(prefix="c18d_")
    try:
        # --- save_data / save_dataz / load_data: dicts (any nesting below) and bare arrays ---------------------------------------
        for ci in range(40 * scale):
            n = rnd.choice([1, 1, 2, 3])
            if ci % 3 == 2:
                sh = rnd.choice([(), (), (1,), (2,), (1, 1)])
                t = np.array([rnd.randint(-9, 9) for _ in range(n * int(np.prod(sh, dtype=int)))], dtype=float).reshape((n,) + sh)
            else:
                t = B.gen_tree(rnd, n, depth=rnd.choice([1, 2, 3]), p_empty=0.2)
                if not isinstance(t, dict):
                    t = {"k": t, "z": {}}
            for fmt, save in (("npy", D.save_data), ("npz", D.save_dataz)):
                path = os.path.join(tmp, "f%d.%s" % (ci, fmt))

                def fn(save=save, path=path, t=t):
                    save(path, t)
                    return D.load_data(path)
                add("fileio %d %s %s" % (LV, fmt, B.encs(t)), show_loaded(B, fn), "fileio")

        # --- np.savez(**flatten_dict_data(d)) read back: key order, npz[key] for array paths (and a path that is none) -----------
        for ci in range(40 * scale):
            n = rnd.choice([1, 2, 3])
            t = str_dict_tree(rnd, B, n, collide=(ci % 8 == 7))
            paths = list(leaf_paths(t))
            rnd.shuffle(paths)
            paths = paths[:4] + [("nokey",), ("a", "b")]
            path = os.path.join(tmp, "z%d.npz" % ci)
            try:
                np.savez(path, **D.flatten_dict_data(t))
                z = np.load(path)
                got = ",".join(z.files) + " | " + " ; ".join(
                    "%s = %s = %s" % (key, rows(B, z[key] if key in z.files else None), rows(B, walk(t, p)))
                    for p in paths for key in ["/".join(str(k) for k in p)])
            except Exception as e:  # noqa: BLE001
                got = "raise:" + type(e).__name__
            add("flatnpz %d %s %s" % (len(paths), " ".join("%d %s" % (len(p), " ".join(path_tokens(B, p))) for p in paths), B.encs(t)), got, "flatnpz")

        # --- LazyCall(HeavyCall(g), LazyFile(x)): batches | eval; x in memory or memory-mapped from an npy file -----------------
        for ci in range(10 * scale):
            n = rnd.choice([1, 2, 3, 5, 7])
            gid = rnd.choice([0, 3])
            if ci % 2 == 0:
                x = B.gen_dict_tree(rnd, n, depth=1)
            else:
                k = rnd.choice([1, 2, 3])
                arr = np.array([rnd.randint(-20, 20) for _ in range(n * k * 4)], dtype=float).reshape(n * k, 4)
                fpath = os.path.join(tmp, "m%d.npy" % ci)
                np.save(fpath, arr)
                x = {"p4": D.load_dat_file([fpath], ["P%d" % j for j in range(k)], mmap_mode="r")}
            e2 = {}
            for kk in rnd.sample(["weight", "y", "a"], rnd.randint(0, 2)):
                e2[kk] = np.array([rnd.randint(1, 9) for _ in range(n)], dtype=float)
            b = rnd.choice([1, 2, 3, n, n + 2])
            enc_x = B.encs(x)

            def batches(gid=gid, x=x, e2=e2, b=b):
                L = D.LazyCall(D.HeavyCall(B.test_f(gid)), D.LazyFile(dict(x)))
                for kk, v in e2.items():
                    L[kk] = v
                L.as_dataset(b)
                assert b in L.cached_batch
                return [D.data_to_numpy(p) for p in L]

            def ev(gid=gid, x=x, e2=e2):
                L = D.LazyCall(D.HeavyCall(B.test_f(gid)), D.LazyFile(dict(x)))
                for kk, v in e2.items():
                    L[kk] = v
                return D.data_to_numpy(L.eval())
            add("lfheavy %d %d %s %s" % (gid, b, enc_x, B.encs(e2)), show_batches(B, batches) + " | " + B.show_opt(ev, True)[0], "lfheavy")

        # --- cache naming: the same sample read with several batch sizes, each time by a new object ------------------------------
        for ci in range(3 * scale):
            n = rnd.choice([3, 5, 7, 10])
            hist = [rnd.choice([1, 2, 3, 4, n, n + 1]) for _ in range(rnd.randint(2, 4))]
            hist.append(hist[0])
            name = rnd.choice(["smp", "data_0", "s1"])
            cdir = tempfile.mkdtemp(prefix="c18d_cache_")
            try:
                x = {"a": np.arange(float(n))}
                try:
                    got = cache_run(D, cdir, name, x, hist)
                except Exception as e:  # noqa: BLE001
                    got = "raise:" + type(e).__name__
            finally:
                shutil.rmtree(cdir, ignore_errors=True)
            add("cache 1 - %s %d %s" % (name, n, " ".join(map(str, hist))), got, "cache")
    finally:
        shutil.rmtree(tmp, ignore_errors=True)

    model = ctx.model.query(lines)
    dis = [(l, a, b, k) for l, a, b, k in zip(lines, impl, model, kinds) if a.rstrip() != b.rstrip()]
    by_kind = {}
    for k in kinds:
        by_kind[k] = by_kind.get(k, 0) + 1
    res.coverage["c18d_ops_by_kind"] = by_kind
    res.coverage["c18d_raising_cases_by_kind"] = {k: sum(1 for kk, a in zip(kinds, impl) if kk == k and ("none" in a.split(" | ")[0][:5] or a.startswith("raise")))
                                                  for k in by_kind}
    res.coverage["c18d_disagreements"] = len(dis)
    res.coverage["traces_validated_against_impl"] = res.coverage.get("traces_validated_against_impl", 0) + len(lines)
    res.coverage["evaluations"] = res.coverage.get("evaluations", 0) + len(lines)
    for i in (0, len(lines) // 2, len(lines) - 1):
        res.samples.append({"op": lines[i][:300], "impl": impl[i][:300], "model": model[i][:300]})
    if dis:
        l, a, b, k = dis[0]
        res.broke("correspondence %s (model TfPwaV.DataZ vs tf_pwa.data)" % k,
                  {"op": l[:1500], "impl": a[:1500], "model": b[:1500], "n_disagree": len(dis), "kinds": sorted({d[3] for d in dis})})


# ----------------------------------------------------------------------------- search (model-independent oracles)
def search(ctx, res):
    import c18 as B
    np = _np()
    from tf_pwa import data as D
    rnd = random.Random(3131 + ctx.seed)
    mult = 6 if (not ctx.quick) or ctx.suspect else 1
    st = {"merged_iter": 0, "merged_iter_batches": 0, "save_load_dict": 0, "bare_arrays": 0, "flat_npz_paths": 0,
          "lazyfile_heavy": 0, "lazyfile_mmap": 0, "root_io": "not run"}

    def cat(ts):
        """numpy oracle for data_merge of trees with the same structure"""
        t0 = ts[0]
        if isinstance(t0, dict):
            return {k: cat([t[k] for t in ts]) for k in t0 if all(k in t for t in ts)}
        if isinstance(t0, (list, tuple)):
            return type(t0)(cat([t[i] for t in ts]) for i in range(len(t0)))
        return np.concatenate([np.asarray(t) for t in ts])

    # 1. pieces of samples merged lazily, then iterated with any batch size: batch q = rows [q*b, (q+1)*b) of the eager merge
    for _ in range(25 * mult):
        fid, xs, es = aligned_case(rnd, B)
        f = B.test_f(fid)
        common = [k for k in es[0] if all(k in e for e in es)]
        want = dict(f(cat(xs)))
        for k in common:
            want[k] = cat([e[k] for e in es])
        n = len(next(iter(B.leaves(want)))) if list(B.leaves(want)) else 0
        for b in rnd.sample([1, 2, 3, 4, n, n + 3], 2):
            b = max(1, b)
            try:
                M = D.data_merge(*mk_lazy(D, B, fid, xs, es))
                M.as_dataset(b)
                got = [D.data_to_numpy(p) for p in M]
            except Exception as e:  # noqa: BLE001
                res.fail(K_MERGE_ITER, "iterating data_merge of %d LazyCalls (pieces of samples, batch %d) raises %s: %s" % (len(xs), b, type(e).__name__, str(e)[:100]),
                         P(what="merged_iter"))
                return
            ref = [B.tree_map(want, lambda a: a[q * b:(q + 1) * b]) for q in range(-(-n // b))]
            st["merged_iter"] += 1
            st["merged_iter_batches"] += len(got)
            if len(got) != len(ref) or not all(B.tree_equal(g, r) for g, r in zip(got, ref)):
                res.fail(K_MERGE_ITER, "iteration of data_merge(L0, ..., L%d) with batch size %d (f = test_f(%d), extra keys %s): %d batches, not the %d row windows of data_merge of the eager values" % (
                    len(xs) - 1, b, fid, [sorted(e) for e in es], len(got), len(ref)), P(what="merged_iter"))
                return

    tmp = tempfile.mkdtemp(prefix="c18d_s_")
    try:
        # 2. save_data / save_dataz -> load_data: dicts round trip (structure, container types, key order, values)
        for i in range(15 * mult):
            n = rnd.choice([1, 2, 5])
            t = B.gen_tree(rnd, n, depth=3, p_empty=0.2)
            if not isinstance(t, dict):
                t = {"k": t}
            for fmt, save in (("npy", D.save_data), ("npz", D.save_dataz)):
                path = os.path.join(tmp, "s%d.%s" % (i, fmt))
                try:
                    save(path, t)
                    back = D.load_data(path)
                    ok = B.tree_equal(t, back) and B.encs(t) == B.encs(back)
                except Exception:  # noqa: BLE001
                    ok = False
                st["save_load_dict"] += 1
                if not ok:
                    res.fail(K_SAVE_LOAD, "load_data(save_data%s(d)) is not d (structure / key order / values) for a nested dict" % ("z" if fmt == "npz" else ""), P(what="save_load"))
                    return
        # 2b. a bare array (load_data has explicit branches for it): also with one element
        for n, sh in [(3, ()), (2, (2,)), (1, (3,)), (1, ()), (1, (1,))]:
            a = np.arange(float(n * int(np.prod(sh, dtype=int)))).reshape((n,) + sh) + 5
            path = os.path.join(tmp, "bare.npy")
            D.save_data(path, a)
            back = D.load_data(path)
            st["bare_arrays"] += 1
            if not (isinstance(back, np.ndarray) and back.shape == a.shape and np.array_equal(back, a)):
                res.fail(K_LOAD_BARE, "load_data(save_data(a)) for a bare array of shape %s returns %s %r, not the array (data.item() succeeds for ONE element: a one-event array comes back as a Python scalar)" % (
                    a.shape, type(back).__name__, back), P(what="bare_array", shape=list(a.shape)))
            path = os.path.join(tmp, "bare.npz")
            D.save_dataz(path, a)
            try:
                back = D.load_data(path)
            except Exception as e:  # noqa: BLE001
                back = "raises %s: %s" % (type(e).__name__, str(e)[:80])
            if not (isinstance(back, np.ndarray) and back.shape == a.shape and np.array_equal(back, a)):
                res.fail(K_LOAD_BARE_Z, "load_data(save_dataz(a)) for a bare array of shape %s gives %r, not the array (the ValueError of data['arr_0'].item() is not caught; one element: a Python scalar)" % (
                    a.shape, back), P(what="bare_array_npz", shape=list(a.shape)))
        # 3. flat npz files: every array of d is found under "/".join(str(k) for k in its path), when no joined key collides
        for i in range(15 * mult):
            t = str_dict_tree(rnd, B, rnd.choice([1, 2, 3]))
            flat = D.flatten_dict_data(t)
            paths = list(leaf_paths(t))
            keys = ["/".join(str(k) for k in p) for p in paths]
            if len(set(keys)) != len(keys):
                continue
            path = os.path.join(tmp, "fl%d.npz" % i)
            np.savez(path, **flat)
            z = np.load(path)
            for p, key in zip(paths, keys):
                st["flat_npz_paths"] += 1
                want = np.asarray(walk(t, p))
                if key not in z.files or z[key].shape != want.shape or not np.array_equal(z[key], want):
                    res.fail(K_FLAT_NPZ, "np.savez(**flatten_dict_data(d)): the array at path %s is not found under the key %r of the npz file (keys %s)" % (list(map(str, p)), key, z.files), P(what="flat_npz"))
                    return
            if z.files != keys:
                res.fail(K_FLAT_NPZ, "np.savez(**flatten_dict_data(d)): keys of the file %s are not the array paths in data_map order %s" % (z.files, keys), P(what="flat_npz"))
                return
        # 4. LazyCall(HeavyCall(g), LazyFile(x)), x in memory / memory-mapped: batch q = g(rows [q*b,(q+1)*b) of x) with the extras
        for i in range(6 * mult):
            n = rnd.choice([1, 3, 4, 7])
            k = rnd.choice([1, 2, 3])
            arr = np.array([rnd.randint(-20, 20) for _ in range(n * k * 4)], dtype=float).reshape(n * k, 4)
            fpath = os.path.join(tmp, "mm%d.npy" % i)
            np.save(fpath, arr)
            mm = i % 2 == 0
            names = ["P%d" % j for j in range(k)]
            x = {"p4": D.load_dat_file([fpath], names, mmap_mode="r" if mm else None)}
            eager = {"p4": {nm: arr.reshape(n, k, 4)[:, j] for j, nm in enumerate(names)}}
            w = np.arange(float(n)) + 1
            g = lambda d: {"y": {kk: v * 2.0 + 1.0 for kk, v in d["p4"].items()}, "m": d["p4"]["P0"][:, 0]}  # noqa: E731
            want = dict(g(eager))
            want["weight"] = w
            b = rnd.choice([1, 2, 3, n, n + 1])
            try:
                L = D.LazyCall(D.HeavyCall(g), D.LazyFile(x))
                L["weight"] = w
                L.as_dataset(b)
                got = [D.data_to_numpy(p) for p in L]
                ev = D.data_to_numpy(L.eval())
            except Exception as e:  # noqa: BLE001
                res.fail(K_LAZYFILE, "LazyCall(HeavyCall(g), LazyFile(x)) (mmap=%s, %d events, batch %d) raises %s: %s" % (mm, n, b, type(e).__name__, str(e)[:100]), P(what="lazyfile"))
                return
            ref = [B.tree_map(want, lambda a: a[q * b:(q + 1) * b]) for q in range(-(-n // b))]
            st["lazyfile_heavy"] += 1
            st["lazyfile_mmap"] += int(mm)
            if len(got) != len(ref) or not all(B.tree_equal(a, r) for a, r in zip(got, ref)) or not B.tree_equal(ev, want):
                res.fail(K_LAZYFILE, "LazyCall(HeavyCall(g), LazyFile(x)) (mmap=%s, %d events, batch %d): batches are not g of the row windows of the eager arrays (or eval() differs)" % (mm, n, b), P(what="lazyfile"))
                return
        # 5. root files (uproot): save_dict_to_root -> load_root_data, several trees, several files (event concatenation)
        try:
            from tf_pwa import root_io
            ok_root = bool(root_io.has_uproot)
        except Exception:  # noqa: BLE001
            ok_root = False
        if ok_root:
            st["root_io"] = 0
            for i in range(3 * mult):
                n1, n2 = rnd.choice([1, 3, 5]), rnd.choice([1, 2, 4])
                mk = lambda n: {"a": np.array([rnd.randint(-9, 9) for _ in range(n)], dtype=float), "w": np.arange(float(n))}  # noqa: E731
                d1, d2, e1 = mk(n1), mk(n2), mk(n1)
                f1, f2 = os.path.join(tmp, "r%d_1.root" % i), os.path.join(tmp, "r%d_2.root" % i)
                try:
                    root_io.save_dict_to_root([d1, e1], f1, ["t1", "t2"])
                    root_io.save_dict_to_root([d2, mk(n2)], f2, ["t1", "t2"])
                    one = D.data_to_numpy(root_io.load_root_data(f1))
                    two = D.data_to_numpy(root_io.load_root_data([f1, f2]))
                    ok = B.tree_equal({"t1": d1, "t2": e1}, one) and B.tree_equal(cat([d1, d2]), two["t1"])
                except Exception as e:  # noqa: BLE001
                    st["root_io"] = "raises %s: %s" % (type(e).__name__, str(e)[:80])
                    break
                st["root_io"] += 1
                if not ok:
                    res.fail(K_ROOT, "load_root_data(save_dict_to_root(...)) does not return the saved arrays (two trees, %d + %d events in two files)" % (n1, n2), P(what="root_io"))
                    return
    finally:
        shutil.rmtree(tmp, ignore_errors=True)
    res.coverage.setdefault("search", {})["c18d"] = st


class _Mod:
    search = staticmethod(search)


def replay(ctx, payload):
    return C.rerun_search_replay(_Mod, ctx, payload)
