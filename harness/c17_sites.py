"""C17 — inventory of every place of the library that can change the state the property is about.

`inventory(root)` walks the AST of every module under <root>/tf_pwa (tests excluded) and returns
{ "<file>::<qualified function>::<what>": count } where <what> is
  * the name of a called state-changing helper (temp_params, mask_params, temp_used_res, set_used_res, set_used_chains,
    add_used_chains, keep_used_chains, temp_total_gls_one, temp_config, set_config, using_amplitude, set_params,
    set_all, set_fix, set_trans_var, `vm.set`), or
  * `=<attr>` for a direct assignment to chains_idx / not_full / mask_vars / mask_factor / trainable_vars.
The key carries no line number, so it is stable under unrelated edits; a new function that touches the state, or one
more / one fewer call inside a reviewed function, changes the inventory.

`REVIEWED` is the list this check was written against: for every key the accepted counts and how the site is
covered (`model:<kind>` = statements transcribed in Model/Override.lean and driven on the real objects by
harness/c17.py; `via:<kind>` = reached only through a covered site; `excluded:<reason>`).
"""
import ast
import os

CALLS = {"temp_params", "mask_params", "temp_used_res", "set_used_res", "set_used_chains", "add_used_chains",
         "keep_used_chains", "temp_total_gls_one", "temp_config", "set_config", "using_amplitude", "set_params",
         "set_all", "set_fix", "set_trans_var", "assign"}
ATTRS = {"chains_idx", "not_full", "mask_vars", "mask_factor", "trainable_vars"}


def _is_test(rel):
    parts = rel.split(os.sep)
    return "tests" in parts or parts[-1].startswith("test_") or parts[-1] == "conftest.py"


class _V(ast.NodeVisitor):
    def __init__(self, rel, out):
        self.rel, self.out, self.stack = rel, out, []

    def _add(self, what):
        key = "%s::%s::%s" % (self.rel, ".".join(self.stack) or "<module>", what)
        self.out[key] = self.out.get(key, 0) + 1

    def _scope(self, node):
        self.stack.append(node.name)
        self.generic_visit(node)
        self.stack.pop()

    visit_FunctionDef = visit_AsyncFunctionDef = visit_ClassDef = _scope

    def visit_Call(self, node):
        f = node.func
        name = f.attr if isinstance(f, ast.Attribute) else (f.id if isinstance(f, ast.Name) else None)
        if name in CALLS:
            self._add(name)
        elif name == "set" and isinstance(f, ast.Attribute):
            recv = f.value
            rname = recv.attr if isinstance(recv, ast.Attribute) else (recv.id if isinstance(recv, ast.Name) else "")
            if rname == "vm":
                self._add("vm.set")
        self.generic_visit(node)

    def _targets(self, targets):
        for t in targets:
            if isinstance(t, (ast.Tuple, ast.List)):
                self._targets(t.elts)
            elif isinstance(t, ast.Attribute) and t.attr in ATTRS:
                self._add("=" + t.attr)
            elif isinstance(t, ast.Subscript) and isinstance(t.value, ast.Attribute) and t.value.attr in ATTRS:
                self._add("=" + t.value.attr)

    def visit_Assign(self, node):
        self._targets(node.targets)
        self.generic_visit(node)

    def visit_AugAssign(self, node):
        self._targets([node.target])
        self.generic_visit(node)


def inventory(root):
    out = {}
    base = os.path.join(root, "tf_pwa")
    for dp, dn, fn in os.walk(base):
        dn.sort()
        for f in sorted(fn):
            if not f.endswith(".py"):
                continue
            path = os.path.join(dp, f)
            rel = os.path.relpath(path, root)
            if _is_test(rel):
                continue
            with open(path, encoding="utf-8") as fh:
                try:
                    tree = ast.parse(fh.read())
                except SyntaxError as e:  # reported by the caller as an inventory difference
                    out["%s::<syntax error>::%s" % (rel, e.msg)] = 1
                    continue
            _V(rel, out).visit(tree)
    return out


# key -> (accepted counts: the tree as it is / after the proposed fix_C17_*.diff; 0 = the key may be absent), coverage
REVIEWED = {'tf_pwa/amp/amp.py::AbsPDF.mask_params::mask_params': ((1,),
                                                        'model:maskParams (block, driven through amp.mask_params; the ConfigLoader / ParamsTrans wrappers are the same one-line delegation)'),
 'tf_pwa/amp/amp.py::AbsPDF.set_params::set_all': ((1,), 'model:setParams (permanent assignment by design; the statement about it is set_params_* in Props/C17b.lean)'),
 'tf_pwa/amp/amp.py::AbsPDF.temp_params::assign': ((1,), 'model:absTemp/absTempSeq (block, driven)'),
 'tf_pwa/amp/amp.py::AbsPDF.temp_params::set_params': ((1,), 'model:absTemp/absTempSeq (block, driven)'),
 'tf_pwa/amp/amp.py::BaseAmplitudeModel.partial_weight::keep_used_chains': ((1,), 'model:pwBase (driven)'),
 'tf_pwa/amp/amp.py::BaseAmplitudeModel.partial_weight::set_used_chains': ((1,), 'model:pwBase (driven)'),
 'tf_pwa/amp/amp.py::BaseAmplitudeModel.set_used_chains::set_used_chains': ((1,),
                                                                            'excluded:one-line delegation to DecayGroup.set_used_chains / set_used_res (a permanent selection by design, the '
                                                                            'primitive the blocks are built from)'),
 'tf_pwa/amp/amp.py::BaseAmplitudeModel.set_used_res::set_used_res': ((1,),
                                                                      'excluded:one-line delegation to DecayGroup.set_used_chains / set_used_res (a permanent selection by design, the '
                                                                      'primitive the blocks are built from)'),
 'tf_pwa/amp/amp.py::BaseAmplitudeModel.temp_total_gls_one::=mask_factor': ((2,), 'model:glsOne (block, driven)'),
 'tf_pwa/amp/amp.py::BaseAmplitudeModel.temp_used_res::temp_used_res': ((1,), 'model:usedRes (block, driven)'),
 'tf_pwa/amp/amp.py::CachedShapeAmplitudeModel.pdf::keep_used_chains': ((0, 1), 'model:keepChains (block of Model/OverrideY.lean; present after fixes/C17-cached_shape.diff; driven on the cached_shape rig C by harness/c17_y.py)'),
 'tf_pwa/amp/amp.py::CachedShapeAmplitudeModel.pdf::set_used_chains': ((2, 1),
                                                                       'model:pwBase pattern (as it is: save chains_idx; set_used_chains(subset); build_params_vector; set_used_chains(saved), no finally, '
                                                                       'not_full recomputed from the length = the unpatched partial_weight frame; after fixes/C17-cached_shape.diff: keep_used_chains). '
                                                                       'Driven on the cached_shape rig C (harness/c17_y.py), normal exit and build_params_vector raising, 5 entry states'),
 'tf_pwa/amp/core.py::AmpDecayChain.__init__::=mask_factor': ((1,), 'excluded:constructor initialises the attribute'),
 'tf_pwa/amp/core.py::DecayChain.factor_iteration::mask_params': ((1,), 'model:factorIter (driven)'),
 'tf_pwa/amp/core.py::DecayGroup.__init__::=chains_idx': ((1,), 'excluded:constructor initialises the attribute'),
 'tf_pwa/amp/core.py::DecayGroup.__init__::=not_full': ((1,), 'excluded:constructor initialises the attribute'),
 'tf_pwa/amp/core.py::DecayGroup.factor_iteration::keep_used_chains': ((1,), 'model:factorIter (driven)'),
 'tf_pwa/amp/core.py::DecayGroup.factor_iteration::set_used_chains': ((1,), 'model:factorIter (driven)'),
 'tf_pwa/amp/core.py::DecayGroup.keep_used_chains::=chains_idx': ((1,), 'model:usedRes (block, driven)'),
 'tf_pwa/amp/core.py::DecayGroup.keep_used_chains::=not_full': ((1,), 'model:usedRes (block, driven)'),
 'tf_pwa/amp/core.py::DecayGroup.partial_weight::keep_used_chains': ((1,), 'model:pw (driven)'),
 'tf_pwa/amp/core.py::DecayGroup.partial_weight::set_used_res': ((1,), 'model:pw (driven)'),
 'tf_pwa/amp/core.py::DecayGroup.partial_weight_interference::keep_used_chains': ((1,), 'model:pwi (driven)'),
 'tf_pwa/amp/core.py::DecayGroup.partial_weight_interference::set_used_chains': ((1,), 'model:pwi (driven)'),
 'tf_pwa/amp/core.py::DecayGroup.set_used_chains::=chains_idx': ((1,), 'model:setUsedChains / setUsedRes (primitive state updates of the model, compared in every program)'),
 'tf_pwa/amp/core.py::DecayGroup.set_used_chains::=not_full': ((2,), 'model:setUsedChains / setUsedRes (primitive state updates of the model, compared in every program)'),
 'tf_pwa/amp/core.py::DecayGroup.set_used_res::add_used_chains': ((1,), 'model:setUsedChains / setUsedRes (primitive state updates of the model, compared in every program)'),
 'tf_pwa/amp/core.py::DecayGroup.set_used_res::set_used_chains': ((2,), 'model:setUsedChains / setUsedRes (primitive state updates of the model, compared in every program)'),
 'tf_pwa/amp/core.py::DecayGroup.temp_used_res::keep_used_chains': ((1,), 'model:usedRes (block, driven)'),
 'tf_pwa/amp/core.py::DecayGroup.temp_used_res::set_used_res': ((1,), 'model:usedRes (block, driven)'),
 'tf_pwa/amp/core.py::HelicityDecay.__init__::=mask_factor': ((1,), 'excluded:constructor initialises the attribute'),
 'tf_pwa/amp/core.py::variable_scope::temp_config': ((1,), 'model:tempConfig (block, driven; variable_scope / using_amplitude are temp_config with a fixed key)'),
 'tf_pwa/amp/preprocess.py::CachedShapePreProcessor.build_cached::keep_used_chains': ((0, 1), 'model:keepChains (block of Model/OverrideY.lean; present after fixes/C17-cached_shape.diff; driven on rig C by harness/c17_y.py)'),
 'tf_pwa/amp/preprocess.py::CachedShapePreProcessor.build_cached::set_used_chains': ((2, 1),
                                                                                     'model:pwBase pattern around a glsOne block (as it is: no finally, not_full recomputed; after '
                                                                                     'fixes/C17-cached_shape.diff: keep_used_chains). Driven on rig C through config.data.cal_angle (harness/c17_y.py)'),
 'tf_pwa/amp/preprocess.py::CachedShapePreProcessor.build_cached::temp_total_gls_one': ((1,),
                                                                                        'model:glsOne / OverrideY.glsOneObjs (per-object flags, shared decay object; theorem restore_shared_objects). '
                                                                                        'Driven on rig C (harness/c17_y.py)'),
 'tf_pwa/app/fit.py::fit::set_params': ((1,),
                                        'excluded:fitting / likelihood evaluation at a point: moving the parameters is the purpose (FCN(x) sets x); inside likelihood_profile and '
                                        'get_params_error these calls are modelled as `havocTr`'),
 'tf_pwa/applications.py::fit_fractions::temp_params': ((2,), 'model:fitFractions (derived program, proved: restore_fit_fractions; driven through ConfigLoader.cal_fitfractions)'),
 'tf_pwa/config.py::<module>::temp_config': ((1,), 'model:tempConfig (block, driven; variable_scope / using_amplitude are temp_config with a fixed key)'),
 'tf_pwa/config.py::temp_config::set_config': ((2,), 'model:tempConfig (block, driven; variable_scope / using_amplitude are temp_config with a fixed key)'),
 'tf_pwa/config_loader/config_loader.py::ConfigLoader.add_fix_var_constraints::set_fix': ((1,),
                                                                                          'excluded:model construction / constraints from the configuration (C19) and the Variable API whose '
                                                                                          'purpose is to change values or trainability'),
 'tf_pwa/config_loader/config_loader.py::ConfigLoader.add_free_var_constraints::set_fix': ((1,),
                                                                                           'excluded:model construction / constraints from the configuration (C19) and the Variable API '
                                                                                           'whose purpose is to change values or trainability'),
 'tf_pwa/config_loader/config_loader.py::ConfigLoader.attach_fix_params_error::set_fix': ((2,),
                                                                                          'model:likeProf-style setFix pair (free the given fixed parameters, Hessian, fix them again; as it is no '
                                                                                          'finally; fixes/C17-attach_fix_params_error.diff puts the re-fixing in finally). Driven on rig B with a '
                                                                                          'counting stub for the Hessian (harness/c17_y.py): normal exit, Hessian raising, a bounded parameter'),
 'tf_pwa/config_loader/config_loader.py::ConfigLoader.free_for_extended::set_fix': ((1,),
                                                                                    'excluded:model construction / constraints from the configuration (C19) and the Variable API whose '
                                                                                    'purpose is to change values or trainability'),
 'tf_pwa/config_loader/config_loader.py::ConfigLoader.get_params_error::temp_params': ((0, 1), 'model:paramsError (driven with counting stubs for the likelihood numerics)'),
 'tf_pwa/config_loader/config_loader.py::ConfigLoader.likelihood_profile::=trainable_vars': ((0, 1), 'model:likeProf (driven with a stub fit)'),
 'tf_pwa/config_loader/config_loader.py::ConfigLoader.likelihood_profile::assign': ((0, 1), 'model:likeProf (driven with a stub fit)'),
 'tf_pwa/config_loader/config_loader.py::ConfigLoader.likelihood_profile::set_fix': ((2, 3), 'model:likeProf (driven with a stub fit)'),
 'tf_pwa/config_loader/config_loader.py::ConfigLoader.likelihood_profile::set_params': ((1, 2), 'model:likeProf (driven with a stub fit)'),
 'tf_pwa/config_loader/config_loader.py::ConfigLoader.mask_params::mask_params': ((2,),
                                                                                  'model:maskParams (block, driven through amp.mask_params; the ConfigLoader / ParamsTrans wrappers are the '
                                                                                  'same one-line delegation)'),
 'tf_pwa/config_loader/config_loader.py::ConfigLoader.save_tensorflow_model.CustomModule.__init__::set_params': ((1,), 'excluded:builds a fresh ConfigLoader and sets ITS parameters'),
 'tf_pwa/config_loader/config_loader.py::ConfigLoader.set_params::set_params': ((1,),
                                                                                'model:setParams (permanent assignment by design; the statement about it is set_params_* in '
                                                                                'Props/C17b.lean)'),
 'tf_pwa/config_loader/multi_config.py::MultiConfig.set_params::set_params': ((1,),
                                                                              'model:setParams (permanent assignment by design; the statement about it is set_params_* in Props/C17b.lean)'),
 'tf_pwa/config_loader/plot.py::_cal_partial_wave::temp_params': ((1,), 'model:calPartialWave (derived program, proved: restore_cal_partial_wave; driven)'),
 'tf_pwa/config_loader/plot.py::plot_partial_wave_interf.weights_function::temp_used_res': ((3,), 'model:interfWeights (derived program, proved: restore_interf_weights; driven)'),
 'tf_pwa/config_loader/plotter.py::PlotAllData.__init__::keep_used_chains': ((0, 1), 'model:plotAll (driven)'),
 'tf_pwa/config_loader/plotter.py::PlotAllData.__init__::set_used_res': ((1, 2), 'model:plotAll (driven)'),
 'tf_pwa/experimental/build_amp.py::build_amp_matrix::keep_used_chains': ((1,), 'model:bam (driven)'),
 'tf_pwa/experimental/build_amp.py::build_amp_matrix::set_used_chains': ((1,), 'model:bam (driven)'),
 'tf_pwa/experimental/build_amp.py::build_angle_amp_matrix::keep_used_chains': ((1,),
                                                                                'via:bam (same `with keep_used_chains(): for k: set_used_chains([k])` frame as build_amp_matrix; not driven '
                                                                                'separately)'),
 'tf_pwa/experimental/build_amp.py::build_angle_amp_matrix::set_used_chains': ((1,),
                                                                               'via:bam (same `with keep_used_chains(): for k: set_used_chains([k])` frame as build_amp_matrix; not driven '
                                                                               'separately)'),
 'tf_pwa/experimental/factor_system.py::partial_amp::set_all': ((1,), 'model:partialAmp (driven)'),
 'tf_pwa/experimental/factor_system.py::temp_var::assign': ((0, 1), 'model:partialAmp (driven)'),
 'tf_pwa/experimental/factor_system.py::temp_var::set_all': ((0, 1), 'model:partialAmp (driven)'),
 'tf_pwa/experimental/opt_int.py::build_int_matrix::keep_used_chains': ((1,),
                                                                        'via:bam (same `with keep_used_chains(): for k: set_used_chains([k])` frame as build_amp_matrix; not driven '
                                                                        'separately)'),
 'tf_pwa/experimental/opt_int.py::build_int_matrix::set_used_chains': ((1,),
                                                                       'via:bam (same `with keep_used_chains(): for k: set_used_chains([k])` frame as build_amp_matrix; not driven '
                                                                       'separately)'),
 'tf_pwa/fit.py::fit_minuit_v2::set_all': ((1,),
                                           'excluded:fitting / likelihood evaluation at a point: moving the parameters is the purpose (FCN(x) sets x); inside likelihood_profile and '
                                           'get_params_error these calls are modelled as `havocTr`'),
 'tf_pwa/fit.py::fit_newton_cg::set_trans_var': ((1,),
                                                 'excluded:fitting / likelihood evaluation at a point: moving the parameters is the purpose (FCN(x) sets x); inside likelihood_profile and '
                                                 'get_params_error these calls are modelled as `havocTr`'),
 'tf_pwa/fit.py::fit_scipy.fcn_no_grad::set_trans_var': ((1,),
                                                         'excluded:fitting / likelihood evaluation at a point: moving the parameters is the purpose (FCN(x) sets x); inside '
                                                         'likelihood_profile and get_params_error these calls are modelled as `havocTr`'),
 'tf_pwa/fit.py::fit_scipy::set_all': ((2,),
                                       'excluded:fitting / likelihood evaluation at a point: moving the parameters is the purpose (FCN(x) sets x); inside likelihood_profile and '
                                       'get_params_error these calls are modelled as `havocTr`'),
 'tf_pwa/fit.py::fit_scipy::set_trans_var': ((1,),
                                             'excluded:fitting / likelihood evaluation at a point: moving the parameters is the purpose (FCN(x) sets x); inside likelihood_profile and '
                                             'get_params_error these calls are modelled as `havocTr`'),
 'tf_pwa/fitfractions.py::FitFractions.append_int::keep_used_chains': ((1,), 'model:ffNew (driven)'),
 'tf_pwa/fitfractions.py::FitFractions.append_int::set_used_res': ((2,), 'model:ffNew (driven)'),
 'tf_pwa/fitfractions.py::cal_fitfractions::keep_used_chains': ((1,), 'model:calFF (driven)'),
 'tf_pwa/fitfractions.py::cal_fitfractions::set_used_res': ((3,), 'model:calFF (driven)'),
 'tf_pwa/fitfractions.py::cal_fitfractions_no_grad::keep_used_chains': ((1,), 'via:calFF (statement-for-statement the same selection handling as cal_fitfractions; not driven separately)'),
 'tf_pwa/fitfractions.py::cal_fitfractions_no_grad::set_used_res': ((3,), 'via:calFF (statement-for-statement the same selection handling as cal_fitfractions; not driven separately)'),
 'tf_pwa/model/custom.py::SimpleNllFracModel.eval_normal_factors::mask_params': ((2,),
                                                                                 'model:evalNormalFactors (derived program, proved: restore_eval_normal_factors; driven on rig B by '
                                                                                 'harness/c17_y.py)'),
 'tf_pwa/model/custom.py::SimpleNllFracModel.eval_normal_factors::temp_used_res': ((2,),
                                                                                   'model:evalNormalFactors (derived program, proved: restore_eval_normal_factors; driven on rig B by '
                                                                                 'harness/c17_y.py)'),
 'tf_pwa/model/model.py::BaseModel.grad_hessp_batch::assign': ((1,),
                                                               'excluded:likelihood model internals: assign in the batched-gradient helpers write gradient accumulators / restore values '
                                                               '(C07/C08)'),
 'tf_pwa/model/model.py::BaseModel.set_params::set_params': ((1,), 'model:setParams (permanent assignment by design; the statement about it is set_params_* in Props/C17b.lean)'),
 'tf_pwa/model/model.py::FCN.get_grad_hessp::set_params': ((1,),
                                                           'excluded:fitting / likelihood evaluation at a point: moving the parameters is the purpose (FCN(x) sets x); inside '
                                                           'likelihood_profile and get_params_error these calls are modelled as `havocTr`'),
 'tf_pwa/model/model.py::FCN.get_nll::set_params': ((1,),
                                                    'excluded:fitting / likelihood evaluation at a point: moving the parameters is the purpose (FCN(x) sets x); inside likelihood_profile '
                                                    'and get_params_error these calls are modelled as `havocTr`'),
 'tf_pwa/model/model.py::FCN.get_nll_grad::set_params': ((1,),
                                                         'excluded:fitting / likelihood evaluation at a point: moving the parameters is the purpose (FCN(x) sets x); inside '
                                                         'likelihood_profile and get_params_error these calls are modelled as `havocTr`'),
 'tf_pwa/model/model.py::FCN.get_nll_grad_hessian::set_params': ((1,),
                                                                 'excluded:fitting / likelihood evaluation at a point: moving the parameters is the purpose (FCN(x) sets x); inside '
                                                                 'likelihood_profile and get_params_error these calls are modelled as `havocTr`'),
 'tf_pwa/model/model.py::MixLogLikehoodFCN.get_nll_grad::set_params': ((1,),
                                                                       'excluded:fitting / likelihood evaluation at a point: moving the parameters is the purpose (FCN(x) sets x); inside '
                                                                       'likelihood_profile and get_params_error these calls are modelled as `havocTr`'),
 'tf_pwa/model/model.py::Model.set_params::set_params': ((1,), 'model:setParams (permanent assignment by design; the statement about it is set_params_* in Props/C17b.lean)'),
 'tf_pwa/model/opt_int.py::ModelCachedAmp.grad_hessp_batch::assign': ((1,),
                                                                      'excluded:likelihood model internals: assign in the batched-gradient helpers write gradient accumulators / restore '
                                                                      'values (C07/C08)'),
 'tf_pwa/params_trans.py::ParamsTrans.mask_params::mask_params': ((1,),
                                                                  'model:maskParams (block, driven through amp.mask_params; the ConfigLoader / ParamsTrans wrappers are the same one-line '
                                                                  'delegation)'),
 'tf_pwa/utils.py::create_test_config::set_params': ((3,), 'excluded:test helper that builds a configuration and sets its parameters'),
 'tf_pwa/variable.py::Variable._set_fix_idx.func::set_fix': ((7,),
                                                             'excluded:model construction / constraints from the configuration (C19) and the Variable API whose purpose is to change values '
                                                             'or trainability'),
 'tf_pwa/variable.py::Variable.fixed::set_fix': ((7,),
                                                 'excluded:model construction / constraints from the configuration (C19) and the Variable API whose purpose is to change values or '
                                                 'trainability'),
 'tf_pwa/variable.py::Variable.freed::set_fix': ((7,),
                                                 'excluded:model construction / constraints from the configuration (C19) and the Variable API whose purpose is to change values or '
                                                 'trainability'),
 'tf_pwa/variable.py::Variable.set_phi.func::vm.set': ((2,),
                                                       'excluded:model construction / constraints from the configuration (C19) and the Variable API whose purpose is to change values or '
                                                       'trainability'),
 'tf_pwa/variable.py::Variable.set_phi::vm.set': ((1,),
                                                  'excluded:model construction / constraints from the configuration (C19) and the Variable API whose purpose is to change values or '
                                                  'trainability'),
 'tf_pwa/variable.py::Variable.set_rho.func::vm.set': ((2,),
                                                       'excluded:model construction / constraints from the configuration (C19) and the Variable API whose purpose is to change values or '
                                                       'trainability'),
 'tf_pwa/variable.py::Variable.set_rho::vm.set': ((1,),
                                                  'excluded:model construction / constraints from the configuration (C19) and the Variable API whose purpose is to change values or '
                                                  'trainability'),
 'tf_pwa/variable.py::Variable.set_value.func::vm.set': ((14,),
                                                         'excluded:model construction / constraints from the configuration (C19) and the Variable API whose purpose is to change values or '
                                                         'trainability'),
 'tf_pwa/variable.py::Variable.set_value::vm.set': ((7,),
                                                    'excluded:model construction / constraints from the configuration (C19) and the Variable API whose purpose is to change values or '
                                                    'trainability'),
 'tf_pwa/variable.py::VarsManager.__init__::=mask_vars': ((1,), 'excluded:constructor initialises the attribute'),
 'tf_pwa/variable.py::VarsManager.__init__::=trainable_vars': ((1,), 'excluded:constructor initialises the attribute'),
 'tf_pwa/variable.py::VarsManager.mask_params::=mask_vars': ((2,),
                                                             'model:maskParams (block, driven through amp.mask_params; the ConfigLoader / ParamsTrans wrappers are the same one-line '
                                                             'delegation)'),
 'tf_pwa/variable.py::VarsManager.minimize.f::set_all': ((2,),
                                                         'excluded:fitting / likelihood evaluation at a point: moving the parameters is the purpose (FCN(x) sets x); inside '
                                                         'likelihood_profile and get_params_error these calls are modelled as `havocTr`'),
 'tf_pwa/variable.py::VarsManager.minimize::set_all': ((1,),
                                                       'excluded:fitting / likelihood evaluation at a point: moving the parameters is the purpose (FCN(x) sets x); inside likelihood_profile '
                                                       'and get_params_error these calls are modelled as `havocTr`'),
 'tf_pwa/variable.py::VarsManager.minimize_error.f::set_all': ((1,),
                                                               'excluded:fitting / likelihood evaluation at a point: moving the parameters is the purpose (FCN(x) sets x); inside '
                                                               'likelihood_profile and get_params_error these calls are modelled as `havocTr`'),
 'tf_pwa/variable.py::VarsManager.refresh_vars::assign': ((7,), 'excluded:VarsManager primitive (C16 models the VarsManager API itself)'),
 'tf_pwa/variable.py::VarsManager.rp2xy::assign': ((2,), 'excluded:VarsManager primitive (C16 models the VarsManager API itself)'),
 'tf_pwa/variable.py::VarsManager.set::assign': ((1,), 'excluded:VarsManager primitive (C16 models the VarsManager API itself)'),
 'tf_pwa/variable.py::VarsManager.set_fix::assign': ((1,), 'excluded:VarsManager primitive (C16 models the VarsManager API itself)'),
 'tf_pwa/variable.py::VarsManager.set_trans_var::set_all': ((1,),
                                                            'excluded:fitting / likelihood evaluation at a point: moving the parameters is the purpose (FCN(x) sets x); inside '
                                                            'likelihood_profile and get_params_error these calls are modelled as `havocTr`'),
 'tf_pwa/variable.py::VarsManager.std_polar::assign': ((2,), 'excluded:VarsManager primitive (C16 models the VarsManager API itself)'),
 'tf_pwa/variable.py::VarsManager.temp_params::set_all': ((2,), 'model:vmTemp/vmTempSeq (block, driven)'),
 'tf_pwa/variable.py::VarsManager.xy2rp::assign': ((2,), 'excluded:VarsManager primitive (C16 models the VarsManager API itself)')}


def compare(root):
    """differences between the inventory of the tree under test and REVIEWED -> list of (key, found, accepted, coverage)"""
    inv = inventory(root)
    out = []
    for k in sorted(set(inv) | set(REVIEWED)):
        n = inv.get(k, 0)
        acc, why = REVIEWED.get(k, ((), "NEW SITE: neither covered by the model / harness nor on the exclusion list"))
        if n not in acc:
            out.append((k, n, list(acc), why))
    return inv, out


if __name__ == "__main__":
    import sys
    inv = inventory(sys.argv[1] if len(sys.argv) > 1 else "/repo")
    for k in sorted(inv):
        print(inv[k], k)
