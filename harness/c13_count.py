"""C13 count clause on the real code for larger spins (2j <= 14): number of couplings offered by
HelicityDecay.get_ls_list / GetA2BC_LS_list vs the helicity enumeration of HelicityDecay.list_helicity_inner,
tied to the definitions the all-spin theorems of Props/C13c.lean are about (LS.lsList, LS.helCount,
LS.helCountParity o LS.etaOf) through the line protocol ops `ls`, `hel`, `help`."""
import random

MAXJ2 = 14


def spin(j2):
    return j2 // 2 if j2 % 2 == 0 else j2 / 2.0


def opt(x):
    return "N" if x is None else str(x)


def canon(lst):
    return " ".join("%d,%d" % (int(l), int(round(2 * s))) for l, s in lst)


def triples(ctx):
    """spin triples (doubled) with even sum; quick: seeded sample biased to large spins, thorough: all up to MAXJ2"""
    every = [(a, b, c) for a in range(MAXJ2 + 1) for b in range(MAXJ2 + 1) for c in range(MAXJ2 + 1) if (a + b + c) % 2 == 0]
    if not ctx.quick:
        return every
    rnd = random.Random(ctx.seed + 131)
    big = [t for t in every if max(t) > 8]
    edge = [t for t in every if max(t) == MAXJ2 and (min(t[1], t[2]) in (0, 1) or t[0] in (0, 1, MAXJ2) or t[1] == t[2])]
    return sorted(set(rnd.sample(big, 140) + rnd.sample(edge, 40) + rnd.sample(every, 40)))


def doubled(xs):
    return [int(round(2 * x)) for x in xs]


def indep_from_enumeration(hb2, hc2, ja2, eta):
    """number of independent helicity amplitudes from the *enumerated* helicities of the real decay object:
    pairs with |lb-lc| <= ja; with parity: orbits of (lb,lc)->(-lb,-lc), the self-conjugate pair kept iff eta=+1"""
    pairs = [(lb, lc) for lb in hb2 for lc in hc2 if abs(lb - lc) <= ja2]
    if eta is None:
        return len(pairs), len(pairs)
    st = set(pairs)
    fixed = [p for p in pairs if (-p[0], -p[1]) == p]
    assert all((-p[0], -p[1]) in st for p in pairs)
    return len(pairs), (len(pairs) - len(fixed)) // 2 + (len(fixed) if eta == 1 else 0)


def correspond_count(ctx, res):
    from tf_pwa.amp import HelicityDecay, Particle
    from tf_pwa.particle import GetA2BC_LS_list
    rnd = random.Random(ctx.seed + 132)
    lines, want, what = [], [], []
    n_cases = n_big = n_c = n_x = 0
    k = 0
    for (ja, jb, jc) in triples(ctx):
        cfgs = [((None, None, None), True)]
        p3 = (rnd.choice((1, -1)), rnd.choice((1, -1)), rnd.choice((1, -1)))
        cfgs.append((p3, False))
        cfgs.append(((-p3[0], p3[1], p3[2]), False))
        cfgs.append((p3, True))
        if rnd.random() < 0.3:
            cfgs.append(((p3[0], None, p3[2]), False))
        for (pa, pb, pc), pbk in cfgs:
            k += 1
            a = Particle("nA%d" % k, J=spin(ja), P=pa)
            b = Particle("nB%d" % k, J=spin(jb), P=pb)
            c = Particle("nC%d" % k, J=spin(jc), P=pc)
            d = HelicityDecay(a, [b, c], p_break=pbk, disable=True)
            ls = d.get_ls_list()
            got = canon(ls)
            direct = canon(GetA2BC_LS_list(spin(ja), spin(jb), spin(jc), pa, pb, pc, p_break=pbk, ca=None))
            hb, hc = d.list_helicity_inner()
            hb2, hc2 = doubled(hb), doubled(hc)
            broken = pbk or None in (pa, pb, pc)
            eta = None if broken else pa * pb * pc * (1 if ((ja - jb - jc) // 2) % 2 == 0 else -1)
            n_pairs, n_ind = indep_from_enumeration(hb2, hc2, ja, eta)
            desc = "2J=(%d,%d,%d) P=(%s,%s,%s) p_break=%s" % (ja, jb, jc, pa, pb, pc, pbk)
            rp = {"kind": "count", "ja2": ja, "jb2": jb, "jc2": jc, "P": [pa, pb, pc], "p_break": pbk}
            n_cases += 1
            n_big += max(ja, jb, jc) > 8
            # the property statement on the implementation (independent of the model)
            if got != direct:
                g_, d_ = got.split(), direct.split()
                first = next((i for i, (x, y) in enumerate(zip(g_, d_)) if x != y), min(len(g_), len(d_)))
                res.fail("count:get_ls_list", "HelicityDecay.get_ls_list() (%d couplings) differs from GetA2BC_LS_list (%d couplings) for %s; first difference at position %d: %s vs %s" % (
                    len(g_), len(d_), desc, first, g_[first] if first < len(g_) else "-", d_[first] if first < len(d_) else "-"), rp)
            if hb2 != list(range(-jb, jb + 1, 2)) or hc2 != list(range(-jc, jc + 1, 2)):
                res.fail("count:helicities", "list_helicity_inner() of %s is %s x %s, not -j..j" % (desc, hb, hc), rp)
            if len(ls) != n_ind:
                res.fail("ls:count", "count mismatch %s: %d couplings offered vs %d independent helicity amplitudes (from %d enumerated pairs with |lb-lc|<=J, eta=%s)" % (
                    desc, len(ls), n_ind, n_pairs, eta), rp)
            # the model definitions of the all-spin theorems vs the implementation
            lines.append("C13 ls %d %d %d %s %s %s %d N" % (ja, jb, jc, opt(pa), opt(pb), opt(pc), int(pbk)))
            want.append(got)
            what.append("lsList vs get_ls_list, " + desc)
            lines.append("C13 hel %d %d %d" % (ja, jb, jc))
            want.append(str(n_pairs))
            what.append("helCount vs enumerated helicity pairs with |lb-lc|<=J, " + desc)
            if not broken:
                lines.append("C13 help %d %d %d %d" % (ja, jb, jc, pa * pb * pc))
                want.append(str(n_ind))
                what.append("helCountParity(etaOf) vs parity orbits of the enumerated helicity pairs, " + desc)
        # C-parity requested (integral spins of the daughters' sum): theorem ls_count_cparity_broken on the implementation
        if (jb + jc) % 2 == 0 and ja % 2 == 0 and (jb == jc or rnd.random() < 0.5):
            cval = rnd.choice((1, -1))
            k += 1
            a = Particle("nA%d" % k, J=spin(ja), P=1, C=cval)
            b = Particle("nB%d" % k, J=spin(jb), P=1)
            c = Particle("nC%d" % k, J=spin(jc), P=1)
            d = HelicityDecay(a, [b, c], p_break=True, c_break=False, disable=True)
            ls = d.get_ls_list()
            hb, hc = d.list_helicity_inner()
            n_pairs, _ = indep_from_enumeration(doubled(hb), doubled(hc), ja, None)
            eps = cval * (-1) ** (ja // 2)
            n_c += 1
            desc = "2J=(%d,%d,%d) p_break=True C=%d c_break=False" % (ja, jb, jc, cval)
            if 2 * len(ls) != n_pairs + eps * (min(jb, jc) + 1):
                res.fail("ls:count:cparity", "%s: %d couplings offered, expected (%d %+d)/2 from the filter c=(-1)^(l+s)" % (desc, len(ls), n_pairs, eps * (min(jb, jc) + 1)),
                         {"kind": "count_c", "ja2": ja, "jb2": jb, "jc2": jc, "C": cval})
            if jb == jc:
                # theorem ls_count_cparity_exchange on the implementation: orbits of (lb,lc)<->(lc,lb) among the enumerated pairs
                hb2, hc2 = doubled(hb), doubled(hc)
                off = sum(1 for lb in hb2 for lc in hc2 if lb < lc and abs(lb - lc) <= ja)
                diag = sum(1 for lb in hb2 for lc in hc2 if lb == lc)
                n_x += 1
                if len(ls) != off + (diag if eps == 1 else 0):
                    res.fail("ls:count:cparity:exchange", "%s: %d couplings offered vs %d independent helicity amplitudes under H(lc,lb) = %+d H(lb,lc)" % (
                        desc, len(ls), off + (diag if eps == 1 else 0), eps), {"kind": "count_c", "ja2": ja, "jb2": jb, "jc2": jc, "C": cval})
            lines.append("C13 ls %d %d %d 1 1 1 1 %d" % (ja, jb, jc, cval))
            want.append(canon(ls))
            what.append("lsList vs get_ls_list, " + desc)
    model = ctx.model.query(lines)
    dis = [(w, a, b) for w, a, b in zip(what, want, model) if a != b]
    res.coverage["count_cases_real_decay_2j_le_14"] = n_cases
    res.coverage["count_cases_with_a_spin_above_4"] = n_big
    res.coverage["count_cases_cparity"] = n_c
    res.coverage["count_cases_cparity_equal_daughter_spins"] = n_x
    res.coverage["count_model_lines"] = len(lines)
    res.coverage["traces_validated_against_impl"] = res.coverage.get("traces_validated_against_impl", 0) + len(lines)
    if dis:
        res.broke("correspondence of the count definitions (lsList / helCount / helCountParity) with HelicityDecay for 2j<=14",
                  {"what": dis[0][0], "impl": dis[0][1], "model": dis[0][2], "n": len(dis)})


def replay_count(payload):
    from tf_pwa.amp import HelicityDecay, Particle
    r = payload["replay"]
    ja, jb, jc = r["ja2"], r["jb2"], r["jc2"]
    if r["kind"] == "count_c":
        a = Particle("qA", J=spin(ja), P=1, C=r["C"])
        d = HelicityDecay(a, [Particle("qB", J=spin(jb), P=1), Particle("qC", J=spin(jc), P=1)], p_break=True, c_break=False, disable=True)
        ls = d.get_ls_list()
        hb, hc = d.list_helicity_inner()
        n_pairs, _ = indep_from_enumeration(doubled(hb), doubled(hc), ja, None)
        eps = r["C"] * (-1) ** (ja // 2)
        print("couplings:", len(ls), "expected:", (n_pairs + eps * (min(jb, jc) + 1)) / 2)
        return 0 if 2 * len(ls) == n_pairs + eps * (min(jb, jc) + 1) else 1
    pa, pb, pc = r["P"]
    d = HelicityDecay(Particle("qA", J=spin(ja), P=pa), [Particle("qB", J=spin(jb), P=pb), Particle("qC", J=spin(jc), P=pc)], p_break=r["p_break"], disable=True)
    ls = d.get_ls_list()
    hb, hc = d.list_helicity_inner()
    broken = r["p_break"] or None in (pa, pb, pc)
    eta = None if broken else pa * pb * pc * (1 if ((ja - jb - jc) // 2) % 2 == 0 else -1)
    n_pairs, n_ind = indep_from_enumeration(doubled(hb), doubled(hc), ja, eta)
    print("couplings offered:", len(ls), " independent helicity amplitudes:", n_ind, "(pairs %d, eta %s)" % (n_pairs, eta))
    return 0 if len(ls) == n_ind else 1
