import os, sys; sys.path.insert(0, os.getcwd())

"""
Reproducer (UNCHANGED tree), second class of the same defect: the mother has
INTEGER spin, its two daughters are fermions, and a chain of ANOTHER topology
interferes.  The density depends on the order in which the two oppositely
written chains of one topology are declared.

    decay:  A: [[R_BD, C], [R_BC, D], [D, R_BC2]]   vs   A: [[R_BD, C], [D, R_BC2], [R_BC, D]]

Props/C02f.lean, opposite_orientation_factor: relative to a reference outside
the topology, a chain read with the data of the opposite orientation carries the
constant (-1)^(2 j) of its SECOND-written daughter; with two fermion daughters
that is -1 for whichever chain is not the first declared one of its topology
(the two factors multiply to (-1)^(2 J_A) = +1, so the two chains alone do not
show it; the third chain does).

Both configs describe the same two chains, the same particles and the same
parameters (fixed by name), all data options at their defaults.  Only the
listing order differs.  The first chain of a topology fixes the daughter order
of the shared "standard topology" angle data (which daughter gets
alpha in [-pi, pi) and which gets alpha - pi in [-2pi, 0)), and for
half-integer spins a 2*pi shift of alpha is a sign: the chain whose first
daughter is the topology's second daughter changes sign relative to the other.

exit code 0: the two declaration orders agree; 1: they differ.
Controls (printed, do not affect the exit code): the same with all-integer
spins, and with both chains listing the daughters in the SAME order.
"""

import copy

import numpy as np

np.Inf = np.inf  # tf_pwa.fit_improve needs the removed alias

import tensorflow as tf

import tf_pwa
from tf_pwa.config_loader import ConfigLoader

print("testing", tf_pwa.__file__)

M0 = 5.6196
MASS = {"B": 0.938272, "C": 0.493677, "D": 3.0969}
RTOL = 1e-7


def config(chains, jA, jB, jC, jD, jR):
    return {
        "data": {"dat_order": ["B", "C", "D"]},
        "decay": {"A": chains, "R_BC": ["B", "C"], "R_BC2": ["B", "C"], "R_BD": ["B", "D"]},
        "particle": {
            "$top": {"A": {"J": jA, "P": 1, "mass": M0}},
            "$finals": {
                "B": {"J": jB, "P": 1, "mass": MASS["B"]},
                "C": {"J": jC, "P": -1, "mass": MASS["C"]},
                "D": {"J": jD, "P": -1, "mass": MASS["D"]},
            },
            "R_BC": {"J": jR, "P": -1, "mass": 1.8, "width": 0.2},
            "R_BC2": {"J": jR, "P": -1, "mass": 2.1, "width": 0.3},
            "R_BD": {"J": jA, "P": -1, "mass": 4.3, "width": 0.3},
        },
    }


# ---------------------------------------------------------------------------
# events: A at rest, plain numpy, deterministic
# ---------------------------------------------------------------------------
def _two_body(m0, m1, m2, rng, n):
    q = np.sqrt((m0**2 - (m1 + m2) ** 2) * (m0**2 - (m1 - m2) ** 2)) / (2 * m0)
    cos = rng.uniform(-1, 1, n)
    phi = rng.uniform(-np.pi, np.pi, n)
    sin = np.sqrt(1 - cos**2)
    v = np.stack([sin * np.cos(phi), sin * np.sin(phi), cos], -1)
    v = v * np.reshape(q, (-1, 1))
    e1 = np.sqrt(m1**2 + q**2) + np.zeros(n)
    e2 = np.sqrt(m2**2 + q**2) + np.zeros(n)
    return (
        np.concatenate([e1[:, None], v], -1),
        np.concatenate([e2[:, None], -v], -1),
    )


def _boost(p, beta):
    b2 = np.sum(beta**2, -1)
    gamma = 1 / np.sqrt(1 - b2)
    bp = np.sum(beta * p[:, 1:], -1)
    g2 = (gamma - 1) / b2
    v = p[:, 1:] + (g2 * bp + gamma * p[:, 0])[:, None] * beta
    return np.concatenate([(gamma * (p[:, 0] + bp))[:, None], v], -1)


def events(n=20, seed=7):
    rng = np.random.default_rng(seed)
    m_bc = rng.uniform(MASS["B"] + MASS["C"] + 0.05, M0 - MASS["D"] - 0.05, n)
    p_bc, p_d = _two_body(M0, m_bc, MASS["D"], rng, n)
    p_b, p_c = _two_body(m_bc, MASS["B"], MASS["C"], rng, n)
    beta = p_bc[:, 1:] / p_bc[:, :1]
    return {"B": _boost(p_b, beta), "C": _boost(p_c, beta), "D": p_d}


def density(dic, p4, params=None):
    cfg = ConfigLoader(copy.deepcopy(dic))
    amp = cfg.get_amplitude()
    if params is None:
        params = {k: float(v) for k, v in amp.get_params().items()}
    else:
        assert set(params) == set(amp.get_params()), "parameter names differ"
        cfg.set_params(params)
    data = cfg.data.cal_angle({k: tf.convert_to_tensor(v) for k, v in p4.items()})
    return np.array(amp(data)), params


def compare(label, chains, spins, p4, verbose=False):
    d1 = config(chains, *spins)
    d2 = config(chains[:-2] + chains[-2:][::-1], *spins)
    for d in (d1, d2):
        used = {x for ch in d["decay"]["A"] for x in ch}
        for r in ("R_BC", "R_BC2", "R_BD"):
            if r not in used:
                d["decay"].pop(r); d["particle"].pop(r)
    v1, params = density(d1, p4)
    v2, _ = density(d2, p4, params)
    rel = float(np.max(np.abs(v1 - v2) / np.abs(v1)))
    print("{:62s} max rel. diff {:.3e}".format(label, rel))
    if verbose:
        print("   config 1: decay =", d1["decay"])
        print("   config 2: decay =", d2["decay"])
        print("   particle  =", d1["particle"])
        print("   density 1 =", v1[:4])
        print("   density 2 =", v2[:4])
    return rel


def main():
    p4 = events()
    other = [["R_BD", "C"]]
    opposite = [["R_BC", "D"], ["D", "R_BC2"]]
    same = [["R_BC", "D"], ["R_BC2", "D"]]
    # spins: (A, B, C, D, R_BC and R_BC2); R_BD has the spin of A
    print("declared order of the two chains of the (BC)D topology swapped, everything else equal:")
    rel = compare(
        "MAIN  A 1 -> B 1/2, C 0, D 1/2, R 1/2; opposite; + A -> R_BD C",
        other + opposite, (1, 0.5, 0, 0.5, 0.5), p4, verbose=True,
    )
    print("controls:")
    compare(
        "  the same without the chain of the other topology",
        opposite, (1, 0.5, 0, 0.5, 0.5), p4,
    )
    compare(
        "  all-integer spins A 1 -> B 1, C 0, D 1, R 1; opposite; + A -> R_BD C",
        other + opposite, (1, 1, 0, 1, 1), p4,
    )
    compare(
        "  A 1 -> B 1/2, C 0, D 1/2, R 1/2; SAME daughter order; + A -> R_BD C",
        other + same, (1, 0.5, 0, 0.5, 0.5), p4,
    )
    if not rel < RTOL:
        print("ORDER DEPENDENCE: the two declaration orders give different densities")
        return 1
    print("the two declaration orders agree within rtol", RTOL)
    return 0


if __name__ == "__main__":
    sys.exit(main())
