"""C08 — a returned fit result and the model state describe the same point (tf_pwa.fit / applications.fit / ConfigLoader.fit)."""
import contextlib
import copy
import io
import json
import math
import os
import random
import shutil
import tempfile
import warnings

import common as C

PID = "C08"
DRIVER = [("C08", "TfPwaV.Model.FitF", "FitF.handle"), ("C08b", "TfPwaV.Gen.FitImproveF", "FitImproveF.handle")]
LEAN_TARGETS = ["TfPwaV.Props.C08", "TfPwaV.Model.FitF", "TfPwaV.Props.C08b", "TfPwaV.Gen.FitImproveF", "TfPwaV.Props.C08c"]
PROP_MODULES = ["TfPwaV.Props.C08", "TfPwaV.Props.C08b", "TfPwaV.Props.C08c"]
ALL_MODULES = ["TfPwaV.Model.Vars", "TfPwaV.Model.VarsF", "TfPwaV.Model.Fit", "TfPwaV.Model.FitF", "TfPwaV.Proofs.Vars",
               "TfPwaV.Proofs.Fit", "TfPwaV.Proofs.FitR", "TfPwaV.Proofs.PolarBound", "TfPwaV.Props.C08",
               "TfPwaV.Proofs.FitImprove", "TfPwaV.Props.C08b", "TfPwaV.Proofs.FitZ", "TfPwaV.Props.C08c"]
ASSUMPTIONS = [
    "the minimiser (scipy.optimize.minimize, tf_pwa.fit_improve.minimize, iminuit.Minuit) is an oracle: an arbitrary finite list of evaluations, then an arbitrary answer (x, fun, success, with or without hess_inv) of the length of the free-parameter list, or LargeNumberError from the callback; nothing about convergence is assumed or proved",
    "min_nll = NLL(params), min_nll <= NLL(start) and 'bounded parameters inside their bounds' for the branches that hand the bounds to the external optimiser (L-BFGS-B, iminuit limits) depend on the external optimiser: validated on the implementation (synthetic FCN with every method name + a small real model), not proved",
    "the model state reached before the fit satisfies the C16 invariant (Vars.Inv: free list duplicate-free, every free name bound, no two free names on one variable object), which C16 proves for every well-phased configuration history; no mask_params active, pre_trans empty",
    "fit options outside the Lean model: check_grad=True (extra evaluations after the fit; covered by the search in every run), improve=True (ConfigLoader.fit always passes improve=False; covered by the search in every run for BFGS / CG / test), method='root' (needs PyROOT; the search checks that it fails before touching the model when PyROOT is absent), grad_scale != 1 (only rescales min_nll)",
    "save/load: json.dump / yaml.safe_load reproduce every finite double exactly (Python repr round trip) — checked on the real files in every run, assumed in save_load_roundtrip",
    "'inside their bounds' is proved over the reals for the three built-in Bound transforms (C16 BoundR lemmas); on IEEE doubles the harness allows 4 ulp at an end point",
    "C08b (method 'test'): line_search_wolfe2 / scalar_search_wolfe2 / _zoom are an oracle of the Lean model; the contract (new_fval, gfkp1 belong to xk + alpha pk) and the Armijo inequalities assumed by result_point_consistent / nonmonotone_bound are CHECKED on every answer the real line search gives in the recorded runs, not proved; np.linalg.inv is an oracle (its answers are recorded and fed to the model); the dead values of fmin_bfgs_f (Aredk, Predk, rk, tk, ystark) are not modelled; only B0=None, norm_ord=Inf (what fit_scipy uses); theorems over the reals (no NaN): the NaN behaviour is covered by the Float execution and the search only",
    "C08b: Cached_FG's cache is keyed on the array object's VALUE at the time of the call: the theorems assume the caller does not mutate an array in place after passing it (fmin_bfgs_f and the line search always build new arrays xk + alpha*pk); -0.0 == 0.0 counts as the same point",
    "standard_complex / set_bound exist in two variants each (Vars.Cfg.stdFree, Vars.Cfg.boundHead, Fit.Fix.stdBounded; false = the tree as it is, true = after fix_C08_standard_complex_free_only.diff / fix_C08_set_bound_free_name.diff / fix_C08_standard_complex_bounded.diff); the harness observes the variant on the real code in every run and drives the model with it. On the tree as it is standard_complex runs after remove_bound and standardises polar components even when they are fixed or were bounded: the C08 theorems about fixed / bounded values exclude r/i components there (refutations: C08.standard_complex_moves_fixed_polar, C08.standard_complex_ignores_removed_bounds, C08c.follower_bound_unrouted_is_dead); the C08c theorems hold for the repaired variants",
    "C08c.bounded_inside_after_standardisation: the hypothesis Guarded (every complex parameter with a part on the bounded object has a part in a tie group or a part named in bounds_dict) is discharged by guarded_of_bounded_part when no OTHER complex parameter has an untied part on the same object - true for every state C16's set_same produces (two names share an object only through a tie group), assumed here; the L-BFGS-B / iminuit branches keep a bounded part inside its range only as far as the external optimiser does (validated)",
    "C08c.follower_bound_applied: bound_name(bound_name(n)) = bound_name(n) and 'n is on the object of bound_name(n)' are hypotheses, discharged in follower_bound_applied_tied from the C16 tie invariant InvT (pairwise disjoint groups, members of a group of real names on one object), which C16c proves for well-separated histories; bounds named on a part of a complex parameter that is tied AS A WHOLE (set_same(cplx=True): the group lists the complex names, not the parts) are not routed by the patch and not covered",
]

METHODS = {
    "BFGS": "quasi", "CG": "quasi", "Nelder-Mead": "quasi", "test": "quasi",
    "L-BFGS-B": "lbfgsb",
    "Newton-CG": "newton", "trust-krylov": "newton", "trust-ncg": "newton", "trust-exact": "newton",
    "Newton-CG-p": "newton", "trust-krylov-p": "newton", "trust-ncg-p": "newton",
    "iminuit": "minuit",
    "no-such-method": "unknown",
}
HAS_HESS_INV = {"BFGS"}  # methods whose scipy OptimizeResult carries hess_inv


def b01(x):
    return "1" if x else "0"


def opt_f(x):
    return "N" if x is None else C.f2h(x)


@contextlib.contextmanager
def quiet():
    with contextlib.redirect_stdout(io.StringIO()):
        yield


# ----------------------------------------------------------------------------------------------
# scenarios
# ----------------------------------------------------------------------------------------------

def gen_spec(rnd, wild=False):
    """a parameter set with fixed / tied / bounded / Gaussian-constrained members (JSON-serialisable)"""
    spec = {"polar": True, "vars": [], "ties": [], "bounds": {}, "gauss": {}, "fix": []}
    nreal = rnd.randint(2, 4)
    for i in range(nreal):
        spec["vars"].append({"k": "real", "name": "p%d" % i, "value": round(rnd.uniform(0.2, 1.8), 3), "free": rnd.random() < 0.75})
    spec["vars"][0]["free"] = True
    ncplx = rnd.randint(1, 3)
    for i in range(ncplx):
        free = rnd.random() < 0.7
        polar = None if rnd.random() < 0.6 else (rnd.random() < 0.7)
        if wild:
            vals = [round(rnd.uniform(-2.0, 2.0), 3), round(rnd.uniform(-7.0, 7.0), 3)]
        else:
            vals = [round(rnd.uniform(0.3, 2.0), 3), round(rnd.uniform(-3.0, 3.0), 3)]
        spec["vars"].append({"k": "cplx", "name": "z%d" % i, "polar": polar, "free": free, "vals": vals})
    if rnd.random() < 0.5:
        rnd.shuffle(spec["vars"])  # creation order = order of the free-parameter list
    reals = [v for v in spec["vars"] if v["k"] == "real"]
    free_reals = [v["name"] for v in reals if v["free"]]
    # a declared-free parameter fixed afterwards (config: fix_var)
    if len(free_reals) > 2 and rnd.random() < 0.3:
        n = free_reals.pop()
        spec["fix"].append(n)
    # ties
    if len(free_reals) >= 2 and rnd.random() < 0.6:
        a, b = rnd.sample(free_reals, 2)
        spec["ties"].append({"names": [a, b]})
        for v in reals:
            if v["name"] == b:
                v["value"] = [w["value"] for w in reals if w["name"] == a][0]
    cp = [v for v in spec["vars"] if v["k"] == "cplx" and v["free"] and (v["polar"] in (None, True))]
    if len(cp) >= 2 and rnd.random() < 0.5:
        if rnd.random() < 0.5:
            spec["ties"].append({"names": [cp[0]["name"], cp[1]["name"]], "cplx": True})
            cp[1]["vals"] = list(cp[0]["vals"])
        else:
            spec["ties"].append({"share": [cp[0]["name"], cp[1]["name"]]})
            cp[1]["vals"][0] = cp[0]["vals"][0]
    # bounds on free real parameters (start value inside), sometimes on a fixed one (registered, never used)
    tied_followers = {t["names"][1] for t in spec["ties"] if "names" in t and not t.get("cplx")}
    spec["centre"] = {}
    for v in reals:
        if v["name"] in tied_followers or v["name"] in spec["fix"]:
            continue
        r = rnd.random()
        x = v["value"]
        name = v["name"]
        num = (lambda t: int(t)) if rnd.random() < 0.4 else (lambda t: float(t))  # limits written as ints or floats
        far = rnd.uniform(0.8, 1.6)  # how far beyond a limit the optimum of the synthetic NLL is put
        if r < 0.14:      # two-sided around the start value, optimum above / below the range
            lo, hi = round(x - rnd.uniform(0.05, 0.6), 3), round(x + rnd.uniform(0.05, 0.6), 3)
            spec["bounds"][name] = [lo, hi]
            spec["centre"][name] = round(hi + far, 3) if rnd.random() < 0.5 else round(lo - far, 3)
        elif r < 0.26:    # two-sided, containing 0, integer or float limits
            lo, hi = rnd.choice([(-1, 2), (-2, 3), (-1.0, 2.0), (-0.5, 1.9)])
            spec["bounds"][name] = [lo, hi]
            spec["centre"][name] = round(hi + far, 3) if rnd.random() < 0.5 else round(lo - far, 3)
        elif r < 0.40:    # lower limit exactly 0, optimum at negative values
            spec["bounds"][name] = [num(0), None]
            spec["centre"][name] = round(-far, 3)
        elif r < 0.52:    # upper limit exactly 0 (start value moved below it), optimum at positive values
            v["value"] = x = round(-x, 3)
            spec["bounds"][name] = [None, num(0)]
            spec["centre"][name] = round(far, 3)
        elif r < 0.60:    # lower limit at a negative / positive value
            lo = rnd.choice([num(-1), round(x - rnd.uniform(0.05, 0.6), 3)])
            spec["bounds"][name] = [lo, None]
            spec["centre"][name] = round(lo - far, 3)
        elif r < 0.68:    # upper limit at a positive value
            hi = rnd.choice([num(2), round(x + rnd.uniform(0.05, 0.6), 3)])
            spec["bounds"][name] = [None, hi]
            spec["centre"][name] = round(hi + far, 3)
        elif r < 0.76:    # fully open entry
            spec["bounds"][name] = [None, None]
    # a tie partner created with the head's value keeps it (values may have been moved above)
    for t in spec["ties"]:
        if "names" in t and not t.get("cplx"):
            hv = [w["value"] for w in reals if w["name"] == t["names"][0]][0]
            for w in reals:
                if w["name"] == t["names"][1]:
                    w["value"] = hv
    if not spec["bounds"]:
        cand = [v for v in reals if v["name"] not in tied_followers and v["name"] not in spec["fix"]] or reals
        x = cand[0]["value"]
        spec["bounds"][cand[0]["name"]] = [round(x - 0.3, 3), round(x + 0.2, 3)]
    for v in reals:
        if v["free"] and v["name"] not in spec["fix"] and rnd.random() < 0.3:
            spec["gauss"][v["name"]] = [round(v["value"] + rnd.uniform(-0.1, 0.1), 3), round(rnd.uniform(0.05, 0.5), 3)]
    spec["nll_seed"] = rnd.randrange(1 << 30)
    return spec


def setup_tokens(spec):
    toks = []
    for v in spec["vars"]:
        if v["k"] == "real":
            toks.append(["ar", v["name"], C.f2h(v["value"]), "1", b01(v["free"])])
        else:
            pol = "N" if v.get("polar") is None else b01(v["polar"])
            toks.append(["ac", v["name"], pol, b01(v["free"]), C.f2h(v["vals"][0]), C.f2h(v["vals"][1])])
    for n in spec.get("fix", []):
        toks.append(["fix", n, "N", "0"])
    for t in spec.get("ties", []):
        if "share" in t:
            toks.append(["share", str(len(t["share"]))] + list(t["share"]))
        else:
            toks.append(["same", b01(t.get("cplx", False)), str(len(t["names"]))] + list(t["names"]))
    flat = []
    for t in toks:
        flat += t + [";"]
    return flat[:-1]


def dump_vm(vm):
    names = list(vm.variables)
    ids, part = [], []
    for n in names:
        i = id(vm.variables[n])
        if i not in ids:
            ids.append(i)
        part.append(ids.index(i))
    return {
        "trainable": list(vm.trainable_vars), "names": names, "part": part,
        "vals": [float(vm.variables[n].numpy()) for n in names],
        "flags": [bool(vm.variables[n].trainable) for n in names],
        "cplx": [(n, bool(v)) for n, v in vm.complex_vars.items()],
        "same": [list(g) for g in vm.same_list], "bnd": list(vm.bnd_dic), "polar": bool(vm.polar),
    }


def parse_dump(s):
    f = s.split("|")
    sp = lambda x: x.split(",") if x else []
    return {
        "trainable": sp(f[0]), "names": sp(f[1]), "part": [int(x) for x in sp(f[2])],
        "vals": [C.h2f(x) for x in sp(f[3])], "flags": [x == "1" for x in sp(f[4])],
        "cplx": [(x.split("=")[0], x.split("=")[1] == "1") for x in sp(f[5])],
        "same": [g.split(",") for g in f[6].split(";")] if f[6] else [],
        "bnd": sp(f[7]), "polar": f[9] == "1",
    }


def close(a, b, tol=1e-12):
    if a == b:
        return True
    if math.isnan(a) or math.isnan(b):
        return math.isnan(a) and math.isnan(b)
    return abs(a - b) <= tol * max(1.0, abs(a), abs(b))


def compare_dump(real, model):
    for key in ("trainable", "names", "part", "flags", "cplx", "same", "polar", "bnd"):
        if real[key] != model[key]:
            return "%s: impl %r model %r" % (key, real[key], model[key])
    for n, a, b in zip(real["names"], real["vals"], model["vals"]):
        if not close(a, b):
            return "value of %s: impl %r model %r" % (n, a, b)
    return None


# ----------------------------------------------------------------------------------------------
# scripted minimiser: the oracle of the model, fed to the real bookkeeping code
# ----------------------------------------------------------------------------------------------

class Script:
    def __init__(self, evals, x, fval, success, has_hess_inv, big=None):
        self.evals = evals          # list of points (fit coordinates)
        self.x = x
        self.fval = fval
        self.success = success
        self.has_hess_inv = has_hess_inv
        self.big = big              # a point with sum|x| > 1e7: the callback raises LargeNumberError
        self.seen_limits = None
        self.n_fun = 0
        self.vm = None
        self.bnd_during = None      # list(vm.bnd_dic) when the minimiser is entered


@contextlib.contextmanager
def scripted(script):
    """replace scipy.optimize.minimize / fit_improve.minimize / iminuit.Minuit as seen by tf_pwa.fit"""
    import iminuit
    import numpy as np
    from scipy.optimize import OptimizeResult
    import tf_pwa.fit as F

    def fake_minimize(fun, x0, method=None, jac=None, hess=None, hessp=None, bounds=None, callback=None, options=None, **kw):
        if script.vm is not None:
            script.bnd_during = list(script.vm.bnd_dic)
        n = len(x0)
        pts = list(script.evals) + ([script.big] if script.big is not None else [])
        for pt in pts:
            p = np.array(pt, dtype=float)
            fun(p)
            script.n_fun += 1
            if hess is not None:
                hess(p)
                script.n_fun += 1
            if hessp is not None:
                hessp(p, np.ones(n))
                script.n_fun += 1
            if callback is not None:
                callback(p)
        res = OptimizeResult(x=np.array(script.x, dtype=float), fun=script.fval, success=script.success, jac=np.ones(n),
                             nit=len(pts), message="scripted")
        if script.has_hess_inv:
            res.hess_inv = np.eye(n)
        return res

    class FakeMinuit:
        def __init__(self, fun, x0, name=None, grad=None, **kw):
            self._fun, self._grad = fun, grad
            self.limits = {}
            self.values = [float(v) for v in script.x]
            self.errors = [0.1] * len(self.values)
            self.fval = script.fval
            self.valid = script.success
            script.seen_limits = self.limits
            if script.vm is not None:
                script.bnd_during = list(script.vm.bnd_dic)

        def migrad(self, *a, **k):
            for pt in script.evals:
                p = np.array(pt, dtype=float)
                self._fun(p)
                script.n_fun += 1
                self._grad(p)

        def hesse(self, *a, **k):
            pass

        def minos(self, *a, **k):
            pass

    o1, o2, o3 = F.minimize, F.my_minimize, iminuit.Minuit
    F.minimize, F.my_minimize, iminuit.Minuit = fake_minimize, fake_minimize, FakeMinuit
    try:
        yield
    finally:
        F.minimize, F.my_minimize, iminuit.Minuit = o1, o2, o3


def run_fit(fcn, method, bounds, **kw):
    """-> ('ok', FitResult) | ('raised', exception)"""
    import tf_pwa.fit as F
    try:
        with quiet():
            r = F.fit_scipy(fcn, method=method, bounds_dict=bounds, **kw)
        return "ok", r
    except Exception as e:  # the outcome is data here
        return "raised", e


PROBE_SPEC = {
    "polar": True, "ties": [], "fix": [], "gauss": {}, "nll_seed": 11,
    "vars": [{"k": "real", "name": "p0", "value": 1.2, "free": True}, {"k": "real", "name": "p1", "value": 0.5, "free": True},
             {"k": "real", "name": "p2", "value": 0.7, "free": False}],
    "bounds": {"p0": [1.0, 1.5]},
}


def probe_vars_variant():
    """which variant of set_same / std_polar does the tree have (the two Cfg flags of the C16 model)"""
    from tf_pwa.variable import VarsManager
    vm = VarsManager(dtype="float64")
    for n, v in zip("abcd", [1.0, 2.0, 3.0, 4.0]):
        vm.add_real_var(n, v)
    vm.set_same(["a", "b"])
    vm.set_same(["c", "d"])
    vm.set_same(["b", "d"])
    merge = vm.variables["d"] is vm.variables["a"]
    vm = VarsManager(dtype="float64")
    for n in "abc":
        vm.add_complex_var(n)
    vm.set_same(["a", "b"], cplx=True)
    vm.set_same(["c", "b"], cplx=True)
    cplx = vm.variables["ar"] is vm.variables["br"] and vm.variables["cr"] is vm.variables["ar"]
    vm = VarsManager(dtype="float64")
    vm.add_complex_var("c", polar=True)
    vm.set("cr", 1.0)
    vm.set("ci", 5.0)
    vm.std_polar("c")
    std = -math.pi <= float(vm.get("ci")) < math.pi
    # fix_C08_standard_complex_free_only.diff: standard_complex leaves a complex variable with a fixed part alone
    vm = VarsManager(dtype="float64")
    vm.add_complex_var("c", polar=True, trainable=False, fix_vals=(-1.0, 0.5))
    vm.add_complex_var("d", polar=True)
    vm.set("dr", -1.0)
    vm.set("di", 0.5)
    vm.set_fix("di")
    vm.standard_complex()
    std_free = float(vm.get("cr")) == -1.0 and float(vm.get("ci")) == 0.5 and float(vm.get("dr")) == -1.0 and float(vm.get("di")) == 0.5
    # fix_C08_set_bound_free_name.diff: set_bound registers under the first entry of the tie group
    vm = VarsManager(dtype="float64")
    for n, v in zip("abc", [1.0, 1.0, 2.0]):
        vm.add_real_var(n, v)
    vm.set_same(["a", "b"])
    with warnings.catch_warnings():
        warnings.simplefilter("ignore")
        vm.set_bound({"b": (0.5, 1.5), "c": (None, 3.0)})
    bound_head = list(vm.bnd_dic) == ["a", "c"]
    return {"fixSame": bool(merge and cplx), "fixStd": bool(std), "stdFree": bool(std_free), "boundHead": bool(bound_head)}


def probe_fix():
    """which of the patched statements does the tree have? (each flag observed on the real code with a scripted minimiser)"""
    import c08_synth as S
    out = {}

    def fresh():
        vm = S.build_vm(PROBE_SPEC)
        return vm, S.SynthFCN(vm, 11)

    b = S.bounds_of(PROBE_SPEC)
    vm, fcn = fresh()
    with scripted(Script([[0.3, 0.4]], [0.1, 0.2], 1.0, True, False)):
        k, r = run_fit(fcn, "L-BFGS-B", b)
    out["lbfgsb"] = k == "ok"
    vm, fcn = fresh()
    with scripted(Script([[0.3, 0.4]], [0.1, 0.2], 1.0, True, False)):
        k, r = run_fit(fcn, "Newton-CG", b)
    out["newtonRm"] = k == "ok" and not vm.bnd_dic
    vm, fcn = fresh()
    with scripted(Script([[0.3, 0.4]], [0.1, 0.2], 1.0, True, False)):
        k, r = run_fit(fcn, "CG", b)
    out["hessOpt"] = k == "ok"
    vm, fcn = fresh()
    sc = Script([[0.3, 0.4]], [0.1, 0.2], 1.0, True, False)
    with scripted(sc):
        k, r = run_fit(fcn, "iminuit", b)
    out["minuitSet"] = k == "ok" and float(vm.variables["p1"].numpy()) == 0.2
    out["minuitBnd"] = bool(sc.seen_limits)
    vm, fcn = fresh()
    with scripted(Script([[0.3, 0.4]], [0.1, 0.2], 1.0, True, True, big=[2e7, 0.0])):
        k, r = run_fit(fcn, "BFGS", b)
    out["exceptRm"] = k == "ok" and not vm.bnd_dic
    vm, fcn = fresh()
    with scripted(Script([[0.3, 0.4]], [0.1, 0.2], 1.0, True, True)):
        k, r = run_fit(fcn, "BFGS", b, jac=False)
    # after the evaluation at x = 0.3 the bounded p0 holds x2y(0.3) when the no-gradient objective is transformed
    out["nojacTrans"] = None if not fcn.trace else (abs(fcn.trace[0]["p0"] - 0.3) > 1e-9)
    # fix_C08_standard_complex_bounded.diff: fit_scipy names its bounded parts to standard_complex.  The answer 0 for the
    # phase z0i bounded to (3.3, 6.0) is stored as x2y(0) = 4.65; standard_complex() without the names wraps it to 4.65 - 2 pi
    vm = S.build_vm(BOUND_PHASE_SPEC)
    fcn = S.SynthFCN(vm, 78)
    with scripted(Script([], [1.0, 1.0, 0.0], 1.0, True, True)):
        k, r = run_fit(fcn, "BFGS", S.bounds_of(BOUND_PHASE_SPEC))
    out["stdBounded"] = k == "ok" and 3.3 <= float(vm.variables["z0i"].numpy()) <= 6.0
    return out


# ----------------------------------------------------------------------------------------------
# correspondence: Fit.fit vs fit_scipy under a scripted minimiser
# ----------------------------------------------------------------------------------------------

def gen_script(rnd, spec, method, ntr):
    cls = METHODS[method]
    nev = rnd.randint(0, 4)
    pt = lambda: [round(rnd.uniform(-2.5, 2.5), 3) if rnd.random() < 0.8 else rnd.choice([0.0, math.pi / 2, -math.pi / 2, 7.5, -1.0]) for _ in range(ntr)]
    evals = [pt() for _ in range(nev)]
    x = pt()
    has_h = (method in HAS_HESS_INV) if rnd.random() < 0.8 else (rnd.random() < 0.5)
    big = None
    if cls in ("quasi", "lbfgsb") and rnd.random() < 0.15:
        big = [2.0e7] + [0.0] * (ntr - 1)
    return Script(evals, x, round(rnd.uniform(-50, 50), 6), rnd.random() < 0.7, has_h, big)


def eff_bnd(keys, spec, same=(), head=False):
    """registered names whose declared bound has at least one limit (an entry (None, None) is the identity: whether it is
    registered is not observable in any value); `head`: the tree registers a bound under the first entry of the tie group"""
    eff = [k for k in spec["bounds"] if not (spec["bounds"][k][0] is None and spec["bounds"][k][1] is None)]
    eff = set(route_bounds(eff, same, head))
    return [k for k in keys if k in eff]


def special_corr_specs():
    """scenarios of the three C08 repairs (fixed / partly fixed polar parameters, bounded parts of polar parameters,
    bounds named on tie followers), run through every branch in the correspondence with seeded scripted answers"""
    part_fixed = copy.deepcopy(FIX_POLAR_SPEC)
    part_fixed["fix"] = ["z0i"]
    bound_r = copy.deepcopy(BOUND_PHASE_SPEC)
    bound_r["bounds"] = {"z0r": [0.2, 3.0], "p0": [None, 2]}
    both = copy.deepcopy(TIED_FOLLOWER_SPEC)
    both["bounds"] = {"p0": [0.5, 1.5], "p2": [0, None], "p1": [0.9, 1.1]}
    share = {"polar": True, "fix": [], "gauss": {}, "nll_seed": 81, "ties": [{"share": ["z0", "z1"]}], "bounds": {"z1r": [0.4, 2.0]},
             "vars": [{"k": "real", "name": "p0", "value": 1.0, "free": True},
                      {"k": "cplx", "name": "z0", "polar": True, "free": True, "vals": [1.0, 0.3]},
                      {"k": "cplx", "name": "z1", "polar": True, "free": True, "vals": [1.0, 1.4]},
                      {"k": "cplx", "name": "z2", "polar": True, "free": True, "vals": [0.7, -0.6]}]}
    return [FIX_POLAR_SPEC, part_fixed, BOUND_PHASE_SPEC, bound_r, TIED_FOLLOWER_SPEC, both, share]


def route_bounds(keys, same, head):
    """names under which the declared bounds count: the tie group's first entry when the tree routes them (boundHead)"""
    out = []
    for k in keys:
        g = [grp for grp in same if k in grp]
        out.append(g[0][0] if (head and g) else k)
    return out


def correspond(ctx, res):
    import c08_synth as S
    fix = probe_fix()
    ctx.fix = fix
    res.notes.append("observed variant of the tree (true = statement of the patched tree): %r" % fix)
    variant = probe_vars_variant()
    ctx.variant = variant
    res.notes.append("observed variant of VarsManager (Cfg flags of the Lean model): %r" % variant)
    n = 70 if ctx.quick else 600
    names = [m for m in METHODS]
    lines, cases = [], []
    branch_count = {}
    special = [(sp, m) for sp in special_corr_specs() for m in (["BFGS", "CG", "L-BFGS-B", "Newton-CG", "iminuit"] + ([] if ctx.quick else ["trust-ncg-p", "test", "BFGS"]))]
    for i in range(n + len(special)):
        rnd = random.Random(ctx.seed * 1000003 + i)
        if i >= n:
            spec, method = special[i - n]
            spec = copy.deepcopy(spec)
        else:
            spec = gen_spec(rnd, wild=(i % 3 == 2))
            if i < len(names):
                method = names[i]
            else:
                cls = rnd.choice(["quasi", "quasi", "lbfgsb", "newton", "newton", "minuit"])
                method = rnd.choice([m for m in names if METHODS[m] == cls])
        cls = METHODS[method]
        vm = S.build_vm(spec)
        fcn = S.SynthFCN(vm, spec["nll_seed"], spec["gauss"], centre=spec.get("centre"))
        ntr = len(vm.trainable_vars)
        sc = gen_script(rnd, spec, method, ntr)
        stdc = rnd.random() < 0.85
        jac = True if (cls != "quasi" or rnd.random() < 0.8) else False
        before = dump_vm(vm)
        kw = {"standard_complex": stdc}
        if jac is not True:
            kw["jac"] = jac
        sc.vm = vm
        with scripted(sc):
            kind, r = run_fit(fcn, method, S.bounds_of(spec), **kw)
        after = dump_vm(vm)
        if cls in ("quasi", "newton"):
            # method "test" is dispatched before the `jac is not True` branch: it always minimises the transformed f_g
            ek = "t" if (jac is True or method == "test" or fix["nojacTrans"]) else "r"
            per = 1 + (1 if cls == "newton" else 0)  # fun + hess / hessp at the same point
        else:
            ek, per = "r", 1
        pts = list(sc.evals) + ([sc.big] if sc.big is not None and cls in ("quasi", "lbfgsb") else [])
        ev = []
        for p in pts:
            for _ in range(per):
                ev += [ek, str(len(p))] + [C.f2h(v) for v in p] + [";"]
        ev = ev[:-1] if ev else []
        abort = sc.big is not None and cls in ("quasi", "lbfgsb")
        bt = [str(len(spec["bounds"]))] + [t for k, (lo, hi) in spec["bounds"].items() for t in (k, opt_f(lo), opt_f(hi))]
        # after an abort except_result reports fcn.cached_nll: the NLL of the last evaluation
        fval = float(fcn.cached_nll) if abort else sc.fval
        ora = [b01(abort), b01(sc.has_hess_inv), b01(sc.success), C.f2h(fval), str(len(sc.x))] + [C.f2h(v) for v in sc.x]
        line = ["C08", "fitv", b01(variant["fixSame"]), b01(variant["fixStd"]), b01(variant["stdFree"]), b01(variant["boundHead"]), b01(spec["polar"]),
                b01(fix["lbfgsb"]), b01(fix["newtonRm"]), b01(fix["hessOpt"]), b01(fix["minuitSet"]), b01(fix["exceptRm"]), b01(fix["stdBounded"]),
                cls, b01(stdc), "|"] + setup_tokens(spec) + ["|"] + bt + ["|"] + ora + ["|"] + ev
        lines.append(" ".join(line))
        cases.append((i, spec, method, kw, sc, before, after, kind, r))
        branch_count[cls] = branch_count.get(cls, 0) + 1
    out = ctx.model.query(lines)
    ndis, first = 0, None
    nontriv = set()
    outcomes = {}
    for (i, spec, method, kw, sc, before, after, kind, r), line in zip(cases, out):
        why = None
        if line == "bad-op":
            why = "model could not parse the case"
        else:
            d0, dm, d1, oc = line.split("#")
            why = compare_dump(before, parse_dump(d0))
            if why:
                why = "state before the fit: " + why
            elif sc.bnd_during is not None and eff_bnd(sc.bnd_during, spec, before["same"], variant["boundHead"]) != eff_bnd(parse_dump(dm)["bnd"], spec, before["same"], variant["boundHead"]):
                why = "names with a bound transform in force while the minimiser runs (vm.bnd_dic keys, fully open entries aside): impl %r model %r" % (
                    eff_bnd(sc.bnd_during, spec, before["same"], variant["boundHead"]), eff_bnd(parse_dump(dm)["bnd"], spec, before["same"], variant["boundHead"]))
            elif METHODS[method] == "minuit" and ctx.fix["minuitBnd"] and sorted(sc.seen_limits or {}) != sorted(
                    t for t in before["trainable"] if t in route_bounds(spec["bounds"], before["same"], variant["boundHead"])):
                why = "limits handed to Minuit: impl %r, declared for free names %r" % (sorted(sc.seen_limits or {}), sorted(
                    t for t in before["trainable"] if t in route_bounds(spec["bounds"], before["same"], variant["boundHead"])))
            else:
                why = compare_dump(after, parse_dump(d1))
                if why:
                    why = "state after the fit: " + why
            if not why:
                if oc.startswith("raised"):
                    exc = oc.split(" ", 1)[1]
                    if kind != "raised" or type(r).__name__ != exc:
                        why = "outcome: impl %s model raised %s" % ((kind, type(r).__name__ if kind == "raised" else ""), exc)
                else:
                    f = oc.split(" ")
                    if kind != "ok":
                        why = "outcome: impl raised %s: %s, model returns a result" % (type(r).__name__, r)
                    else:
                        mp = [(x.split("=")[0], C.h2f(x.split("=")[1])) for x in f[4].split(",")] if len(f) > 4 and f[4] else []
                        ip = [(k, float(v)) for k, v in r.params.items()]
                        if int(f[1]) != r.ndf or (f[2] == "1") != bool(r.success) or not close(C.h2f(f[3]), r.min_nll, 0.0):
                            why = "result header: impl (%r, %r, %r) model %r" % (r.ndf, r.success, r.min_nll, f[1:4])
                        elif [k for k, _ in mp] != [k for k, _ in ip] or not all(close(a[1], b[1]) for a, b in zip(mp, ip)):
                            why = "FitResult.params: impl %r model %r" % (ip, mp)
        oc_key = (METHODS[method], kind if kind == "ok" else type(r).__name__)
        outcomes["%s:%s" % oc_key] = outcomes.get("%s:%s" % oc_key, 0) + 1
        nontriv.add((METHODS[method], len(after["trainable"]), len(after["same"]), len(spec["bounds"]), kind, tuple(after["part"])))
        if why:
            ndis += 1
            if first is None:
                first = {"case": i, "method": method, "kw": kw, "why": why, "spec": spec,
                         "script": {"evals": sc.evals, "x": sc.x, "big": sc.big, "has_hess_inv": sc.has_hess_inv}}
    res.coverage.update({
        "traces_validated_against_impl": len(cases),
        "evaluations": len(cases),
        "distinct_nontrivial": len(nontriv),
        "rule": "seeded scenarios (2-4 real + 1-3 complex parameters; fixed, tied (real / complex / shared radius), two-/one-sided/(None,None) bounds, Gaussian constraints) x every method name of fit_scipy x a scripted minimiser (0-4 evaluations, arbitrary answer, hess_inv present or not, LargeNumberError from the callback) run through the REAL fit_scipy / fit_newton_cg / fit_minuit_v2 and through TfPwaV.Fit.fit with the observed Fix flags; compared: state before, state after (free list, names, object partition, values 1e-12, flags, complex_vars, same_list, bnd_dic), exception type or FitResult (ndf, success, min_nll exact, params in order); non-trivial = distinct (branch, sizes, partition, outcome)",
        "exhaustive": False,
        "branches": branch_count,
        "outcomes": outcomes,
        "disagreements": ndis,
        "fix_flags_observed": fix,
        "vars_variant": variant,
        "repair_scenarios_in_correspondence": len(special),
    })
    res.samples += [{"method": c[2], "spec_vars": [v["name"] for v in c[1]["vars"]], "bounds": c[1]["bounds"], "outcome": c[7]} for c in cases[:3]]
    if ndis:
        res.broke("correspondence Fit.fit vs tf_pwa.fit.fit_scipy", {"n": ndis, "first": first})
        ctx.hint = first
    correspond_fi(ctx, res)


def correspond_fi(ctx, res):
    """tf_pwa.fit_improve (method "test") vs TfPwaV.FitImprove: the real minimize / fmin_bfgs_f with the REAL line search on small
    objectives; the recorded line-search / inverse / objective answers are fed to the model; whole iterate sequence + result"""
    import c08_fi as FI
    fixfi = FI.probe_fix()
    ctx.fixfi = fixfi
    res.notes.append("fit_improve variant observed (true = after fix_fit_improve_best_point.diff): %r" % fixfi)
    cases = FI.gen_cases(ctx.seed, ctx.quick, ctx.suspect)
    lines, recs = [], []
    for c in cases:
        kind, n, sd, x0, maxiter, gtol, M, cbl, raises = c
        fg = FI.make_objective(kind, n, sd)
        out, rec = FI.run_real(fg, x0, maxiter, gtol, M, cbl, raises)
        lines.append(FI.run_line(x0, rec, maxiter, gtol, M, cbl, fixfi["best"]))
        recs.append((c, fg, out, rec))
    nmc = FI.nm_cases(ctx.seed, ctx.quick)
    nmr = [FI.run_nm(c) for c in nmc]
    lines += [FI.nm_line(c, tab, args, fixfi["refresh"]) for c, (out, tab, args) in zip(nmc, nmr)]
    cac = FI.cache_cases(ctx.seed, ctx.quick)
    car = [FI.run_cache(c) for c in cac]
    lines += [FI.cache_line(c, tab) for c, (outs, tab) in zip(cac, car)]
    ans = ctx.model.query(lines)
    ndis, first, contract_bad = 0, None, []
    exits, lskinds, nontriv, niter = {}, {}, set(), 0
    for (c, fg, out, rec), line in zip(recs, ans):
        why = "model could not parse the case" if line == "bad-op" else FI.compare_run(out, rec, FI.parse_run(line, c[1]), c[1])
        if why:
            ndis += 1
            first = first or {"what": "fmin_bfgs_f", "case": list(c), "why": why[:1500]}
        bad, cnt = FI.check_contract(fg, rec, fixfi["refresh"])
        contract_bad += [{"case": list(c), "why": w[:600]} for w in bad]
        for k, v in cnt.items():
            lskinds[k] = lskinds.get(k, 0) + v
        ek = "raised" if out[0] == "raised" else "status%d" % int(out[1].status)
        exits[ek] = exits.get(ek, 0) + 1
        niter += len(rec["ls"])
        nontriv.add((c[0], c[1], ek, len(rec["ls"]), tuple(sorted(k for k, v in cnt.items() if v))))
    # the run of TfPwaV.C08b.fun_above_start_witness(_fixed) on the real code
    wit = [(c, out) for (c, fg, out, rec) in recs if c[0] == "witness"]
    for c, out in wit:
        want = (2.0, [1.0], 2) if fixfi["best"] else (18.0, [-3.0], 2)
        got = (float(out[1].fun), [float(v) for v in out[1].x], int(out[1].status)) if out[0] == "ok" else out
        if got != want:
            res.broke("the run of C08b.fun_above_start_witness on the real fmin_bfgs_f", {"impl": got, "theorem": want, "best": fixfi["best"]})
    off = len(recs)
    for c, (out, tab, args), line in zip(nmc, nmr, ans[off:off + len(nmc)]):
        why = "model could not parse the case" if line == "bad-op" else FI.compare_nm(out, line)
        if why:
            ndis += 1
            first = first or {"what": "line_search_nonmonote", "case": list(c), "why": why[:1500]}
    off += len(nmc)
    for c, (outs, tab), line in zip(cac, car, ans[off:]):
        why = "model could not parse the case" if line == "bad-op" else FI.compare_cache(outs, line)
        if why:
            ndis += 1
            first = first or {"what": "Cached_FG", "case": [c[0], c[1], c[2], c[3], [list(o) for o in c[4]]], "why": why[:1500]}
    res.coverage["fit_improve"] = {
        "runs_of_the_real_minimiser_compared": len(recs), "loop_iterations_compared": niter, "exits": exits,
        "line_search_answers": lskinds, "distinct_nontrivial": len(nontriv),
        "line_search_nonmonote_calls_compared": len(nmc), "cached_fg_op_sequences_compared": len(cac),
        "disagreements": ndis, "contract_violations_of_the_real_line_search": len(contract_bad), "variant": fixfi,
        "rule": "real fit_improve.minimize (real line_search_wolfe2/_zoom/line_search_nonmonote) on quadratics, Rosenbrock, cosine sums, an L1 objective (failing Wolfe search), an objective with NaN gradient components (Cached_FG NaN branches, TypeError path), steep quadratics with harness-made line-search failures, maxiter 0..25/default, gtol 1e-3..1e-9, M 1..3, raising callback; recorded: every outer objective call, every line-search call (arguments, answer or exception, number of fun calls), every np.linalg.inv call; compared with FitImproveF.fminBfgs: arguments of every line-search call (xk, pk, gfk, window maximum, old_fval, old_old_fval), Bk after every update, status, nit, nfev, success, fun, x, jac, hess (1e-12 of the largest entry); on every recorded answer of the real line search: new_fval / gradient are those of xk + alpha pk, the Wolfe answers satisfy Armijo w.r.t. fk, the fallback answers w.r.t. the window maximum, fk <= window maximum",
    }
    res.coverage["traces_validated_against_impl"] = res.coverage.get("traces_validated_against_impl", 0) + len(recs) + len(nmc) + len(cac)
    if ndis:
        res.broke("correspondence FitImprove (fmin_bfgs_f / line_search_nonmonote / Cached_FG) vs tf_pwa.fit_improve", {"n": ndis, "first": first})
    if contract_bad:
        res.broke("the real line search breaks the contract the C08b theorems assume", {"n": len(contract_bad), "first": contract_bad[0]})


# ----------------------------------------------------------------------------------------------
# search: the property statement on the real code with the real minimisers
# ----------------------------------------------------------------------------------------------

def site_of(method):
    cls = METHODS.get(method, "unknown")
    if cls == "newton":
        return "fit_newton_cg"
    if cls == "minuit":
        return "fit_minuit"
    return "fit_scipy:" + method


def tie_classes(spec):
    parent = {}

    def find(a):
        parent.setdefault(a, a)
        while parent[a] != a:
            parent[a] = parent[parent[a]]
            a = parent[a]
        return a

    def union(a, b):
        parent[find(a)] = find(b)

    for t in spec.get("ties", []):
        if "share" in t:
            for n in t["share"][1:]:
                union(t["share"][0] + "r", n + "r")
        elif t.get("cplx"):
            for n in t["names"][1:]:
                union(t["names"][0] + "r", n + "r")
                union(t["names"][0] + "i", n + "i")
        else:
            for n in t["names"][1:]:
                union(t["names"][0], n)
    groups = {}
    for a in list(parent):
        groups.setdefault(find(a), []).append(a)
    return [sorted(g) for g in groups.values() if len(g) > 1]


def ulp_slack(v):
    return 4 * math.ulp(max(1.0, abs(v)))


def std_explains(n, c, before, state):
    """is the change of the FIXED part n of the polar complex parameter c what the polar standardisation does
    (r -> |r|, phi -> phi + pi, phi wrapped by multiples of 2 pi; the other part may be free and moved by the fit)?"""
    if n == c + "r":
        return abs(abs(state[n]) - abs(before[n])) <= 1e-12 * max(1.0, abs(before[n]))
    d = (state[n] - before[n]) / math.pi
    return abs(d - round(d)) <= 1e-9 * max(1.0, abs(d))


def check_fit(spec, vm, fcn, method, opts, before, start_nll, kind, r, leftover):
    """the clauses of the property after one fit; -> list of (key, what)"""
    import c08_synth as S
    site = site_of(method)
    fails = []
    state = {n: float(v.numpy()) for n, v in vm.variables.items()}
    if opts.get("jac", True) is not True:
        site = "fit_scipy:jac-false"
    if opts.get("check_grad"):
        site = "fit_scipy:check_grad"
    if opts.get("improve"):
        site = "fit_scipy:improve:" + method
    if kind == "raised":
        fails.append(("%s:raises:%s" % (site, type(r).__name__), "fit_scipy(method=%r) raises %s: %s" % (method, type(r).__name__, r)))
        if vm.bnd_dic and not leftover:
            fails.append(("%s:raises:bnd_dic-left" % site, "after the exception vm.bnd_dic still holds %r" % list(vm.bnd_dic)))
        return fails
    params = {k: float(v) for k, v in r.params.items()}
    if r.success is False and opts.get("expect_large") and not any(math.isnan(v) for v in params.values()):
        site = "except_result"
    if math.isnan(float(r.min_nll)) or any(math.isnan(v) for v in params.values()):
        nn = [k for k, v in params.items() if math.isnan(v)]
        fails.append(("%s:nan-result" % site, "the fit returns min_nll = %r and NaN for %d parameter(s) %r; the model holds them (NLL(start) = %r, success = %r)" % (
            float(r.min_nll), len(nn), nn[:3], start_nll, r.success)))
        return fails
    # 1. the model holds exactly the listed values
    bad = [(k, v, state.get(k)) for k, v in params.items() if state.get(k) != v]
    if bad:
        fails.append(("%s:params-vs-state" % site, "FitResult.params[%r] = %r but the model holds %r (%d names differ)" % (bad[0][0], bad[0][1], bad[0][2], len(bad))))
    missing = [t for t in vm.trainable_vars if t not in params]
    if missing:
        fails.append(("%s:params-missing-free-names" % site, "free parameters %r are not in FitResult.params" % missing))
    # 2. min_nll = NLL(params)
    full = dict(before)
    full.update(state if not bad else {})
    full.update(params)
    for n in full:  # names tied to a listed free parameter share its variable object: they take its listed value
        if n not in params:
            for t in params:
                if t in vm.variables and vm.variables[t] is vm.variables[n]:
                    full[n] = params[t]
    nll_p = fcn.nll_of(full)
    scale = max(1.0, abs(nll_p))
    if not (abs(nll_p - r.min_nll) <= 1e-9 * scale):
        fails.append(("%s:min_nll-vs-params" % site, "min_nll = %r but NLL(params) = %r" % (r.min_nll, nll_p)))
    # 3. not above the start
    if not (r.min_nll <= start_nll + 1e-9 * max(1.0, abs(start_nll))) and not opts.get("expect_large") and opts.get("start_feasible", True):
        fails.append(("%s:min_nll-above-start" % site, "min_nll = %r > NLL(start) = %r" % (r.min_nll, start_nll)))
    # 4. fixed parameters unchanged
    free_objs = {id(vm.variables[t]) for t in vm.trainable_vars}
    cparts = {}
    for c, pol in vm.complex_vars.items():
        cparts[c + "r"] = (c, pol)
        cparts[c + "i"] = (c, pol)
    for n in state:
        if id(vm.variables[n]) in free_objs:
            continue
        if state[n] != before[n]:
            if n in cparts and cparts[n][1]:
                c = cparts[n][0]
                z0 = before[c + "r"] * complex(math.cos(before[c + "i"]), math.sin(before[c + "i"]))
                z1 = state[c + "r"] * complex(math.cos(state[c + "i"]), math.sin(state[c + "i"]))
                both_fixed = id(vm.variables[c + "r"]) not in free_objs and id(vm.variables[c + "i"]) not in free_objs
                if abs(z0 - z1) <= 1e-12 * max(1.0, abs(z0)) or (not both_fixed and std_explains(n, c, before, state)):
                    fails.append(("standard_complex:fixed-polar-restandardised", "fixed parameter %s changed from %r to %r by the fit (%s, standard_complex)" % (
                        n, before[n], state[n], "same complex value" if both_fixed else "the fixed part of a polar parameter whose other part is free: sign / phase + k pi")))
                    continue
            fails.append(("%s:fixed-changed" % site, "fixed parameter %s changed from %r to %r" % (n, before[n], state[n])))
    # 5. tied parameters equal
    for g in tie_classes(spec):
        vals = {state[n] for n in g if n in state}
        if len(vals) > 1:
            fails.append(("%s:tie-broken" % site, "tied parameters %r hold %r" % (g, sorted(vals))))
    # 6. bounded parameters inside their bounds
    for n, (lo, hi) in S.bounds_of(spec).items():
        if n not in state or id(vm.variables[n]) not in free_objs:
            continue
        v = state[n]
        if (lo is not None and v < lo - ulp_slack(lo)) or (hi is not None and v > hi + ulp_slack(hi)):
            if n not in vm.trainable_vars:
                fails.append(("set_bound:tied-follower:out-of-bounds", "%s = %r outside its bounds (%r, %r): the bound is registered under the name of a tie-group member that is not the group's free name, so no transform is applied" % (n, v, lo, hi)))
            elif n in cparts and cparts[n][1]:
                fails.append(("standard_complex:bounded-part-out-of-bounds", "%s = %r outside (%r, %r) after the fit (polar standardisation ignores the removed bounds)" % (n, v, lo, hi)))
            else:
                fails.append(("%s:out-of-bounds" % site, "%s = %r outside its bounds (%r, %r)" % (n, v, lo, hi)))
    # 6b. every declared limit of a free parameter is in force while the transforming branches minimise
    if METHODS.get(method) in ("quasi", "newton") and fcn.bnd_seen is not None:
        lost = [n for n, (lo, hi) in S.bounds_of(spec).items() if (lo is not None or hi is not None) and n in vm.trainable_vars and n not in fcn.bnd_seen]
        if lost:
            fails.append(("%s:declared-bound-not-applied" % site, "bounds_dict declares %s in %r but while the minimiser ran vm.bnd_dic held transforms only for %r" % (
                lost[0], tuple(S.bounds_of(spec)[lost[0]]), fcn.bnd_seen)))
    # 7. bounds bookkeeping
    if vm.bnd_dic and not leftover:
        fails.append(("%s:bnd_dic-left" % site, "vm.bnd_dic still holds %r after the fit returned (vm.get(%r) = %r, stored value %r)" % (
            list(vm.bnd_dic), list(vm.bnd_dic)[0], float(vm.get(list(vm.bnd_dic)[0])) if list(vm.bnd_dic)[0] in vm.variables else None, state.get(list(vm.bnd_dic)[0]))))
    # 8. save -> fresh model -> load
    tmp = tempfile.mkdtemp(prefix="verif_c08_")
    try:
        path = os.path.join(tmp, "final_params.json")
        r.save_as(path)
        with open(path) as f:
            import yaml
            loaded = yaml.safe_load(f)["value"]
        vm2 = S.build_vm(spec)
        fcn2 = S.SynthFCN(vm2, spec["nll_seed"], spec["gauss"], linear=bool(opts.get("expect_large")), centre=spec.get("centre"), kind=spec.get("landscape"))
        for c in vm.complex_vars:  # the coordinate flags of the fresh model as the fitted one has them (a fit never switches them)
            if vm2.complex_vars[c] != vm.complex_vars[c]:
                fails.append(("%s:save-load" % site, "complex_vars[%r] differs between the fitted and a fresh model" % c))
        vm2.set_all(dict(loaded))
        st2 = {n: float(v.numpy()) for n, v in vm2.variables.items()}
        badl = [(k, params[k], st2.get(k)) for k in params if st2.get(k) != params[k]]
        if badl:
            fails.append(("%s:save-load" % site, "after save_as / set_all(loaded) a fresh model holds %s = %r, the result lists %r" % (badl[0][0], badl[0][2], badl[0][1])))
        elif not bad:
            n2 = fcn2.nll_of(st2)
            if not (abs(n2 - r.min_nll) <= 1e-9 * max(1.0, abs(n2))):
                if not any(k.endswith("min_nll-vs-params") for k, _ in fails):
                    fails.append(("%s:save-load" % site, "NLL of the re-loaded model %r != min_nll %r" % (n2, r.min_nll)))
    finally:
        shutil.rmtree(tmp, ignore_errors=True)
    return fails


def run_sequence(spec, seq, linear=False):
    """build the scenario, run the fits of `seq` one after the other on the real code, check after each; -> failures"""
    import c08_synth as S
    vm = S.build_vm(spec)
    fcn = S.SynthFCN(vm, spec["nll_seed"], spec["gauss"], linear=linear, centre=spec.get("centre"), kind=spec.get("landscape"))
    bounds = S.bounds_of(spec)
    fails, log = [], []
    for step in seq:
        method, opts = step["method"], dict(step.get("opts", {}))
        before = {n: float(v.numpy()) for n, v in vm.variables.items()}
        start = fcn.nll_of(before)
        leftover = bool(vm.bnd_dic)
        kw = {k: v for k, v in opts.items() if k in ("maxiter", "jac", "check_grad", "improve", "gtol")}
        if linear:
            opts["expect_large"] = True
        # `min_nll <= NLL(start)` presupposes a feasible start: inside the bounds the fit is asked to respect
        opts["start_feasible"] = all(
            (lo is None or before[n] >= lo) and (hi is None or before[n] <= hi)
            for n, (lo, hi) in bounds.items() if n in before and n in vm.trainable_vars)
        fcn.bnd_seen = None
        kind, r = run_fit(fcn, method, bounds, **kw)
        if leftover:
            # bounds left registered by the previous fit (reported there): this fit starts from a polluted bookkeeping
            # (vm.get returns transformed coordinates), its clauses are not judged
            log.append({"method": method, "opts": kw, "outcome": "not judged: bounds left registered by the previous fit"})
            break
        f = check_fit(spec, vm, fcn, method, opts, before, start, kind, r, leftover)
        log.append({"method": method, "opts": kw, "outcome": kind if kind == "ok" else type(r).__name__, "n_call": fcn.n_call,
                    "failed_clauses": [k for k, _ in f]})
        fails += f
        if kind == "raised":
            break  # no definite point to continue from
    return fails, log


FIX_POLAR_SPEC = {
    "polar": True, "ties": [], "fix": [], "gauss": {}, "nll_seed": 77, "bounds": {"p0": [0.5, 1.5]},
    "vars": [{"k": "real", "name": "p0", "value": 1.0, "free": True}, {"k": "cplx", "name": "z0", "polar": True, "free": True, "vals": [1.0, 0.3]},
             {"k": "cplx", "name": "z1", "polar": True, "free": False, "vals": [-1.0, 4.0]}],
}
BOUND_PHASE_SPEC = {
    "polar": True, "ties": [], "fix": [], "gauss": {}, "nll_seed": 78, "bounds": {"z0i": [3.3, 6.0]},
    "vars": [{"k": "real", "name": "p0", "value": 1.0, "free": True}, {"k": "cplx", "name": "z0", "polar": True, "free": True, "vals": [1.0, 4.0]}],
}


TIED_FOLLOWER_SPEC = {
    "polar": True, "fix": [], "gauss": {}, "nll_seed": 79, "ties": [{"names": ["p0", "p1"]}], "bounds": {"p1": [0.9, 1.1]},
    "vars": [{"k": "real", "name": "p0", "value": 1.0, "free": True}, {"k": "real", "name": "p1", "value": 1.0, "free": True},
             {"k": "real", "name": "p2", "value": 0.5, "free": True}],
}


def run_scripted(spec, method, script_d, stdc=True):
    """one fit through the real bookkeeping with a scripted minimiser (an arbitrary 'answer'); the clauses that must
    hold for ANY answer, with the library's own Bound as the oracle of the transform; -> failures"""
    import c08_synth as S
    from tf_pwa.variable import Bound
    site = site_of(method)
    cls = METHODS[method]
    vm = S.build_vm(spec)
    fcn = S.SynthFCN(vm, spec["nll_seed"], spec["gauss"], centre=spec.get("centre"))
    bounds = S.bounds_of(spec)
    before = {n: float(v.numpy()) for n, v in vm.variables.items()}
    sc = Script(script_d["evals"], script_d["x"], script_d["fval"], script_d["success"], script_d["has_hess_inv"])
    sc.vm = vm
    with scripted(sc):
        kind, r = run_fit(fcn, method, bounds, standard_complex=stdc)
    fails = []
    if kind == "raised":
        fails.append(("%s:raises:%s" % (site, type(r).__name__), "fit_scipy(method=%r) raises %s: %s (scripted minimiser)" % (method, type(r).__name__, r)))
        if vm.bnd_dic:
            fails.append(("%s:raises:bnd_dic-left" % site, "after the exception vm.bnd_dic still holds %r" % list(vm.bnd_dic)))
        return fails
    state = {n: float(v.numpy()) for n, v in vm.variables.items()}
    params = {k: float(v) for k, v in r.params.items()}
    bad = [(k, v, state.get(k)) for k, v in params.items() if state.get(k) != v]
    if bad:
        fails.append(("%s:params-vs-state" % site, "scripted minimiser: FitResult.params[%r] = %r but the model holds %r" % bad[0]))
    cparts = {c + t for c, pol in vm.complex_vars.items() for t in "ri"}
    polar_parts = {c + t: c for c, pol in vm.complex_vars.items() if pol for t in "ri"}
    free_objs0 = {id(vm.variables[t]) for t in vm.trainable_vars}
    # bounded parameters inside their bounds for ANY answer, where the library itself promises it (bound transforms:
    # BFGS family and Newton family) - parts of polar parameters and names tied to the free name included
    if cls in ("quasi", "newton") and not bad:
        for n, (lo, hi) in bounds.items():
            if n not in state or id(vm.variables[n]) not in free_objs0:
                continue
            v = state[n]
            if (lo is not None and v < lo - ulp_slack(lo)) or (hi is not None and v > hi + ulp_slack(hi)):
                if n not in vm.trainable_vars:
                    fails.append(("set_bound:tied-follower:out-of-bounds", "scripted minimiser: %s = %r outside its bounds (%r, %r): the bound is registered under the name of a tie-group member that is not the group's free name" % (n, v, lo, hi)))
                elif n in polar_parts and stdc and cls == "quasi":
                    fails.append(("standard_complex:bounded-part-out-of-bounds", "scripted minimiser: %s = %r outside (%r, %r) after the fit (polar standardisation ignores the removed bounds)" % (n, v, lo, hi)))
                else:
                    fails.append(("%s:out-of-bounds" % site, "scripted minimiser: %s = %r outside its bounds (%r, %r)" % (n, v, lo, hi)))
    for t, x in zip(vm.trainable_vars, sc.x):
        if bad:
            break  # the result does not describe the model state at all (reported above)
        if t in cparts and stdc and cls in ("quasi", "lbfgsb"):
            continue  # polar standardisation may rewrite components
        wants = [x]
        if cls in ("quasi", "newton"):
            # the bound declared under t itself, or (tree after fix_C08_set_bound_free_name.diff) under a name tied to t;
            # whether a follower's bound is in force is judged by the out-of-bounds clause above, not here
            mates = [n for n in bounds if n != t and n in vm.variables and vm.variables[n] is vm.variables[t]]
            if t in bounds:
                wants = [Bound(*bounds[t]).get_x2y(x)]
            wants += [Bound(*bounds[n]).get_x2y(x) for n in mates]
        if not any(close(state[t], w) for w in wants):
            fails.append(("%s:state-is-not-the-answer" % site, "scripted minimiser answers %s = %r (stored value should be %s) but the model holds %r" % (t, x, " or ".join(repr(w) for w in wants), state[t])))
            break
    free_objs = {id(vm.variables[t]) for t in vm.trainable_vars}
    for n in state:
        if id(vm.variables[n]) not in free_objs and state[n] != before[n]:
            if n in polar_parts:
                c = polar_parts[n]
                z0 = before[c + "r"] * complex(math.cos(before[c + "i"]), math.sin(before[c + "i"]))
                z1 = state[c + "r"] * complex(math.cos(state[c + "i"]), math.sin(state[c + "i"]))
                both_fixed = id(vm.variables[c + "r"]) not in free_objs and id(vm.variables[c + "i"]) not in free_objs
                if abs(z0 - z1) <= 1e-12 * max(1.0, abs(z0)) or (not both_fixed and std_explains(n, c, before, state)):
                    fails.append(("standard_complex:fixed-polar-restandardised", "scripted minimiser: fixed parameter %s changed from %r to %r by the fit (%s, standard_complex)" % (
                        n, before[n], state[n], "same complex value" if both_fixed else "the fixed part of a polar parameter whose other part is free: sign / phase + k pi")))
                    continue
            fails.append(("%s:fixed-changed" % site, "fixed parameter %s changed from %r to %r" % (n, before[n], state[n])))
    for g in tie_classes(spec):
        if len({state[n] for n in g if n in state}) > 1:
            fails.append(("%s:tie-broken" % site, "tied parameters %r differ after the fit" % g))
    if vm.bnd_dic:
        fails.append(("%s:bnd_dic-left" % site, "vm.bnd_dic still holds %r after the fit returned (scripted minimiser)" % list(vm.bnd_dic)))
    return fails


def scripted_cases(ctx):
    rnd = random.Random(ctx.seed * 104729 + 7)
    out = []
    n = 3 if ctx.quick else 25
    if ctx.suspect:
        n *= 3
    for si in range(n):
        spec = gen_spec(rnd, wild=False)
        import c08_synth as S
        ntr = len(S.build_vm(spec).trainable_vars)
        for m in ["BFGS", "Newton-CG", "trust-krylov-p", "iminuit", "L-BFGS-B", "CG"]:
            sc = gen_script(rnd, spec, m, ntr)
            if not sc.evals:
                sc.evals = [[round(rnd.uniform(-2, 2), 3) for _ in range(ntr)]]
            out.append((spec, m, {"evals": sc.evals, "x": sc.x, "fval": sc.fval, "success": sc.success, "has_hess_inv": m in HAS_HESS_INV}))
    # the scenarios of the three repairs (fixed polar parameters, bounded parts, bounds named on tie followers) with
    # seeded arbitrary answers, negative radii and phases far outside (-pi, pi) included
    import c08_synth as S
    for spec in special_corr_specs():
        ntr = len(S.build_vm(spec).trainable_vars)
        for m in ["BFGS", "Newton-CG", "L-BFGS-B", "iminuit"] + ([] if ctx.quick else ["CG", "trust-exact", "test"]):
            for rep in range(2 if ctx.quick else 6):
                sc = gen_script(rnd, spec, m, ntr)
                sc.x = [round(rnd.uniform(-3.0, 3.0), 3) if rnd.random() < 0.7 else rnd.choice([-1.0, 7.5, -7.5, 0.0]) for _ in range(ntr)]
                out.append((spec, m, {"evals": sc.evals, "x": sc.x, "fval": sc.fval, "success": sc.success, "has_hess_inv": m in HAS_HESS_INV}))
    return out


# limits at exactly 0 (int and float), a fully open entry, an integer two-sided range containing 0 — every optimum outside
ZERO_LIMIT_SPEC = {
    "polar": True, "fix": [], "gauss": {}, "nll_seed": 80, "ties": [],
    "vars": [{"k": "real", "name": "p0", "value": 0.6, "free": True}, {"k": "real", "name": "p1", "value": -0.7, "free": True},
             {"k": "real", "name": "p2", "value": 0.4, "free": True}, {"k": "real", "name": "p3", "value": 0.5, "free": True},
             {"k": "real", "name": "p4", "value": 1.1, "free": True}, {"k": "cplx", "name": "z0", "polar": True, "free": True, "vals": [1.0, 0.4]}],
    "bounds": {"p0": [0, None], "p1": [None, 0.0], "p2": [None, None], "p3": [-1, 2], "p4": [0.0, None]},
    "centre": {"p0": -1.2, "p1": 0.9, "p2": 0.3, "p3": 3.1, "p4": -0.8},
}


# ties between PARTS of polar complex parameters (shared radius; tied phases), every fit starts — and, stopped early, ends —
# with a negative radius on the FIRST-listed member of a tie group: standard_complex must leave every member of a tie
# group alone (adding pi to one member's phase would rotate its partners)
NEG_R_TIE_SPECS = [
    {"polar": True, "fix": [], "gauss": {}, "nll_seed": 91, "bounds": {},
     "centre": {"z0r": -0.9211, "z0i": -0.3894, "z1r": 0.3233, "z1i": -0.9463, "z2r": -0.9178, "z2i": 0.7731},  # Cartesian optimum = negative radius at the start phases
     "vars": [{"k": "real", "name": "p0", "value": 0.6, "free": True},
              {"k": "cplx", "name": "z0", "polar": True, "free": True, "vals": [-0.8, 0.4]},
              {"k": "cplx", "name": "z1", "polar": True, "free": True, "vals": [-0.8, 1.9]},
              {"k": "cplx", "name": "z2", "polar": True, "free": True, "vals": [-1.1, -0.7]}],
     "ties": [{"share": ["z0", "z1"]}]},
    {"polar": True, "fix": [], "gauss": {}, "nll_seed": 92, "bounds": {},
     "centre": {"z0r": -0.9211, "z0i": -0.3894, "z1r": 0.9211, "z1i": 0.3894},
     "vars": [{"k": "real", "name": "p0", "value": 0.6, "free": True},
              {"k": "cplx", "name": "z0", "polar": True, "free": True, "vals": [-0.8, 0.4]},
              {"k": "cplx", "name": "z1", "polar": True, "free": True, "vals": [0.9, 0.4]},
              {"k": "cplx", "name": "z2", "polar": True, "free": True, "vals": [1.3, -0.7]}],
     "ties": [{"names": ["z0i", "z1i"]}]},
]


def _one(method, **opts):
    return [{"method": method, "opts": opts}]


# the library's own minimiser (method "test") on an NLL with kinks: the Wolfe search fails, the fallback search accepts a step,
# the unguarded BFGS update divides by <yk, dki> = 0
L1_SPEC = {
    "polar": True, "ties": [], "fix": [], "gauss": {}, "nll_seed": 5, "bounds": {}, "landscape": "l1",
    "vars": [{"k": "real", "name": "p0", "value": -1.319, "free": True}, {"k": "real", "name": "p1", "value": 2.696, "free": True}],
}
# a smooth NLL and a gradient tolerance below what double precision can reach: the same exit
TIGHT_SPEC = {
    "polar": True, "ties": [], "fix": [], "gauss": {}, "nll_seed": 11, "bounds": {},
    "vars": [{"k": "real", "name": "p0", "value": 1.2, "free": True}, {"k": "real", "name": "p1", "value": 0.5, "free": True},
             {"k": "real", "name": "p2", "value": 0.7, "free": True}],
}


# key of a listed finding -> (scenario, fit sequence, landscape without minimum?) that reproduces it on the unchanged tree
KNOWN_INPUTS = {
    "fit_scipy:L-BFGS-B:raises:AttributeError": (PROBE_SPEC, _one("L-BFGS-B"), False),
    "fit_scipy:CG:raises:AttributeError": (PROBE_SPEC, _one("CG"), False),
    "fit_scipy:Nelder-Mead:raises:AttributeError": (PROBE_SPEC, _one("Nelder-Mead", maxiter=40), False),
    "fit_scipy:test:raises:AttributeError": (PROBE_SPEC, _one("test"), False),
    "fit_newton_cg:bnd_dic-left": (PROBE_SPEC, _one("trust-ncg"), False),
    "fit_minuit:params-vs-state": (PROBE_SPEC, _one("iminuit"), False),
    "except_result:bnd_dic-left": (FIX_POLAR_SPEC, _one("BFGS"), True),
    "fit_scipy:jac-false:min_nll-vs-params": (PROBE_SPEC, _one("BFGS", jac=False, maxiter=30), False),
    "fit_scipy:check_grad:min_nll-vs-params": (PROBE_SPEC, _one("BFGS", check_grad=True, maxiter=2), False),
    "standard_complex:fixed-polar-restandardised": (FIX_POLAR_SPEC, _one("BFGS"), False),
    "standard_complex:bounded-part-out-of-bounds": (BOUND_PHASE_SPEC, _one("BFGS"), False),
    "set_bound:tied-follower:out-of-bounds": (TIED_FOLLOWER_SPEC, _one("BFGS"), False),
    "fit_scipy:test:nan-result": (L1_SPEC, _one("test"), False),
    "fit_scipy:improve:test:raises:ValueError": (PROBE_SPEC, _one("test", improve=True, maxiter=2), False),
}
# further keys produced by the same inputs: <method>:raises:bnd_dic-left (CG, Nelder-Mead, test), fit_minuit:out-of-bounds


def synth_cases(ctx):
    """(tag, spec, seq, linear)"""
    rnd = random.Random(ctx.seed * 7919 + 13)
    cases = []
    nspec = 3 if ctx.quick else 14
    quick_nm = {"maxiter": 150}
    all_methods = [m for m in METHODS if m != "no-such-method"]
    for si in range(nspec):
        spec = gen_spec(rnd, wild=False)
        for m in all_methods:
            opts = dict(quick_nm) if m == "Nelder-Mead" and (ctx.quick or si > 1) else {}
            cases.append(("default", spec, [{"method": m, "opts": opts}], False))
        # stopped early
        for mi in ([0, 1, 5] if not ctx.quick or si == 0 else [rnd.choice([0, 1, 5])]):
            for m in (["BFGS", "CG", "L-BFGS-B", "Nelder-Mead"] if not ctx.quick or si == 0 else [rnd.choice(["BFGS", "CG", "L-BFGS-B"])]):
                cases.append(("maxiter", spec, [{"method": m, "opts": {"maxiter": mi}}], False))
        # two fits in a row
        pairs = [("BFGS", "BFGS"), ("Newton-CG", "iminuit"), ("trust-ncg", "BFGS"), ("iminuit", "BFGS"), ("BFGS", "Newton-CG-p"), ("CG", "BFGS")]
        for a, b in (pairs if not ctx.quick else [pairs[(si + ctx.seed) % len(pairs)], pairs[(si + ctx.seed + 1) % len(pairs)]]):
            cases.append(("two-fits", spec, [{"method": a, "opts": {"maxiter": 3} if a in ("BFGS", "CG") else {}}, {"method": b, "opts": {}}], False))
        # options
        if si == 0 or not ctx.quick:
            cases.append(("jac-false", spec, [{"method": "BFGS", "opts": {"jac": False, "maxiter": 30}}], False))
            cases.append(("check-grad", spec, [{"method": "BFGS", "opts": {"check_grad": True, "maxiter": 2}}], False))
            cases.append(("large", spec, [{"method": "BFGS", "opts": {}}], True))
            # improve=True: the second minimisation stage (first stage stopped early, so it is entered)
            for m in ("BFGS", "CG", "test"):
                cases.append(("improve", spec, [{"method": m, "opts": {"improve": True, "maxiter": 2}}], False))
            cases.append(("own-minimiser", spec, [{"method": "test", "opts": {"maxiter": 3}}, {"method": "test", "opts": {}}], False))
            cases.append(("own-minimiser", spec, [{"method": "test", "opts": {"maxiter": 60}}], True))
    cases.append(("own-minimiser", L1_SPEC, _one("test"), False))
    cases.append(("own-minimiser", TIGHT_SPEC, _one("test", gtol=1e-13), False))
    cases.append(("own-minimiser", TIGHT_SPEC, _one("test", maxiter=0), False))
    for m in (["BFGS", "Newton-CG", "trust-exact", "iminuit", "L-BFGS-B", "test"] + ([] if ctx.quick else ["CG", "Nelder-Mead", "trust-krylov-p"])):
        cases.append(("zero-limit", ZERO_LIMIT_SPEC, _one(m, **({"maxiter": 150} if m == "Nelder-Mead" else {})), False))
    for spec in NEG_R_TIE_SPECS:
        for m, o in ([("BFGS", {"maxiter": 0}), ("BFGS", {"maxiter": 2}), ("L-BFGS-B", {"maxiter": 2}), ("BFGS", {})] + ([] if ctx.quick else [("CG", {"maxiter": 2}), ("Newton-CG", {}), ("iminuit", {}), ("L-BFGS-B", {})])):
            cases.append(("neg-r-tie", spec, _one(m, **o), False))
    for key, (spec, seq, linear) in KNOWN_INPUTS.items():  # the deterministic corpus of the listed findings
        cases.append(("corpus", spec, seq, linear))
    # the scenarios of the three standard_complex / set_bound repairs with the real minimisers, every branch
    for spec in special_corr_specs():
        for m, o in ([("BFGS", {}), ("L-BFGS-B", {}), ("Newton-CG", {}), ("iminuit", {})] + ([] if ctx.quick else [("CG", {}), ("trust-exact", {}), ("BFGS", {"maxiter": 1})])):
            cases.append(("repairs", spec, _one(m, **o), False))
    if not ctx.quick:
        for si in range(6):
            spec = gen_spec(rnd, wild=True)
            for m in ["BFGS", "Newton-CG", "trust-exact", "iminuit", "L-BFGS-B", "CG"]:
                cases.append(("wild", spec, [{"method": m, "opts": {}}], False))
    return cases


# ---- the real model ---------------------------------------------------------------------------

REAL_CFG = {
    "data": {"dat_order": ["B", "C", "D"]},
    "decay": {"A": [["R_BC", "D"], ["R_BD", "C"]], "R_BC": ["B", "C"], "R_BD": ["B", "D"]},
    "particle": {
        "$top": {"A": {"J": 0, "P": -1, "mass": 4.6}},
        "$finals": {"B": {"J": 0, "P": -1, "mass": 2.00698}, "C": {"J": 0, "P": -1, "mass": 2.01028}, "D": {"J": 0, "P": -1, "mass": 0.13957}},
        "R_BC": {"J": 1, "Par": -1, "m0": 4.16, "g0": 0.1, "float": ["m", "g"], "m_min": 4.1, "m_max": 4.25, "g_min": 0},
        "R_BD": {"J": 0, "Par": 1, "m0": 2.43, "g0": 0.3, "float": ["m"], "gauss_constr": {"m": 0.02}},
    },
    "constrains": {"decay": {"fix_chain_idx": 0, "fix_chain_val": 1.0}, "var_range": {"A->R_BD.CR_BD->B.D_total_0r": [0, None]}},
}


class Budget(Exception):
    """raised by the harness when a fit on the real model exceeds its evaluation budget (never a finding)"""


@contextlib.contextmanager
def eval_budget(n):
    from tf_pwa.model import FCN
    names = ["get_nll_grad", "get_nll_grad_hessian", "get_grad_hessp", "get_nll"]
    orig = {k: getattr(FCN, k) for k in names}
    count = [0, set()]

    def wrap(f):
        def g(self, *a, **k):
            count[0] += 1
            count[1].update(self.vm.bnd_dic)
            if count[0] > n:
                raise Budget()
            return f(self, *a, **k)
        return g

    for k in names:
        setattr(FCN, k, wrap(orig[k]))
    try:
        yield count
    finally:
        for k in names:
            setattr(FCN, k, orig[k])


class RealRig:
    def __init__(self, seed):
        import numpy as np
        import tensorflow as tf
        from tf_pwa.config_loader import ConfigLoader
        self.seed = seed
        np.random.seed(1000 + seed)
        tf.random.set_seed(1000 + seed)
        self.config = ConfigLoader(copy.deepcopy(REAL_CFG))
        self.vm = self.config.get_amplitude().vm
        self.phsp = self.config.data.cal_angle(self.config.generate_phsp_p(300))
        self.data = self.config.data.cal_angle(self.config.generate_phsp_p(80))
        self.init = {n: float(v.numpy()) for n, v in self.vm.variables.items()}

    def fresh(self):
        import numpy as np
        import tensorflow as tf
        from tf_pwa.config_loader import ConfigLoader
        np.random.seed(5000 + self.seed)
        tf.random.set_seed(5000 + self.seed)
        c = ConfigLoader(copy.deepcopy(REAL_CFG))
        c.get_amplitude()
        return c

    def nll(self, config, params=None):
        fcn = config.get_fcn([[self.data], [self.phsp], None, None])
        with quiet():
            return float(fcn({} if params is None else params))


def real_sequence(rig, seq, res_log):
    """ConfigLoader.fit on the small real model; the same clauses, the oracle is the library's own FCN evaluated at a point"""
    cfg, vm = rig.config, rig.vm
    vm.set_all(dict(rig.init))
    vm.remove_bound()
    fails = []
    for step in seq:
        method, opts = step["method"], dict(step.get("opts", {}))
        site = "real:" + site_of(method)
        before = {n: float(v.numpy()) for n, v in vm.variables.items()}
        start = rig.nll(cfg)
        leftover = bool(vm.bnd_dic)
        try:
            with quiet(), eval_budget(int(opts.get("budget", 40))) as counter:
                r = cfg.fit([rig.data], [rig.phsp], method=method, **{k: v for k, v in opts.items() if k in ("maxiter",)})
        except Budget:
            res_log.append({"method": method, "opts": opts, "outcome": "evaluation budget exhausted (skipped)"})
            break
        except Exception as e:
            fails.append(("%s:raises:%s" % (site_of(method), type(e).__name__), "ConfigLoader.fit(method=%r) raises %s: %s" % (method, type(e).__name__, e)))
            res_log.append({"method": method, "outcome": type(e).__name__})
            break
        if leftover:
            res_log.append({"method": method, "opts": opts, "outcome": "not judged: bounds left registered by the previous fit"})
            break
        state = {n: float(v.numpy()) for n, v in vm.variables.items()}
        params = {k: float(v) for k, v in r.params.items()}
        site = site_of(method)
        feasible = all((lo is None or before[n] >= lo) and (hi is None or before[n] <= hi) for n, (lo, hi) in cfg.bound_dic.items())
        bad = [(k, v, state.get(k)) for k, v in params.items() if state.get(k) != v]
        if bad:
            fails.append(("%s:params-vs-state" % site, "real model: FitResult.params[%r] = %r but the model holds %r" % bad[0]))
        full = dict(before)
        full.update(params)
        nll_p = rig.nll(cfg, full)
        vm.set_all(state)
        if not (abs(nll_p - r.min_nll) <= 1e-9 * max(1.0, abs(nll_p))):
            fails.append(("%s:min_nll-vs-params" % site, "real model: min_nll = %r but fcn(params) = %r" % (r.min_nll, nll_p)))
        if feasible and not (r.min_nll <= start + 1e-9 * max(1.0, abs(start))):
            fails.append(("%s:min_nll-above-start" % site, "real model: min_nll = %r > NLL(start) = %r" % (r.min_nll, start)))
        free_objs = {id(vm.variables[t]) for t in vm.trainable_vars}
        for n in state:
            if id(vm.variables[n]) not in free_objs and state[n] != before[n]:
                pol = [c for c in vm.complex_vars if n in (c + "r", c + "i") and vm.complex_vars[c]]
                key = "standard_complex:fixed-polar-restandardised" if pol else "%s:fixed-changed" % site
                fails.append((key, "real model: fixed parameter %s changed from %r to %r" % (n, before[n], state[n])))
        for n, (lo, hi) in cfg.bound_dic.items():
            v = state[n]
            if (lo is not None and v < lo - ulp_slack(lo)) or (hi is not None and v > hi + ulp_slack(hi)):
                fails.append(("%s:out-of-bounds" % site, "real model: %s = %r outside (%r, %r)" % (n, v, lo, hi)))
        if METHODS.get(method) in ("quasi", "newton"):
            lost = [n for n, (lo, hi) in cfg.bound_dic.items() if (lo is not None or hi is not None) and n in vm.trainable_vars and n not in counter[1]]
            if lost:
                fails.append(("%s:declared-bound-not-applied" % site, "real model: the configuration declares %s in %r but no transform for it was registered in vm.bnd_dic during the fit (seen: %r)" % (
                    lost[0], tuple(cfg.bound_dic[lost[0]]), sorted(counter[1]))))
        if vm.bnd_dic and not leftover:
            fails.append(("%s:bnd_dic-left" % site, "real model: vm.bnd_dic still holds %r after ConfigLoader.fit returned" % list(vm.bnd_dic)))
        # save_as / save_params -> fresh ConfigLoader -> set_params(file)
        tmp = tempfile.mkdtemp(prefix="verif_c08_")
        try:
            for how in ("save_as", "save_params"):
                path = os.path.join(tmp, how + ".json")
                if how == "save_as":
                    r.save_as(path)
                else:
                    cfg.save_params(path)
                c2 = rig.fresh()
                ok = c2.set_params(path)
                p2 = {k: float(v) for k, v in c2.get_params().items()}
                ref = params if how == "save_as" else state
                badl = [(k, ref[k], p2.get(k)) for k in ref if p2.get(k) != ref[k] and k not in c2._neglect_when_set_params]
                if not ok or badl:
                    fails.append(("%s:save-load" % site, "real model: %s -> fresh ConfigLoader.set_params(file): %r" % (how, badl[:2] if ok else "set_params returned False")))
                elif not bad:
                    n2 = rig.nll(c2)
                    if not (abs(n2 - r.min_nll) <= 1e-9 * max(1.0, abs(n2))) and not any(k.endswith("min_nll-vs-params") for k, _ in fails):
                        fails.append(("%s:save-load" % site, "real model: NLL after %s / load = %r, min_nll = %r" % (how, n2, r.min_nll)))
        finally:
            shutil.rmtree(tmp, ignore_errors=True)
        res_log.append({"method": method, "opts": opts, "outcome": "ok", "min_nll": r.min_nll, "failed_clauses": [k for k, _ in fails]})
    return fails


def real_cases(ctx):
    if ctx.quick:
        seqs = [[{"method": "BFGS", "opts": {"maxiter": 6, "budget": 60}}, {"method": "Newton-CG", "opts": {"budget": 30}}],
                [{"method": ["CG", "L-BFGS-B", "trust-ncg-p", "BFGS"][ctx.seed % 4], "opts": {"maxiter": 2, "budget": 30}}]]
    else:
        B = 500
        seqs = [[{"method": "BFGS", "opts": {"budget": B}}, {"method": "BFGS", "opts": {"maxiter": 1, "budget": B}}],
                [{"method": "BFGS", "opts": {"maxiter": 5, "budget": B}}, {"method": "Newton-CG", "opts": {"budget": 150}}, {"method": "BFGS", "opts": {"maxiter": 3, "budget": B}}],
                [{"method": "CG", "opts": {"maxiter": 3, "budget": B}}], [{"method": "L-BFGS-B", "opts": {"maxiter": 3, "budget": B}}],
                [{"method": "trust-krylov-p", "opts": {"budget": 150}}], [{"method": "trust-exact", "opts": {"budget": 150}}],
                [{"method": "iminuit", "opts": {"budget": B}}], [{"method": "BFGS", "opts": {"maxiter": 0, "budget": B}}]]
    return seqs


def search_fi(ctx, res, seen):
    """the clauses on the library's own minimiser, with its real line search (no harness-made failures), model independent"""
    import c08_fi as FI
    n, keys = 0, {}
    for c in FI.gen_cases(ctx.seed, ctx.quick, ctx.suspect):
        kind, nd, sd, x0, maxiter, gtol, M, cbl, raises = c
        if raises:
            continue
        fg = FI.make_objective(kind, nd, sd)
        out, rec = FI.run_real(fg, x0, maxiter, gtol, M, cbl, ())
        n += 1
        for key, what in FI.check_clauses(fg, x0, out, maxiter, gtol, nd):
            keys[key] = keys.get(key, 0) + 1
            if key not in seen:
                seen[key] = True
                res.fail(key, what, {"kind": "fmin", "case": list(c)})
    # Cached_FG: what fun / grad / __call__ hand out belongs to the point asked for (oracle: the objective itself)
    import numpy as np
    nops = 0
    for c in FI.cache_cases(ctx.seed, ctx.quick):
        kind, nd, sd, scale, ops = c
        fg = FI.make_objective(kind, nd, sd)
        outs, tab = FI.run_cache(c)
        for (op, x), (op2, vals, nc) in zip(ops, outs):
            nops += 1
            if vals is None:
                continue
            ft, gt = fg(np.array(x, float))
            known = ~np.isnan(gt)
            if op == "F":
                okv = vals[0] == ft
            elif op == "G":
                okv = np.array_equal(np.array(vals)[known], gt[known])
            else:
                okv = vals[0] == scale * ft and np.array_equal(np.array(vals[1:])[known], (scale * gt)[known])
            if not okv:
                key = "Cached_FG:value-of-another-point"
                keys[key] = keys.get(key, 0) + 1
                if key not in seen:
                    seen[key] = True
                    res.fail(key, "Cached_FG(%s objective).%s(%r) returns %r after the calls %r; the objective at that point gives f = %r, grad = %r" % (
                        kind, {"F": "fun", "G": "grad", "C": "__call__"}[op], x, vals, [list(o) for o in ops], ft, gt.tolist()), {"kind": "cache", "case": [kind, nd, sd, scale, [list(o) for o in ops]]})
    res.coverage["search_cached_fg_ops"] = nops
    res.coverage["search_own_minimiser_runs"] = n
    res.coverage["search_own_minimiser_failed_clauses"] = keys


def probe_root(res):
    """method="root" needs PyROOT: when it is absent the call must fail before it touches the model"""
    import c08_synth as S
    vm = S.build_vm(PROBE_SPEC)
    fcn = S.SynthFCN(vm, 11)
    before = dump_vm(vm)
    kind, r = run_fit(fcn, "root", S.bounds_of(PROBE_SPEC))
    after = dump_vm(vm)
    res.coverage["search_method_root"] = "returned" if kind == "ok" else "%s (%d evaluations)" % (type(r).__name__, fcn.n_call)
    if kind == "raised" and isinstance(r, ImportError):
        if before != after or fcn.n_call:
            return [("fit_scipy:root:import-error-touches-state", "fit_scipy(method='root') without PyROOT raises %s but changed the model state first" % type(r).__name__)]
    return []


def search(ctx, res):
    ncase, nfit, nclauses = 0, 0, 0
    seen = {}
    tags = {}
    search_fi(ctx, res, seen)
    for key, what in probe_root(res):
        seen[key] = True
        res.fail(key, what, {"kind": "root"})
    for tag, spec, seq, linear in synth_cases(ctx):
        fails, log = run_sequence(spec, seq, linear)
        ncase += 1
        nfit += len(log)
        tags[tag] = tags.get(tag, 0) + 1
        for key, what in fails:
            if key not in seen:
                seen[key] = True
                res.fail(key, what, {"kind": "synth", "spec": spec, "seq": seq, "linear": linear})
    nscr = 0
    for spec, m, sd in scripted_cases(ctx):
        nscr += 1
        for key, what in run_scripted(spec, m, sd):
            if key not in seen:
                seen[key] = True
                res.fail(key, what, {"kind": "scripted", "spec": spec, "method": m, "script": sd})
    res.coverage["search_scripted_fits"] = nscr
    rig = RealRig(ctx.seed)
    real_log = []
    for seq in real_cases(ctx):
        log = []
        fails = real_sequence(rig, seq, log)
        real_log.append(log)
        nfit += len(log)
        for key, what in fails:
            if key not in seen:
                seen[key] = True
                res.fail(key, what, {"kind": "real", "seq": seq, "rig_seed": ctx.seed})
    res.coverage.update({
        "search_sequences": ncase + len(real_log), "search_fits_run": nfit, "search_case_kinds": tags,
        "search_real_model": real_log,
        "search_rule": "the clauses of the property checked after every returned fit with the real scipy / iminuit minimisers: params vs stored values (exact), min_nll vs NLL(params) (1e-9), min_nll <= NLL(start), fixed unchanged, ties equal, bounds respected (4 ulp), vm.bnd_dic empty, save_as -> fresh model -> load -> same values and NLL; synthetic FCN: every method name x default/maxiter 0,1,5 x two fits in a row x jac=False / check_grad / LargeNumberError; real 2-chain model through ConfigLoader.fit, save_as and save_params into a fresh ConfigLoader",
    })


def replay(ctx, payload):
    key = payload.get("key")
    rp = payload.get("replay") or {}
    if key is None or not rp:
        print("replay file names a broken obligation, not a failing input: %s" % json.dumps(payload.get("broken"), default=str)[:3000])
        return 1
    if rp.get("kind") == "fmin":
        import c08_fi as FI
        kind, nd, sd, x0, maxiter, gtol, M, cbl, raises = rp["case"]
        fg = FI.make_objective(kind, nd, sd)
        out, rec = FI.run_real(fg, x0, maxiter, gtol, M, cbl, tuple(raises))
        fails = FI.check_clauses(fg, x0, out, maxiter, gtol, nd)
    elif rp.get("kind") == "cache":
        class _C:
            pass
        c2, r2 = _C(), C.Result()
        c2.seed, c2.quick, c2.suspect = ctx.seed, True, False
        import c08_fi as FI
        orig = FI.cache_cases
        FI.cache_cases = lambda *a, **k: [tuple(rp["case"][:4]) + ([tuple(o) for o in rp["case"][4]],)]
        orig_gen = FI.gen_cases
        FI.gen_cases = lambda *a, **k: []
        try:
            search_fi(c2, r2, {})
        finally:
            FI.cache_cases, FI.gen_cases = orig, orig_gen
        fails = [(f.key, f.what) for f in r2.failures]
    elif rp.get("kind") == "root":
        fails = probe_root(C.Result())
    elif rp.get("kind") == "scripted":
        fails = run_scripted(rp["spec"], rp["method"], rp["script"])
    elif rp.get("kind") == "synth":
        fails, log = run_sequence(rp["spec"], rp["seq"], bool(rp.get("linear")))
    else:
        rig = RealRig(int(rp.get("rig_seed", 0)))
        fails = real_sequence(rig, rp["seq"], [])
    same = [w for k, w in fails if k == key]
    for w in same[:3]:
        print("still failing:", w)
    print("REPLAY: property %s key %s %s" % (PID, key, "still violated" if same else "not reproduced on this tree"))
    return 1 if same else 0


MANIFEST = {
    "text": "C08c (repairs of the three standard_complex / set_bound findings, variant flags observed on the tree): fixed_untouched_by_fit_{quasi,lbfgsb,newton,minuit} (after fix_C08_standard_complex_free_only.diff EVERY parameter without a free name - parts of polar complex parameters included - reads after the fit what it read before, for every minimiser answer), answer_kept_if_guarded / bounded_inside_after_standardisation (over R: in the state fit_scipy RETURNS, after remove_bound and standard_complex(bounded=bounds_dict), every bounded free parameter whose object standard_complex must skip lies inside its bounds; guarded_of_bounded_part: after fix_C08_standard_complex_bounded.diff a bounded part of a polar parameter is such an object), follower_bound_applied(_tied) (after fix_C08_set_bound_free_name.diff a bound named on ANY member of a tie group is registered under the group's free name and the member reads x2y(answer)), with kernel-decided witnesses that replay the three findings on the as-is variant and show the repaired values. Lean theorems about Fit.fit, the model of the bookkeeping of fit_scipy / fit_newton_cg / fit_minuit_v2 / except_result around an ORACLE minimiser (arbitrary evaluations, arbitrary answer), built on the C16 VarsManager state machine, for every value arithmetic, every state satisfying the C16 invariant, every bound set and every oracle: the stored value of every free parameter is the answer mapped through its bound transform, FitResult.params is what the model holds, fixed parameters are untouched, tied names stay on one object, vm.bnd_dic is empty again, values of bounded parameters lie inside their bounds (over the reals); per branch either this statement (patched variant) or its refutation on a concrete witness plus the part that still holds (unchanged tree); loading a saved result into a fresh model reproduces every stored value. Each Fix flag is observed on the real code in every run. C08b: the ONE minimiser the library ships itself (fit_scipy(method='test') -> fit_improve.minimize -> fmin_bfgs_f) is inside the Lean model (templates/FitImprove.lean.in, one text for R and Float): Cached_FG (cache keyed on x, fun/grad/__call__, both NaN branches as they are), Seq, line_search_nonmonote, the outer loop of fmin_bfgs_f as a state machine with its three exits and the OptimizeResult; line_search_wolfe2/_zoom and np.linalg.inv are oracles. Proved for every dimension, objective, start point, gtol, M, maxiter, inverse oracle, callback and every line-search answer sequence: result_point_consistent (s.fun = f(s.x), s.jac = grad f(s.x) on every exit, given the line-search contract new_fval = f(xk+alpha pk), gfkp1 = grad f(xk+alpha pk)); iteration_bound / exit_bookkeeping (at most maxiter bodies, nit = index of the last body, status in {0,1,2}, success <=> status 0 => |jac|_inf <= gtol); window_invariant and nonmonotone_bound (fk is in the window of the last <= M values, an accepted value that passed either test of the search is <= window maximum + c1*alpha*<gk,pk>, nothing more); fun_le_start_of_armijo (s.fun <= f(x0) IF every search returns a step not above the window maximum); fun_above_start_witness (kernel-checked: on the unchanged tree s.fun <= f(x0) does NOT follow: f = 2x^2, one failed line search, s.fun = 18 > 2; replayed on the real fmin_bfgs_f in every run) and fun_le_start_fixed (after fix_fit_improve_best_point.diff it holds for EVERY objective and line search); cache_invariant, call_is_function_of_point, cached_grad_is_grad_of_x (Cached_FG never hands out the value of another point); nonmonote_found / nonmonote_notfound_refreshed / nonmonote_notfound_stale_witness (the fallback search keeps the contract when it finds a step, breaks it on its 'not found' exit on the unchanged tree).",
    "note": "The model follows the tree: Vars.Cfg.stdFree / boundHead and Fit.Fix.stdBounded are probed on the real VarsManager / fit_scipy in every run (C08 and C16), so the check is quiet on the tree as it is (three KNOWN-FINDING lines) and on a tree with the three fix_C08_*.diff patches (no such line); 35 (quick) scenarios of the repairs (fixed / partly fixed polar parameters, bounded radius / phase, bounds on followers of real ties and shared radii, conflicting bounds on head and follower) run through every branch in the correspondence, the scripted-answer search and the real-minimiser search. Proved for any optimiser answer: the bookkeeping (C08); for the library's own minimiser (C08b): consistency of the returned point, iteration/exit bookkeeping, the non-monotone acceptance bound, the cache. Validated only: for scipy / iminuit min_nll = NLL(params), min_nll <= NLL(start), bounds handed to L-BFGS-B / Minuit limits, convergence; for method 'test' the contract and the Armijo inequalities of line_search_wolfe2 / scalar_search_wolfe2 / _zoom (not modelled: checked on every answer of the real line search the harness records), np.linalg.inv, IEEE vs real arithmetic (NaN propagation is executed in the Float instance, the theorems are over R), convergence. Correspondence: scripted minimiser through the real fit_scipy vs Fit.fit (70 quick / 600 thorough cases over all method names); the real fit_improve.minimize with its real line search on quadratics / Rosenbrock / cosine sums / an L1 objective / NaN-gradient objectives / harness-made line-search failures vs FitImproveF.fminBfgs fed with the recorded line-search and inverse answers (every line-search argument, Bk, all result fields, 1e-12), line_search_nonmonote and Cached_FG op sequences directly. Search: real scipy/iminuit/own minimiser on a synthetic FCN over a real VarsManager (all method names incl. 'test', maxiter 0/1/5/default, two fits in a row, jac=False, check_grad, improve=True, LargeNumberError, an NLL with kinks) and ConfigLoader.fit on a 2-chain model incl. save_as / save_params into a fresh ConfigLoader; method='root' (PyROOT absent: must fail before touching the model). Known findings of C08b: method 'test' can return NaN parameters / NaN min_nll (fix_fit_improve_best_point.diff), method 'test' with improve=True raises ValueError (fix_fit_improve_stage_own_minimiser.diff).",
    "technique": "Lean 4 proof over an oracle-parameterised state-machine model (bookkeeping; the library's own BFGS with the line search as oracle, one template for R and Float) + differential correspondence with the real fit code (scripted oracle; recorded line-search answers) + property search with the real minimisers",
}
