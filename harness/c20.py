"""C20 — samplers, histograms and adaptive bins reproduce their targets."""
import contextlib
import io
import math

import numpy as np

import common as C

PID = "C20"
DRIVER = [
    ("C20s", "TfPwaV.Gen.SamplerF", "SamplerF.handle"),
    ("C20i", "TfPwaV.Gen.InterpF", "InterpF.handle"),
    ("C20b", "TfPwaV.Model.Bins", "Bins.handle"),
    ("C20h", "TfPwaV.Model.Hist", "Hist.handle"),
    ("C20n", "TfPwaV.Gen.InterpNDF", "InterpNDF.handle"),
    ("C20p", "TfPwaV.Gen.PercentileF", "PercentileF.handle"),
    ("C20g", "TfPwaV.Gen.HistOpsF", "HistOpsF.handle"),
    ("C20t", "TfPwaV.Gen.ToyF", "ToyF.handle"),
]
LEAN_TARGETS = ["TfPwaV.Props.C20", "TfPwaV.Props.C20b", "TfPwaV.Props.C20c", "TfPwaV.Props.C20d", "TfPwaV.Props.C20e", "TfPwaV.Props.C20f", "TfPwaV.Props.C20g", "TfPwaV.Props.C20h",
                "TfPwaV.Gen.SamplerF", "TfPwaV.Gen.ToyF", "TfPwaV.Gen.InterpF", "TfPwaV.Gen.InterpNDF", "TfPwaV.Gen.PercentileF", "TfPwaV.Gen.HistOpsF"]
PROP_MODULES = ["TfPwaV.Props.C20", "TfPwaV.Props.C20b", "TfPwaV.Props.C20c", "TfPwaV.Props.C20d", "TfPwaV.Props.C20e", "TfPwaV.Props.C20f", "TfPwaV.Props.C20g", "TfPwaV.Props.C20h"]
ALL_MODULES = ["TfPwaV.Model.Bins", "TfPwaV.Model.Hist", "TfPwaV.Proofs.Sampler", "TfPwaV.Proofs.Interp", "TfPwaV.Proofs.InterpDeriv",
               "TfPwaV.Proofs.Bins", "TfPwaV.Props.C20", "TfPwaV.Props.C20b", "TfPwaV.Props.C20c", "TfPwaV.Props.C20d", "TfPwaV.Proofs.InterpND", "TfPwaV.Proofs.InterpNDInt", "TfPwaV.Proofs.ScalarR",
               "TfPwaV.Proofs.Percentile", "TfPwaV.Props.C20e", "TfPwaV.Props.C20f", "TfPwaV.Props.C20g", "TfPwaV.Proofs.Toy", "TfPwaV.Props.C20h"]
ASSUMPTIONS = [
    "sampler theorems are about the R-instance of templates/Sampler.lean.in; the Float instance of the same text is compared bit-for-bit with multi_sampling/single_sampling2/GenTest on recorded proposal batches and uniform streams (phsp, amp, importance_f and tf.random.uniform are inputs of the model)",
    "weights are non-negative (|amplitude|^2); phsp(n) returns exactly n events; the loop may not terminate (all weights zero): exact-count theorem is conditional on the loop exiting",
    "np.digitize on an increasing edge array is modelled as a linear scan (first bin whose right edge is > v, else the last bin); np.cumsum as the sequential running sum; np.histogram is a parameter (returned edges are inputs of Model/Hist); in Model/Bins the cut points are inputs, in templates/Percentile.lean.in they are COMPUTED by a model of np.percentile (numpy 2.x method 'linear': q = pct/100, virtual index (N-1) q, floor / fractional part, _lerp with its t >= 0.5 branch, indexes_above_bounds) + 1e-6; np.partition is modelled as an insertion sort",
    "populations_near_equal is about the R-instance of templates/Percentile.lean.in at the exact quantile q = k/n; the Float instance of the same text is compared bit-for-bit with np.percentile and with every cut point of single_split_bound. In double arithmetic (j/n*100)/100 can fall an ulp below k/n, so that numpy's floor index is one less than floor((N-1)k/n) with gamma ~ 1 (2.8% of all (N<=400, n<=20, k)); the returned value then differs from the exact quantile by rounding only. The theorem's tie parameter m counts values in a window [v, v + 1e-6) (real 10^-6; the search uses 1.000001e-6 + 8 ulp)",
    "acceptance-rejection counting theorems (C20f): uniforms on the grid j/K, every K; weights 0 <= w <= M; thinning bounds 0 < m <= M. That tf.random.uniform is uniform and independent is NOT proved (chi-square, thorough tier)",
    "templates/HistOps.lean.in models np.sum as a sequential sum and takes np.isinf(error) as a flag list; the Float instance is compared on dyadic data (contents multiples of 1/4, errors powers of two), where every summation order gives the same double; scale_to's two divisions are guarded by hypotheses (sum of contents != 0, mean bin width != 0)",
    "toy drivers (C20h, templates/Toy.lean.in on top of templates/Sampler.lean.in): generate_toy / generate_toy2 / generate_toy_p are modelled from the choice of the proposal generator on (importance_f / config.max_amplitude / force / max_N plumbing, importance division, gen_random_charge and the four charge paths); the Float instance is compared bit-for-bit on a stub configuration (amplitude = recorded weight column; config.max_amplitude absent / None / tf constants 8, 0.125, 16; gen= and gen_p=; include_charge) and on a small real ConfigLoader model (A -> B C D, three resonances; pass-through recording of the real tf.random.uniform streams, amplitude values and single_sampling2 bounds; returned events identified with their proposals through the exact four-momentum). Inputs of the model, not verified: proposal batches, amplitude and importance values, uniform streams; phsp(n) returns n events; amplitudes >= 0, importance values > 0",
    "generate_toy_o: request formula int(1.01 * n_total / (n_accept + 1) * (N - n_accept)) as Nat.floor (Float: toUInt64), N - n_accept as a natural-number subtraction (used only while N > n_accept), abs(min(max_N, test_N)) as min on naturals (max_N >= 0); tf.reduce_max of an empty batch is modelled as 0 (the empty batch accepts nothing either way). The model has the released and the patched (max(1, ...)) formula; the harness selects by running the zero-request history on the tree",
    "applications.gen_data: Nbg = round(wbg * Nbg) (Python round) and the Poisson fluctuation are inputs (Poisson_fluc is not exercised); the amplitude column ampsq, the index stream list_rdm, the already scaled stream uni_rdm in [0, ampsq_max) and the background index stream are inputs; tf.concat of an empty list raising is modelled as `none`; np.random.shuffle is a permutation of the events (checked on the implementation with a recorded permutation, not modelled); load_dat_file / np.savetxt / prepare_data_from_decay / cal_angle_from_momentum are outside the model (the search compares the written file, the MC row blocks and the returned momenta exactly). gen_mc: row layout only (PhaseSpaceGenerator is C10). get_phsp_p_generator / build_phsp_chain / perfer_node / get_SDP_p_generator / generate_SDP(_p) / ChainGenerator wiring are NOT modelled (cal_phsp_max -> exactly one cal_max_weight call per leaf before the first proposal is checked on the real model only)",
    "LinearInterp theorems: strictly increasing nodes, node values >= 0, int_all > 0, u in [0,1) (u = 1 is covered when the last bin has positive mass); 'node values not all zero' does NOT imply int_all > 0 because of the |k| <= epsilon flattening (a bin whose left node is 0 and whose slope is below epsilon gets mass 0)",
    "adaptive-bin partition theorems assume monotone cut chains lb <= c1 <= ... <= rb (checked on every recorded run by the model's validLoop; np.percentile(...)+1e-6 can exceed the parent bin's right edge only when half of a bin's values lie within 1e-6 of it)",
    "'the sample follows the model density' is statistical: validated by chi-square tests at false-alarm probability <= 1e-9 (thorough tier), not proved",
    "InterpND / InterpNDHist: theorems are about the R-instance of templates/InterpND.lean.in (the code after the fix commits); the Float instance is compared bit-for-bit with int_all / int_step[-1], coeffs and generate() on recorded np.random.random streams in 1..4 dimensions. np.digitize on the cumulative table is modelled as a linear scan; np.random.random is an input. Proved: points in the selected cell and in range, the selected entry is the one whose cumulative interval contains u*T, cell weight = volume x iterated integral of the multilinear interpolant over the unit cell (= mean corner value x volume), corner numbering of build_coeffs = itertools.product order, 1-d inverse-CDF identities of sqrt(u) / 1-sqrt(u), and the corner-mixture density = interpolant (product structure). Not proved: the change of variables from cell coordinates to physical coordinates (Jacobian = cell volume) and the measure-theoretic statement that uniform u gives these probabilities (validated by chi-square, thorough tier); InterpNDHist.__call__ / InterpND.__call__ evaluation (digitize + flat index) is only compared through the search oracle",
]

TWO20 = float(2 ** 20)


def q(x):
    """exact rational string of a double"""
    a, b = float(x).as_integer_ratio()
    return "%d/%d" % (a, b)


def fq(s):
    a, b = s.split("/")
    return int(a) / int(b)


def bits(xs):
    return " ".join(C.f2h(x) for x in xs)


def unbits(s):
    return [C.h2f(t) for t in s.split()] if s.strip() else []


@contextlib.contextmanager
def quiet():
    with contextlib.redirect_stdout(io.StringIO()):
        yield


# =====================================================================================================
# 1. acceptance-rejection control: multi_sampling / single_sampling2 / GenTest
# =====================================================================================================

def multi_scenarios(seed, n):
    """Deterministic list of scenario dicts (JSON-serialisable)."""
    rng = np.random.Generator(np.random.Philox(seed))
    out = []
    kinds = ["flat", "grow", "spike", "zeros", "tie", "given_low", "given_high", "imp"]
    for i in range(n):
        kind = kinds[i % len(kinds)]
        N = int(rng.choice([1, 2, 3, 7, 20, 50, 133, 400]))
        maxN = int(rng.choice([1, 2, 5, 16, 40, 100, 1000]))
        if N > 60 and maxN < 16:
            maxN = 40
        scn = {"kind": kind, "N": N, "maxN": maxN, "force": bool(i % 3 != 1), "m0": None, "imp": kind == "imp",
               "seed": int(rng.integers(0, 2 ** 31))}
        if kind == "tie":
            scn["m0"] = 8.0
        if kind == "given_low":
            scn["m0"] = 0.125
        if kind == "given_high":
            scn["m0"] = 16.0
        out.append(scn)
    return out


def _weights(scn, rng, k, n):
    kind = scn["kind"]
    if kind in ("flat", "given_high", "imp"):
        return rng.integers(1, 33, size=n) / 8.0
    if kind in ("grow", "given_low"):
        return rng.integers(0, 65, size=n) / 64.0 * float(2 ** min(k // 2, 6)) * (1 + (k % 2) * 0.25)
    if kind == "spike":
        w = rng.integers(0, 17, size=n) / 16.0
        sp = rng.random(n) < 0.03
        return np.where(sp, w * float(3 + min(k, 8)), w)
    if kind == "zeros":
        w = rng.integers(0, 9, size=n) / 8.0
        return np.where(rng.random(n) < 0.6, 0.0, w)
    if kind == "tie":
        return rng.integers(0, 65, size=n) / 8.0  # <= 8 = given bound
    raise ValueError(kind)


def run_multi(scn, max_iter=400):
    """Run the real multi_sampling on recorded streams. Returns the record (all plain Python)."""
    import tensorflow as tf
    from unittest import mock
    from tf_pwa.generator import generator as G

    rng = np.random.Generator(np.random.Philox(scn["seed"]))
    rec = {"batches": [], "bounds": [], "given": [], "error": None}

    class Stop(Exception):
        pass

    def phsp(n):
        k = len(rec["batches"])
        if k >= max_iter:
            raise Stop()
        n = int(n)
        w = np.asarray(_weights(scn, rng, k, n), dtype=np.float64)
        rec["batches"].append({"n": n, "w0": w, "imp": None, "rnd": None, "thin": np.zeros(0)})
        return {"b": tf.constant(np.full(n, k, dtype=np.int64)), "i": tf.constant(np.arange(n, dtype=np.int64)),
                "w": tf.constant(w, dtype=tf.float64)}

    def amp(data):
        return data["w"]

    def imp(data):
        d = 0.5 + 0.25 * tf.cast(data["i"] % 3, tf.float64)
        rec["batches"][-1]["imp"] = d.numpy()
        return d

    def fake_uniform(shape, *a, dtype=tf.float32, **kw):
        shp = tuple(int(s) for s in tf.TensorShape(shape).as_list())
        n = int(np.prod(shp)) if shp else 1
        if scn["kind"] == "tie":
            u = rng.integers(0, 64, size=n) / 64.0
        else:
            u = rng.integers(0, 2 ** 20, size=n) / TWO20
        cur = rec["batches"][-1]
        if cur["rnd"] is None:
            cur["rnd"] = u
        else:
            cur["thin"] = u
        return tf.constant(u.reshape(shp), dtype=dtype)

    orig = G.single_sampling2

    def wrap(phsp_, amp_, n_, max_weight=None, importance_f=None):
        rec["given"].append(None if max_weight is None else float(max_weight))
        d, m = orig(phsp_, amp_, n_, max_weight, importance_f)
        rec["bounds"].append(float(m))
        return d, m

    m0 = None if scn["m0"] is None else tf.constant(scn["m0"], dtype=tf.float64)
    via = scn.get("via", "multi")
    try:
        with mock.patch.object(tf.random, "uniform", fake_uniform), mock.patch.object(G, "single_sampling2", wrap), quiet():
            if via == "multi":
                ret, status = G.multi_sampling(phsp, amp, scn["N"], max_N=scn["maxN"], force=scn["force"], max_weight=m0,
                                               importance_f=imp if scn["imp"] else None, display=False)
            else:
                # the wrappers ConfigLoader.generate_toy / generate_toy_p (config_loader/sample.py) around multi_sampling,
                # on a stub configuration whose amplitude / phase-space generator are the recorded streams
                import types
                import tf_pwa.config_loader.sample as S
                seen = {}
                origm = S.multi_sampling

                def wrapm(*a, **k):
                    seen["max_weight"] = k.get("max_weight", "absent")
                    r, st = origm(*a, **k)
                    seen["status"] = st
                    return r, st

                cfg = types.SimpleNamespace(get_decay=lambda *a, **k: None, get_amplitude=lambda *a, **k: amp, eval_amplitude=amp)
                with mock.patch.object(S, "multi_sampling", wrapm):
                    if via == "toy":
                        ret = S.generate_toy(cfg, scn["N"], force=scn["force"], gen=phsp, importance_f=imp if scn["imp"] else None, max_N=scn["maxN"])
                    else:
                        ret = S.generate_toy_p(cfg, scn["N"], force=scn["force"], gen_p=phsp, importance_f=imp if scn["imp"] else None, max_N=scn["maxN"])
                status = seen["status"]
                rec["wrapper_max_weight"] = "None" if seen["max_weight"] is None else str(seen["max_weight"])
    except Stop:
        rec["error"] = "no-exit"
        return rec
    a, mw = status
    rec["ret"] = list(zip(ret["b"].numpy().tolist(), ret["i"].numpy().tolist()))
    rec["ret_w"] = [float(x) for x in ret["w"].numpy()]
    rec["N_gen"], rec["N_total"], rec["eff"] = int(a.N_gen), int(a.N_total), float(a.eff)
    rec["maxw"] = None if mw is None else float(mw)
    for b in rec["batches"]:
        b["w"] = b["w0"] if b["imp"] is None else b["w0"] / b["imp"]
    return rec


def multi_line(scn, rec):
    toks = ["C20s", "multi", str(scn["N"]), str(scn["maxN"]), "1" if scn["force"] else "0",
            "N" if scn["m0"] is None else C.f2h(scn["m0"]), str(len(rec["batches"]))]
    for b in rec["batches"]:
        toks.append(C.f2h(float(b["n"])))
        toks.append(bits(b["w"]))
        toks.append(bits(b["rnd"]))
        toks.append(C.f2h(float(len(b["thin"]))))
        if len(b["thin"]):
            toks.append(bits(b["thin"]))
    return " ".join(t for t in toks if t != "")


def evs(s):
    return [tuple(int(x) for x in t.split(":")) for t in s.split(",")] if s else []


def wrapper_scenarios(seed, n):
    """generate_toy / generate_toy_p scenarios: the wrappers always start without a bound (config.max_amplitude is None)"""
    out = []
    for i, scn in enumerate(s for s in multi_scenarios(seed, 3 * n) if s["m0"] is None):
        scn["via"] = "toy" if i % 2 == 0 else "toy_p"
        out.append(scn)
    return out[:n]


def correspond_multi(ctx, res):
    scns = multi_scenarios(ctx.seed * 7919 + 20, 48 if ctx.quick else 1200)
    scns += wrapper_scenarios(ctx.seed * 7919 + 22, 20 if ctx.quick else 300)
    lines, recs, used = ["C20s consts"], [], []
    for scn in scns:
        rec = run_multi(scn)
        if rec["error"]:
            continue
        used.append(scn)
        recs.append(rec)
        lines.append(multi_line(scn, rec))
    out = ctx.model.query(lines)
    if out[0] != bits([1.01, 1.1, 1.05, 0.9]):
        res.broke("correspondence Sampler constants", out[0])
    nbad, first, nthin, ngrow = 0, None, 0, 0
    for scn, rec, line in zip(used, recs, out[1:]):
        f = line.split("|")
        if len(f) != 9:
            res.broke("model driver bad answer (multi)", line[:200])
            return
        nthin += sum(1 for b in rec["batches"] if len(b["thin"]))
        if scn.get("via", "multi") != "multi":
            res.coverage["generate_toy_wrapper_runs"] = res.coverage.get("generate_toy_wrapper_runs", 0) + 1
            if rec.get("wrapper_max_weight") != "None":
                res.broke("correspondence generate_toy wrappers: multi_sampling is started with a bound", {"scenario": scn, "max_weight": rec.get("wrapper_max_weight")})
        model = {
            "reqs": [int(x) for x in f[0].split()], "bounds": unbits(f[1]), "maxw": None if f[3] == "N" else C.h2f(f[3]),
            "N_gen": int(f[4]), "N_total": int(f[5]), "eff": C.h2f(f[6]), "done": f[7] == "1",
            "ret": evs(f[8]),
        }
        impl = {"reqs": [b["n"] for b in rec["batches"]], "bounds": rec["bounds"], "maxw": rec["maxw"], "N_gen": rec["N_gen"],
                "N_total": rec["N_total"], "eff": rec["eff"], "done": True, "ret": rec["ret"]}
        if model != impl:
            nbad += 1
            if first is None:
                diff = [k for k in impl if impl[k] != model[k]]
                first = {"scenario": scn, "fields": diff, "impl": {k: str(impl[k])[:300] for k in diff}, "model": {k: str(model[k])[:300] for k in diff}}
    res.coverage["multi_sampling_runs"] = len(used)
    res.coverage["multi_sampling_runs_with_thinning"] = nthin
    res.coverage["multi_sampling_batches"] = sum(len(r["batches"]) for r in recs)
    res.samples.append({"op": lines[1][:160] + " ...", "model": out[1][:200]})
    if nbad:
        res.broke("correspondence SamplerF vs multi_sampling/single_sampling2/GenTest", {"n": nbad, "first": first})
    return len(used), nbad


def check_multi(scn):
    """Property statement on the implementation, independent of the model. Returns list of (key, what)."""
    rec = run_multi(scn)
    bad = []
    if rec["error"]:
        return bad
    N = scn["N"]
    ret = rec["ret"]
    if scn["force"] and len(ret) != N:
        bad.append(("multi_sampling:count", "multi_sampling(N=%d, max_N=%d, force=True) returned %d events" % (N, scn["maxN"], len(ret))))
    if not scn["force"] and len(ret) < N:
        bad.append(("multi_sampling:count", "multi_sampling(N=%d, force=False) returned only %d events" % (N, len(ret))))
    if not scn["force"] and rec["N_gen"] != len(ret):
        bad.append(("multi_sampling:N_gen", "GenTest.N_gen=%d but %d events retained" % (rec["N_gen"], len(ret))))
    if len(set(ret)) != len(ret):
        bad.append(("multi_sampling:duplicate", "an event was returned twice"))
    if any(b["n"] < 1 for b in rec["batches"]):
        bad.append(("GenTest:request", "a request of size < 1 was issued: %s" % [b["n"] for b in rec["batches"]][:20]))
    if sum(b["n"] for b in rec["batches"]) != rec["N_total"]:
        bad.append(("GenTest:N_total", "N_total=%d but %d events requested" % (rec["N_total"], sum(b["n"] for b in rec["batches"]))))
    for (k, i), w in zip(ret, rec["ret_w"]):
        b = rec["batches"][k]
        wi = float(b["w"][i])
        bound = rec["bounds"][k]
        if not (wi <= bound):
            bad.append(("multi_sampling:weight-above-bound", "event %d of batch %d has weight %r above the bound %r it was accepted with" % (i, k, wi, bound)))
            break
        if not (b["rnd"][i] * bound < wi):
            bad.append(("multi_sampling:accept-rule", "event %d of batch %d was returned although rnd*bound=%r >= w=%r" % (i, k, b["rnd"][i] * bound, wi)))
            break
    # every event that passed rnd*M < w and (if a thinning happened later) every thinning cut must be among the retained
    # ones when nothing is cut by force: recompute the retained set from the recorded streams with the textbook rule
    if not scn["force"]:
        want = textbook_multi(scn, rec)
        if want is None:
            bad.append(("multi_sampling:thinning-trigger", "earlier events were (not) thinned although the bound did (not) grow"))
        elif want != ret:
            bad.append(("multi_sampling:retained-set", "retained events differ from acceptance-rejection with thinning on the same streams: got %d, expected %d" % (len(ret), len(want))))
    if scn["m0"] is None and rec["maxw"] is not None and rec["ret_w"]:
        mx = max(float(rec["batches"][k]["w"][i]) for (k, i) in ret)
        if not (mx <= rec["maxw"]):
            bad.append(("multi_sampling:final-bound", "final max_weight %r is below a returned weight %r" % (rec["maxw"], mx)))
    return bad


def textbook_multi(scn, rec):
    """Acceptance-rejection with a running bound, written from the description (not from the code):
    accept an event iff u*M_batch < w; when a batch (not the first) needs a bound M_new above the bound M_old that was
    handed to it, every earlier event is kept iff u' * M_new / M_old < 1; no other event is ever dropped."""
    kept = []
    for k, b in enumerate(rec["batches"]):
        M = rec["bounds"][k]
        old = rec["given"][k]
        grow = k > 0 and old is not None and M > old
        if grow != (len(b["thin"]) > 0 or (grow and len(kept) == 0)):
            return None
        if grow:
            if len(b["thin"]) != len(kept):
                return None
            kept = [e for e, u in zip(kept, b["thin"]) if u * M / old < 1.0]
        kept += [(k, i) for i in range(b["n"]) if b["rnd"][i] * M < b["w"][i]]
    return kept


# =====================================================================================================
# 2. LinearInterp / BWGenerator / Hist1D arithmetic (template Interp)
# =====================================================================================================

def li_cases(seed, n):
    rng = np.random.Generator(np.random.Philox(seed))
    out = []
    for i in range(n):
        m = int(rng.choice([2, 3, 4, 6, 9, 15]))
        kind = i % 6
        dx = rng.integers(1, 17, size=m) / 8.0
        x = np.cumsum(dx) + float(rng.integers(-20, 20)) / 4.0
        if kind == 0:
            y = rng.integers(0, 9, size=m) / 4.0
        elif kind == 1:  # plateaus and zeros
            y = np.repeat(rng.integers(0, 3, size=(m + 1) // 2) * 1.0, 2)[:m]
        elif kind == 2:  # real-valued
            x = np.cumsum(rng.uniform(0.05, 2.0, size=m)) + rng.normal()
            y = np.abs(rng.normal(size=m)) * float(rng.choice([1e-3, 1.0, 1e3]))
        elif kind == 3:  # slopes around epsilon
            y = 1.0 + np.cumsum(rng.choice([0.0, 4e-11, -4e-11, 3e-10, 1e-9], size=m))
        elif kind == 4:  # zero nodes at the ends
            y = rng.integers(0, 5, size=m) * 1.0
            y[0] = 0.0
            y[-1] = 0.0
        else:
            y = rng.uniform(0, 3, size=m)
            y[rng.integers(0, m)] = 0.0
        if not np.any(y > 0):
            y[m // 2] = 1.0
        eps = 1e-10 if i % 7 else 0.5
        out.append({"x": [float(v) for v in x], "y": [float(v) for v in y], "eps": eps, "seed": int(rng.integers(0, 2 ** 31))})
    return out


def li_points(case, f):
    rng = np.random.Generator(np.random.Philox(case["seed"]))
    x = np.asarray(case["x"])
    us = np.concatenate([[0.0, 0.5, 1 - 2.0 ** -53], rng.integers(0, 2 ** 20, size=12) / TWO20, rng.random(12)])
    if f.int_all > 0:
        # values that hit bin boundaries of the cumulative table as closely as a double can
        us = np.concatenate([us, np.clip(f.int_step[:-1] / f.int_all, 0, 1 - 2.0 ** -53)])
    ts = np.concatenate([x, (x[1:] + x[:-1]) / 2, rng.uniform(x[0] - 1, x[-1] + 1, size=8)])
    return us, ts


def correspond_interp(ctx, res):
    from tf_pwa.generator.linear_interpolation import LinearInterp
    from tf_pwa.generator.breit_wigner import BWGenerator
    from tf_pwa.histogram import Hist1D
    cases = li_cases(ctx.seed * 104729 + 3, 60 if ctx.quick else 3000)
    lines, impl, meta = [], [], []
    for c in cases:
        x, y = np.asarray(c["x"]), np.asarray(c["y"])
        with np.errstate(all="ignore"):
            f = LinearInterp(x, y, epsilon=c["eps"])
            us, ts = li_points(c, f)
            head = "%s %d %s %s" % (C.f2h(c["eps"]), len(x), bits(x), bits(y))
            int_x = np.diff(np.concatenate([[0.0], f.int_step]))
            lines.append("C20i li coef " + head)
            impl.append((list(f.k) + list(f.b), float(f.int_all)))
            meta.append(("coef", c))
            if not (f.int_all > 0):
                continue
            lines.append("C20i li solve %s %s" % (head, bits(us)))
            impl.append(list(f.solve(us)))
            meta.append(("solve", c))
            lines.append("C20i li int %s %s" % (head, bits(ts)))
            impl.append(list(f.integral(ts)))
            meta.append(("int", c))
            lines.append("C20i li call %s %s" % (head, bits(ts)))
            impl.append(list(f(ts)))
            meta.append(("call", c))
    # BWGenerator
    rng = np.random.Generator(np.random.Philox(ctx.seed + 2020))
    nbw = 40 if ctx.quick else 2000
    for i in range(nbw):
        m0 = float(rng.uniform(0.5, 5))
        g0 = float(rng.choice([0.001, 0.02, 0.1, 0.5, 2.0]))
        lo = m0 + float(rng.uniform(-3, 1)) * g0 * float(rng.choice([1, 10]))
        hi = lo + float(rng.uniform(0.1, 6)) * g0
        g = BWGenerator(m0, g0, lo, hi)
        us = np.concatenate([[0.0, 1.0, 0.5], rng.random(10)])
        ts = np.concatenate([[lo, hi, m0], rng.uniform(lo, hi, size=8)])
        head = "%s %s %s %s" % (C.f2h(m0), C.f2h(g0), C.f2h(lo), C.f2h(hi))
        lines += ["C20i bw all " + head, "C20i bw solve %s %s" % (head, bits(us)), "C20i bw int %s %s" % (head, bits(ts)), "C20i bw call %s %s" % (head, bits(ts))]
        impl += [[float(g.int_all), float(g.kxmin)], list(g.solve(us)), list(g.integral(ts)), list(g(ts))]
        meta += [("bw-all", (m0, g0, lo, hi)), ("bw-solve", (m0, g0, lo, hi)), ("bw-int", (m0, g0, lo, hi)), ("bw-call", (m0, g0, lo, hi))]
    # Hist1D per-bin arithmetic
    nh = 60 if ctx.quick else 600
    hc = rng.integers(-20, 50, size=(nh, 2)) * 0.25
    he = np.abs(rng.normal(size=(nh, 2))) * 3
    ha = rng.choice([2.0, 0.5, 3, 1.7, 0.0, 1], size=nh)
    b3 = np.array([0.0, 1.0, 2.0, 3.0])
    for i in range(0, nh, 3):
        h1 = Hist1D(b3, hc[i:i + 3, 0].copy(), he[i:i + 3, 0].copy())
        h2 = Hist1D(b3, hc[i:i + 3, 1].copy(), he[i:i + 3, 1].copy())
        a = float(ha[i])
        a = int(a) if a == int(a) and i % 2 else a
        for op, r in (("add", h1 + h2), ("sub", h1 - h2), ("mul", h1 * a), ("mul", a * h1)):
            for j in range(3):
                if op == "mul":
                    lines.append("C20i hb mul %s" % bits([h1.count[j], h1.error[j], a]))
                else:
                    lines.append("C20i hb %s %s" % (op, bits([h1.count[j], h1.error[j], h2.count[j], h2.error[j]])))
                impl.append([float(r.count[j]), float(r.error[j])])
                meta.append(("hb-" + op, i))
    out = ctx.model.query(lines)
    nbad, first, worst_bw, nan_pts = 0, None, 0.0, 0
    for ln, iv, (op, info), o in zip(lines, impl, meta, out):
        if o == "bad-op":
            res.broke("model driver bad-op (interp)", ln[:200])
            return
        mv = unbits(o)
        ok = True
        if op == "coef":
            kb, tot = iv
            n = len(kb) // 2
            ok = same_bits(mv[:2 * n], kb) and same_bits([mv[-1]], [tot])
        elif op.startswith("bw"):
            # libm vs numpy atan/tan: a few ulp; solve is ill-conditioned near +-pi/2 (tan' = 1 + tan^2)
            m0, g0, lo, hi = info
            for a, b in zip(mv, iv):
                scale = max(abs(b), abs(a), 1e-300)
                if op == "bw-solve":
                    scale = max(scale, ((b - m0) ** 2 / (g0 / 2) + g0 / 2) * 10)
                err = abs(a - b) / scale
                worst_bw = max(worst_bw, err)
                if not err < 1e-12:
                    ok = False
        else:
            ok = same_bits(mv, iv)
        if not ok:
            nbad += 1
            if first is None:
                first = {"op": op, "line": ln[:300], "impl": [repr(float(v)) for v in (iv if op != "coef" else iv[0] + [iv[1]])][:12], "model": [repr(v) for v in mv][:12], "info": info if not isinstance(info, dict) else {k: info[k] for k in ("x", "y", "eps")}}
    res.coverage["interp_lines"] = len(lines)
    res.coverage["interp_bw_worst_rel_err"] = float(worst_bw)
    res.samples.append({"op": lines[1][:200], "model": out[1][:200]})
    if nbad:
        res.broke("correspondence InterpF vs LinearInterp/BWGenerator/Hist1D arithmetic", {"n": nbad, "first": first})
    return len(lines), nbad


def same_bits(a, b):
    if len(a) != len(b):
        return False
    for u, v in zip(a, b):
        u, v = float(u), float(v)
        if u != v and not (math.isnan(u) and math.isnan(v)):
            return False
    return True


# =====================================================================================================
# 3. AdaptiveBound
# =====================================================================================================

BIN_SPECS = [3, 5, [[2]], [[4]], [[2, 2]], [[3, 2]], [[2], [2]], [[2, 2], [2, 2]], [[2, 3], [2]], [[1, 2], [3, 1]], [[2, 2, 2]]]


def bins_cases(seed, n):
    rng = np.random.Generator(np.random.Philox(seed))
    out = []
    for i in range(n):
        spec = BIN_SPECS[i % len(BIN_SPECS)]
        D = 1 if isinstance(spec, int) else max(len(s) for s in spec) + int(rng.integers(0, 2))
        npts = int(rng.choice([40, 97, 256]))
        kind = (i // len(BIN_SPECS)) % 4
        out.append({"spec": spec, "D": D, "n": npts, "kind": kind, "seed": int(rng.integers(0, 2 ** 31))})
    return out


def bins_data(c):
    rng = np.random.Generator(np.random.Philox(c["seed"]))
    D, n = c["D"], c["n"]
    if c["kind"] == 0:
        d = rng.normal(size=(D, n))
    elif c["kind"] == 1:
        d = rng.uniform(0, 1, size=(D, n)) ** 3
    elif c["kind"] == 2:  # ties: integer-valued data
        d = rng.integers(0, 12, size=(D, n)) * 1.0
    else:  # dyadic grid, some ties
        d = rng.integers(0, 2 ** 10, size=(D, n)) / 64.0
    return d


def run_bins(c):
    """Real AdaptiveBound with recorded single_split_bound calls."""
    from unittest import mock
    from tf_pwa.adaptive_bins import AdaptiveBound
    data = bins_data(c)
    spec = c["spec"]
    calls = []
    orig = AdaptiveBound.single_split_bound

    def wrap(data, n=2, base_bound=None):
        r = orig(data, n, base_bound)
        calls.append([float(b[1]) for b in r[:-1]])
        return r

    with mock.patch.object(AdaptiveBound, "single_split_bound", staticmethod(wrap)):
        adp = AdaptiveBound(data[0] if isinstance(spec, int) else data, spec)
        try:
            bounds = adp.get_bounds()
        except (IndexError, ValueError) as e:
            # heavily tied data can leave a sub-bin empty; np.percentile of an empty array raises (numpy >= 2).
            # Not a wrong result: counted and skipped for tied data, reported for continuous data.
            if c["kind"] in (2, 3):
                return None, data, None, calls
            raise
    return adp, data, bounds, calls


def nest_calls(spec, calls):
    bins = [[spec]] if isinstance(spec, int) else spec
    it = iter(calls)
    rounds, nboxes = [], 1
    for sizes in bins:
        per_box = []
        for _ in range(nboxes):
            per_idx, nsub = [], 1
            for size in sizes:
                per_idx.append([next(it) for _ in range(nsub)])
                nsub *= size
            per_box.append(per_idx)
        rounds.append(per_box)
        nboxes *= int(np.prod(sizes))
    rest = list(it)
    if rest:
        raise ValueError("unconsumed single_split_bound calls: %d" % len(rest))
    return rounds


def ser(x):
    if isinstance(x, list):
        out = [str(len(x))]
        for i in x:
            out += ser(i)
        return out
    return [q(x)]


def bins_points(c, data, bounds):
    rng = np.random.Generator(np.random.Philox(c["seed"] + 1))
    D = data.shape[0]
    Db = bounds[0][0].shape[0]
    extra = rng.normal(size=(D, 30)) * 2
    # points exactly on edges of the boxes
    edge = []
    for lb, rb in bounds[:6]:
        p = rng.normal(size=D)
        p[:Db] = lb
        edge.append(p.copy())
        p[:Db] = rb
        edge.append(p.copy())
        p[:Db] = (lb + rb) / 2
        p[0] = rb[0]
        edge.append(p.copy())
    return np.concatenate([data, extra, np.array(edge).T], axis=1)


def correspond_bins(ctx, res):
    cases = bins_cases(ctx.seed * 31 + 5, 33 if ctx.quick else 880)
    lines, impl = [], []
    nempty = 0
    kept = []
    for c in cases:
        adp, data, bounds, calls = run_bins(c)
        if adp is None:
            nempty += 1
            continue
        kept.append(c)
        Db = bounds[0][0].shape[0]
        base = adp._base_bound
        rounds = nest_calls(c["spec"], calls)
        pts = bins_points(c, data, bounds)
        mask = adp.get_bool_mask(pts)
        toks = ["C20b", "split", str(Db)] + [q(v) for v in base[0]] + [q(v) for v in base[1]] + ser(rounds)
        toks += [str(pts.shape[1])] + [q(v) for p in pts.T for v in p[:Db]]
        lines.append(" ".join(toks))
        boxes = ";".join(",".join("%s:%s" % (q(l), q(r)) for l, r in zip(lb, rb)) for lb, rb in bounds)
        rows = ",".join("".join("1" if m[j] else "0" for m in mask) for j in range(pts.shape[1]))
        impl.append((boxes, rows))
    out = ctx.model.query(lines)
    nbad, first, ninvalid = 0, None, 0
    res.coverage["adaptive_bins_skipped_empty_subbin_on_tied_data"] = nempty
    for c, o, (boxes, rows) in zip(kept, out, impl):
        f = o.split("|")
        if len(f) != 3:
            res.broke("model driver bad answer (bins)", o[:200])
            return
        if f[0] != "1":
            ninvalid += 1
        if f[1] != boxes or f[2] != rows:
            nbad += 1
            if first is None:
                first = {"case": c, "boxes_equal": f[1] == boxes, "impl_boxes": boxes[:300], "model_boxes": f[1][:300]}
    res.coverage["adaptive_bins_cases"] = len(cases)
    res.coverage["adaptive_bins_nonmonotone_cut_chains"] = ninvalid
    if nbad:
        res.broke("correspondence Bins vs AdaptiveBound", {"n": nbad, "first": first})
    return len(cases), nbad


# =====================================================================================================
# 4. Hist1D.histogram
# =====================================================================================================

def hist_cases(seed, n):
    rng = np.random.Generator(np.random.Philox(seed))
    out = []
    for i in range(n):
        out.append({"kind": i % 5, "n": int(rng.choice([0, 1, 30, 200])), "bins": int(rng.choice([1, 2, 5, 10, 30])),
                    "weights": i % 4 != 3, "mask_error": [float("inf"), 0.0, 1.0][i % 3], "seed": int(rng.integers(0, 2 ** 31))})
    return out


def hist_inputs(c):
    rng = np.random.Generator(np.random.Philox(c["seed"]))
    n = c["n"]
    kind = c["kind"]
    m = rng.normal(size=n) if kind % 2 == 0 else rng.integers(-8, 9, size=n) / 4.0
    w = rng.integers(-3, 8, size=n) * 1.0 if c["weights"] else None
    kw = {}
    if kind in (0, 1):
        kw = {"bins": c["bins"], "range": (-2.0, 2.0)}
    elif kind == 2:
        kw = {"bins": c["bins"]}
        if n == 0:
            kw["range"] = (0.0, 1.0)
    elif kind == 3:
        kw = {"bins": np.array([-2.0, -1.0, -0.25, 0.0, 0.5, 2.0])}
    else:
        kw = {"bins": c["bins"], "range": (-1.0, 1.0)}
    return m, w, kw


def correspond_hist(ctx, res):
    from tf_pwa.histogram import Hist1D
    cases = hist_cases(ctx.seed * 17 + 9, 60 if ctx.quick else 1800)
    lines, impl = [], []
    for c in cases:
        m, w, kw = hist_inputs(c)
        h = Hist1D.histogram(m, weights=w, mask_error=c["mask_error"], **kw)
        ww = np.ones_like(m) if w is None else w
        toks = ["C20h", "hist", str(len(h.binning))] + [q(v) for v in h.binning] + [str(2 * len(m))]
        for v, x in zip(m, ww):
            toks += [q(v), q(x)]
        lines.append(" ".join(toks))
        impl.append(h)
    out = ctx.model.query(lines)
    nbad, first = 0, None
    for c, o, h in zip(cases, out, impl):
        f = o.split("|")
        if len(f) != 3:
            res.broke("model driver bad answer (hist)", o[:200])
            return
        cnt = [fq(t) for t in f[0].split()]
        s2 = [fq(t) for t in f[1].split()]
        ent = [int(t) for t in f[2].split()]
        err = [math.sqrt(c["mask_error"] if e == 0 else v) for v, e in zip(s2, ent)]
        if not (same_bits(cnt, h.count) and same_bits(err, h.error)):
            nbad += 1
            if first is None:
                first = {"case": c, "impl_count": [float(v) for v in h.count][:12], "model_count": cnt[:12], "impl_error": [float(v) for v in h.error][:12], "model_error": err[:12]}
    res.coverage["histogram_cases"] = len(cases)
    if nbad:
        res.broke("correspondence Hist vs Hist1D.histogram", {"n": nbad, "first": first})
    return len(cases), nbad


# =====================================================================================================
# 5. InterpND / InterpNDHist (template InterpND)
# =====================================================================================================

ND_SHAPES = [[3], [5], [2, 2], [3, 4], [2, 3, 2], [4, 2, 3], [2, 2, 2, 2]]


def nd_case(p):
    rng = np.random.Generator(np.random.Philox(p["seed"]))
    shape = p["shape"]
    xs = [np.cumsum(rng.integers(1, 9, size=n) / 4.0) + float(rng.integers(-4, 4)) for n in shape]
    if p.get("real"):
        xs = [np.cumsum(rng.uniform(0.1, 2.0, size=n)) + rng.normal() for n in shape]
        z = np.abs(rng.normal(size=shape))
    else:
        z = rng.integers(0, 6, size=shape) * 1.0
    if p.get("zero_plane"):
        z[0] = 0.0
    if not np.any(z > 0):
        z[(0,) * len(shape)] = 1.0
    return xs, z, rng


def correspond_interp_nd(ctx, res):
    from unittest import mock
    from tf_pwa.generator.interp_nd import InterpND, InterpNDHist
    rng0 = np.random.Generator(np.random.Philox(ctx.seed * 13 + 1))
    ncase = 28 if ctx.quick else 420
    lines, impl, ops = [], [], []
    for i in range(ncase):
        p = {"shape": ND_SHAPES[i % len(ND_SHAPES)], "real": bool(i % 3 == 2), "zero_plane": bool(i % 5 == 1), "seed": int(rng0.integers(0, 2 ** 31))}
        xs, z, rng = nd_case(p)
        nd = len(xs)
        N = 40
        head = "%d %s %s %s" % (nd, " ".join("%s %s" % (C.f2h(float(len(x))), bits(x)) for x in xs), C.f2h(float(z.size)), bits(z.flatten()))
        for cls, top, gop in ((InterpND, "table", "gen"), (InterpNDHist, "htable", "hgen")):
            f = cls(xs, z)
            stream = []

            def fake_random(size=None):
                # include the corners of the unit cube / the ends of the table
                r = rng.integers(0, 2 ** 20, size=size) / TWO20
                r.flat[0] = 0.0
                r.flat[-1] = 1 - 2.0 ** -53
                stream.append(r)
                return r

            with mock.patch.object(np.random, "random", fake_random):
                pts = f.generate(N)
            u_in, u_bin = stream[0], stream[1]
            tab = np.asarray(f.int_all).flatten() if cls is InterpND else np.diff(np.concatenate([[0.0], f.int_step]))
            lines.append("C20n %s %s %s" % (top, head, C.f2h(0.0)))
            impl.append(list(tab) + [float(f.int_step[-1])] if cls is InterpND else None)
            ops.append((top, p))
            if cls is InterpNDHist:
                impl[-1] = [float(f.int_step[-1])]
            lines.append("C20n %s %s %s %s" % (gop, head, C.f2h(float(N)), " ".join(bits(list(u_in[j]) + [u_bin[j]]) for j in range(N))))
            impl.append(list(pts.flatten()))
            ops.append((gop, p))
        f = InterpND(xs, z)
        lines.append("C20n coeffs %s %s" % (head, C.f2h(0.0)))
        impl.append(" ".join("".join("0" if tuple(r) == (1.0, -1.0) else "1" if tuple(r) == (0.0, 1.0) else "2" for r in f.coeffs[k]) for k in range(2 ** nd)))
        ops.append(("coeffs", p))
    out = ctx.model.query(lines)
    nbad, first = 0, None
    for (op, p), iv, o, ln in zip(ops, impl, out, lines):
        if o == "bad-op":
            res.broke("model driver bad-op (interp_nd)", ln[:200])
            return
        if op == "coeffs":
            ok = o == iv
            mv = o
        elif op == "htable":
            mv = unbits(o)
            ok = same_bits(mv[-1:], iv)   # cumulative end point (entries are compared through the generated points)
        else:
            mv = unbits(o)
            ok = same_bits(mv, iv)
        if not ok:
            nbad += 1
            if first is None:
                first = {"op": op, "case": p, "impl": str(iv)[:300], "model": str(mv)[:300]}
    res.coverage["interp_nd_lines"] = len(lines)
    if nbad:
        res.broke("correspondence InterpNDF vs InterpND/InterpNDHist", {"n": nbad, "first": first})
    return len(lines), nbad


# =====================================================================================================
# 6. np.percentile / single_split_bound cut points (template Percentile), Hist1D whole-histogram helpers (HistOps)
# =====================================================================================================

def record_splits(c):
    """Run the real AdaptiveBound and record every single_split_bound call: (data, n, base_bound, returned bounds)."""
    from unittest import mock
    from tf_pwa.adaptive_bins import AdaptiveBound
    data = bins_data(c)
    spec = c["spec"]
    calls = []
    orig = AdaptiveBound.single_split_bound

    def wrap(d, n=2, base_bound=None):
        r = orig(d, n, base_bound)
        calls.append({"data": [float(v) for v in np.asarray(d)], "n": int(n), "bounds": [(float(a), float(b)) for a, b in r]})
        return r

    with mock.patch.object(AdaptiveBound, "single_split_bound", staticmethod(wrap)):
        adp = AdaptiveBound(data[0] if isinstance(spec, int) else data, spec)
        try:
            adp.get_bounds()
        except (IndexError, ValueError):
            if c["kind"] in (2, 3):
                return calls, False
            raise
    return calls, True


def perc_samples(seed, n):
    rng = np.random.Generator(np.random.Philox(seed))
    out = []
    for t in range(n):
        N = int(rng.choice([1, 2, 3, 5, 8, 40, 97, 256]))
        kind = t % 5
        if kind == 0:
            d = rng.normal(size=N)
        elif kind == 1:  # tie-heavy
            d = rng.integers(0, 6, size=N) * 1.0
        elif kind == 2:
            d = rng.integers(0, 2 ** 10, size=N) / 64.0
        elif kind == 3:
            d = rng.uniform(0, 1, size=N) ** 3 * 1e3
        else:  # clusters closer than 1e-6
            d = rng.integers(0, 4, size=N) * 1.0 + rng.integers(0, 5, size=N) * 2.5e-7
        nb = int(rng.choice([1, 2, 3, 4, 5, 7, 10]))
        pct = float(rng.choice([0.0, 100.0, 50.0, float(rng.uniform(0, 100)), 100 * (1 - 2.0 ** -53), 25.0]))
        out.append(([float(v) for v in d], nb, pct))
    return out


def correspond_percentile(ctx, res):
    from tf_pwa.adaptive_bins import AdaptiveBound
    lines, impl = ["C20p consts"], [None]
    for d, nb, pct in perc_samples(ctx.seed * 53 + 11, 150 if ctx.quick else 3000):
        lines.append("C20p perc %s %s" % (C.f2h(pct), bits(d)))
        impl.append([float(np.percentile(np.array(d), pct))])
        lines.append("C20p cuts %d %s" % (nb, bits(d)))
        impl.append([float(b[1]) for b in AdaptiveBound.single_split_bound(np.array(d), nb)[:-1]])
    # the cut points of every single_split_bound call inside real (nested) AdaptiveBound runs
    ncalls = 0
    for c in bins_cases(ctx.seed * 31 + 5, 22 if ctx.quick else 440):
        calls, _ = record_splits(c)
        for call in calls:
            ncalls += 1
            lines.append("C20p cuts %d %s" % (call["n"], bits(call["data"])))
            impl.append([b[1] for b in call["bounds"][:-1]])
    out = ctx.model.query(lines)
    if out[0] != bits([100.0, 1e-6, 0.5]):
        res.broke("correspondence Percentile constants", out[0])
    nbad, first = 0, None
    for ln, o, iv in list(zip(lines, out, impl))[1:]:
        if o == "bad-op":
            res.broke("model driver bad-op (percentile)", ln[:200])
            return
        mv = unbits(o)
        if not same_bits(mv, iv):
            nbad += 1
            if first is None:
                first = {"op": ln[:240], "impl": [repr(v) for v in iv][:8], "model": [repr(v) for v in mv][:8]}
    res.coverage["percentile_lines"] = len(lines) - 1
    res.coverage["percentile_single_split_calls_inside_adaptive_runs"] = ncalls
    if nbad:
        res.broke("correspondence PercentileF vs np.percentile / single_split_bound cut points", {"n": nbad, "first": first})
    return len(lines) - 1, nbad


def histops_cases(seed, n):
    rng = np.random.Generator(np.random.Philox(seed))
    out = []
    for i in range(n):
        n1 = int(rng.choice([1, 2, 3, 6, 12]))
        n2 = n1 if i % 2 == 0 else int(rng.choice([1, 2, 4, 8]))
        e1 = np.cumsum(rng.integers(1, 9, size=n1 + 1) / 4.0) + float(rng.integers(-8, 8))
        e2 = e1.copy() if (i % 2 == 0 and i % 3) else np.cumsum(rng.integers(1, 9, size=n2 + 1) / 4.0)
        c1 = rng.integers(-4, 40, size=n1) / 4.0
        if c1.sum() == 0:
            c1[0] += 1.0
        r1 = 2.0 ** rng.integers(-2, 3, size=n1)   # powers of two: pulls and their squares are exact dyadic numbers
        if i % 4 == 1:
            r1[rng.integers(0, n1)] = np.inf
        if i % 8 == 3:
            r1[:] = np.inf
        c2 = rng.integers(0, 64, size=n2) / 2.0
        out.append({"e1": e1.tolist(), "c1": c1.tolist(), "r1": r1.tolist(), "e2": e2.tolist(), "c2": c2.tolist()})
    return out


def correspond_histops(ctx, res):
    from tf_pwa.histogram import Hist1D
    lines, impl = [], []
    for c in histops_cases(ctx.seed * 19 + 2, 60 if ctx.quick else 1500):
        e1, c1, r1, e2, c2 = (np.array(c[k], dtype=np.float64) for k in ("e1", "c1", "r1", "e2", "c2"))
        n1, n2 = len(c1), len(c2)
        with np.errstate(all="ignore"):
            h = Hist1D(e1.copy(), c1.copy(), r1.copy())
            o = Hist1D(e2.copy(), c2.copy(), np.sqrt(c2))
            chi2, ndf = float(h.chi2()), int(h.ndf())
            lines.append("C20g chi2 %d %s" % (n1, bits(list(c1) + list(r1) + [1.0 if np.isinf(v) else 0.0 for v in r1])))
            impl.append([chi2, float(ndf)])
            total, bw = float(h.get_count()), float(h.get_bin_weight())
            fin = np.where(np.isinf(r1), 1.0, r1)   # inf * scale: keep the compared errors finite
            h = Hist1D(e1.copy(), c1.copy(), fin.copy())
            scale = float(h.scale_to(o))
            lines.append("C20g scale %d %d %s" % (n1, n2, bits(list(e1) + list(c1) + list(fin) + list(e2) + list(c2))))
            impl.append([scale, total, bw] + [float(v) for v in h.count] + [float(v) for v in h.error])
    out = ctx.model.query(lines)
    nbad, first = 0, None
    for ln, o, iv in zip(lines, out, impl):
        if o == "bad-op":
            res.broke("model driver bad-op (histops)", ln[:200])
            return
        mv = unbits(o)
        if not same_bits(mv, iv):
            nbad += 1
            if first is None:
                first = {"op": ln[:200], "impl": [repr(v) for v in iv][:10], "model": [repr(v) for v in mv][:10]}
    res.coverage["histops_lines"] = len(lines)
    if nbad:
        res.broke("correspondence HistOpsF vs Hist1D.scale_to/chi2/ndf/get_count/get_bin_weight", {"n": nbad, "first": first})
    return len(lines), nbad


def correspond(ctx, res):
    n1, _ = correspond_multi(ctx, res) or (0, 0)
    n2, _ = correspond_interp(ctx, res) or (0, 0)
    n3, _ = correspond_bins(ctx, res) or (0, 0)
    n4, _ = correspond_hist(ctx, res) or (0, 0)
    n5, _ = correspond_interp_nd(ctx, res) or (0, 0)
    n6, _ = correspond_percentile(ctx, res) or (0, 0)
    n7, _ = correspond_histops(ctx, res) or (0, 0)
    import c20_toy
    n8, _ = c20_toy.correspond(ctx, res) or (0, 0)
    n4 += n5 + n6 + n7 + n8
    res.coverage.update({
        "traces_validated_against_impl": n1 + n2 + n3 + n4,
        "evaluations": n1 + n2 + n3 + n4,
        "distinct_nontrivial": res.coverage.get("multi_sampling_runs_with_thinning", 0) + n2 + n3 + n4,
        "rule": "seeded scenarios: multi_sampling runs (8 weight/bound regimes incl. bound growth with thinning, exact ties, supplied bounds, importance_f) replayed bit-for-bit; LinearInterp grids (plateaus, zero nodes, slopes around epsilon) coefficient/solve/integral/call bit-for-bit; BWGenerator to 1e-12; AdaptiveBound boxes and membership matrices exact (incl. points on edges); Hist1D.histogram counts/errors exact with integer weights; np.percentile and single_split_bound cut points bit-for-bit (random, tie-heavy, 1e-6-clustered samples and all calls inside nested AdaptiveBound runs); Hist1D.scale_to/chi2/ndf bit-for-bit on dyadic data; generate_toy / generate_toy_p wrappers replayed through the Sampler model; C20h: generate_toy/toy2/toy_p over all keyword paths (stub + real ConfigLoader model), generate_toy_o, gen_random_charge, gen_data on gen_mc files replayed through templates/Toy.lean.in. non-trivial = runs with at least one thinning + all other cases",
        "exhaustive": False,
    })


# =====================================================================================================
# search: the property statements on the implementation, model-independent oracles
# =====================================================================================================

def li_oracle(c):
    """Trapezoid description of the flattened interpolant (independent of LinearInterp): masses, cumulative table,
    and per-bin rounding scale of the in-bin quadratic b^2 + k (k x1^2 + 2 b x1 + 2 d) expressed as an offset in d."""
    x, y = np.asarray(c["x"]), np.asarray(c["y"])
    with np.errstate(all="ignore"):
        k0 = np.diff(y) / np.diff(x)
        flat = ~(np.abs(k0) > c["eps"])
        kk = np.where(flat, 0.0, k0)
        yb = np.where(flat, y[:-1], y[1:])
        mass = (y[:-1] + yb) / 2 * np.diff(x)
        b = y[:-1] - kk * x[:-1]
        x1 = x[1:]
        mag = b * b + np.abs(kk) * (np.abs(kk) * x1 * x1 + 2 * np.abs(b * x1))
        dscale = np.where(flat, 0.0, mag / (2 * np.abs(np.where(flat, 1.0, kk))))
    return {"x": x, "ya": y[:-1], "yb": yb, "kk": kk, "flat": flat, "mass": mass, "cum": np.concatenate([[0.0], np.cumsum(mass)]),
            "dscale": dscale, "tot": float(np.sum(mass))}


def li_zero_node_hit(o, target):
    """True where the target value of the cumulative function lies within rounding distance of the cumulative value at
    an end of a sloped bin at which the (flattened) density vanishes: there sqrt() is taken of a quantity that is 0 in
    exact arithmetic."""
    target = np.atleast_1d(target)
    hit = np.zeros(target.shape, dtype=bool)
    for i in range(len(o["mass"])):
        if o["flat"][i]:
            continue
        tol = 256 * 2.3e-16 * (o["dscale"][i] + o["tot"])
        if o["ya"][i] == 0:
            hit |= np.abs(target - o["cum"][i]) <= tol
        if o["yb"][i] == 0:
            hit |= np.abs(target - o["cum"][i + 1]) <= tol
    return hit


def check_li(c):
    from tf_pwa.generator.linear_interpolation import LinearInterp
    bad = []
    x, y = np.asarray(c["x"]), np.asarray(c["y"])
    with np.errstate(all="ignore"):
        f = LinearInterp(x, y, epsilon=c["eps"])
        o = li_oracle(c)
        tot, mass, kk, cum = o["tot"], o["mass"], o["kk"], o["cum"]
        if not abs(f.int_all - tot) <= 1e-12 * max(tot, 1e-300) * len(x):
            bad.append(("LinearInterp:int_all", "int_all=%r, trapezoid sum=%r for x=%s y=%s" % (f.int_all, tot, c["x"], c["y"])))
        if not tot > 0:
            return bad
        us, ts = li_points(c, f)
        # conditioning: the in-bin quadratic loses |b|/|k| ulps in x (cancellation sqrt(b^2+..)-b for slopes just above epsilon)
        tol = 1e-10 * tot + 64 * 2.3e-16 * float(np.max(o["dscale"]))
        sl = ~o["flat"]
        xcond = float(np.max((np.abs(o["ya"] - kk * x[:-1]) + np.maximum(o["ya"], o["yb"]))[sl] / np.abs(kk[sl]))) if np.any(sl) else 0.0
        s = f.solve(us)
        nan = ~np.isfinite(s)
        if np.any(nan):
            hit = li_zero_node_hit(o, us * f.int_all)
            for j in np.where(nan)[0][:3]:
                key = "LinearInterp:solve-nan:zero-node" if hit[j] else "LinearInterp:solve-nan"
                bad.append((key, "solve(%r) = %r for x=%s y=%s eps=%r" % (float(us[j]), float(s[j]), c["x"], c["y"], c["eps"])))
            us, s = us[~nan], s[~nan]
        lo, hi = x[0], x[-1]
        span = hi - lo
        xtol = 1e-9 * span + 64 * 2.3e-16 * xcond
        if np.any(s < lo - xtol) or np.any(s > hi + xtol):
            j = int(np.argmax((s < lo - xtol) | (s > hi + xtol)))
            bad.append(("LinearInterp:range", "solve(%r) = %r outside [%r, %r] for x=%s y=%s" % (float(us[j]), float(s[j]), lo, hi, c["x"], c["y"])))
        r = f.integral(s) - us * f.int_all
        if np.any(np.abs(r) > tol):
            j = int(np.argmax(np.abs(r)))
            bad.append(("LinearInterp:cdf", "integral(solve(u)) - u*int_all = %r (int_all %r) at u=%r for x=%s y=%s eps=%r" % (float(r[j]), tot, float(us[j]), c["x"], c["y"], c["eps"])))
        # independent CDF: cumulative trapezoid of the flattened interpolant
        idx = np.clip(np.searchsorted(x, s, side="right") - 1, 0, len(x) - 2)
        dt = s - x[idx]
        F = cum[idx] + y[:-1][idx] * dt + 0.5 * kk[idx] * dt * dt
        r2 = F - us * tot
        if np.any(np.abs(r2) > 10 * tol):
            j = int(np.argmax(np.abs(r2)))
            bad.append(("LinearInterp:cdf-oracle", "trapezoid CDF at solve(u) minus u*total = %r (total %r) at u=%r for x=%s y=%s" % (float(r2[j]), tot, float(us[j]), c["x"], c["y"])))
        order = np.argsort(us)
        if np.any(np.diff(s[order]) < -10 * xtol):
            bad.append(("LinearInterp:monotone", "solve is not monotone for x=%s y=%s" % (c["x"], c["y"])))
        if abs(f.integral(np.array([lo]))[0]) > tol or abs(f.integral(np.array([hi]))[0] - f.int_all) > tol:
            bad.append(("LinearInterp:integral-ends", "integral(x0)=%r, integral(x_last)=%r, int_all=%r" % (f.integral(np.array([lo]))[0], f.integral(np.array([hi]))[0], f.int_all)))
        # integral is the antiderivative of __call__ (midpoint rule inside each bin is exact for a linear density)
        a, b = x[:-1] + 0.25 * np.diff(x), x[:-1] + 0.75 * np.diff(x)
        lhs = f.integral(b) - f.integral(a)
        rhs = f((a + b) / 2) * (b - a)
        if np.any(np.abs(lhs - rhs) > tol):
            bad.append(("LinearInterp:antiderivative", "integral(b)-integral(a) != call(mid)*(b-a) for x=%s y=%s" % (c["x"], c["y"])))
    return bad


def check_bw(p):
    from tf_pwa.generator.breit_wigner import BWGenerator
    m0, g0, lo, hi, seed = p["m0"], p["g0"], p["lo"], p["hi"], p["seed"]
    rng = np.random.Generator(np.random.Philox(seed))
    g = BWGenerator(m0, g0, lo, hi)
    us = np.concatenate([[0.0, 1.0], rng.random(30)])
    s = g.solve(us)
    bad = []
    span = hi - lo
    if np.any(s < lo - 1e-9 * span) or np.any(s > hi + 1e-9 * span) or not np.all(np.isfinite(s)):
        bad.append(("BWGenerator:range", "solve leaves [m_min, m_max] for m0=%r gamma0=%r range=(%r,%r)" % (m0, g0, lo, hi)))
    # independent CDF: integral of 1/((x-m0)^2+g0^2/4) = (2/g0) atan(2 (x-m0)/g0)
    F = lambda x: 2 / g0 * np.arctan(2 * (x - m0) / g0)
    tot = F(hi) - F(lo)
    r = (F(s) - F(lo)) - us * tot
    if np.any(np.abs(r) > 1e-9 * tot):
        j = int(np.argmax(np.abs(r)))
        bad.append(("BWGenerator:cdf", "CDF(solve(u)) - u = %r at u=%r for m0=%r gamma0=%r range=(%r,%r)" % (float(r[j] / tot), float(us[j]), m0, g0, lo, hi)))
    r = (g.integral(s) - g.integral(lo)) - us * g.int_all
    if np.any(np.abs(r) > 1e-9 * tot) or abs(g.int_all - tot) > 1e-12 * tot:
        bad.append(("BWGenerator:integral", "integral(solve(u)) - integral(m_min) != u*int_all for m0=%r gamma0=%r range=(%r,%r)" % (m0, g0, lo, hi)))
    # density is the derivative of integral
    t = rng.uniform(lo, hi, size=10)
    h = 1e-5 * g0
    d = (g.integral(t + h) - g.integral(t - h)) / (2 * h)
    if np.any(np.abs(d - g(t)) > 1e-5 * g(t)):
        bad.append(("BWGenerator:density", "__call__ is not the derivative of integral for m0=%r gamma0=%r" % (m0, g0)))
    return bad


def check_interp_nd(p):
    """InterpND / InterpNDHist .generate with a patched random stream: points in range and in the cell that the
    cumulative table selects (independent decoding)."""
    from unittest import mock
    from tf_pwa.generator.interp_nd import InterpND, InterpNDHist
    rng = np.random.Generator(np.random.Philox(p["seed"]))
    shape = p["shape"]
    xs = [np.cumsum(rng.integers(1, 9, size=n) / 4.0) + float(rng.integers(-4, 4)) for n in shape]
    z = rng.integers(0, 6, size=shape) * 1.0
    if p.get("zero_plane"):
        z[0] = 0.0
    if not np.any(z > 0):
        z[(0,) * len(shape)] = 1.0
    N = p["N"]
    bad = []
    for cls in (InterpND, InterpNDHist):
        f = cls(xs, z)
        stream = []

        def fake_random(size=None):
            r = rng.integers(0, 2 ** 20, size=size) / TWO20
            stream.append(r)
            return r

        with mock.patch.object(np.random, "random", fake_random):
            pts = f.generate(N)
        if pts.shape != (N, len(shape)):
            bad.append((cls.__name__ + ":shape", "generate(%d) has shape %s" % (N, pts.shape)))
            continue
        u_in, u_bin = stream[0], stream[1]
        for d in range(len(shape)):
            if np.any(pts[:, d] < xs[d][0]) or np.any(pts[:, d] > xs[d][-1]):
                bad.append((cls.__name__ + ":range", "generate leaves the grid in dimension %d (shape %s)" % (d, shape)))
        # independent decoding of the selected (corner, cell) from the object's cumulative table (that the table is
        # the integral of the density is the separate check interp_nd_mass)
        cum = np.asarray(f.int_step, dtype=float)
        flat = np.diff(np.concatenate([[0.0], cum]))
        target = u_bin * cum[-1]
        sel = np.array([int(np.sum(cum[:-1] <= t)) for t in target])
        if np.any(flat[sel] <= 0):
            j = int(np.argmax(flat[sel] <= 0))
            bad.append((cls.__name__ + ":zero-mass-cell", "a cell/corner of zero mass was selected (u=%r, shape %s)" % (float(u_bin[j]), shape)))
        ncell = int(np.prod([n - 1 for n in shape]))
        cell = np.unravel_index(sel % ncell, [n - 1 for n in shape])
        if cls is InterpND and len(shape) >= 2:
            # within the cell the point is drawn towards the corner whose weight was selected: corner number
            # sel // ncell in the order of the table (itertools.product: first dimension most significant);
            # coordinate sqrt(u) towards the upper, 1 - sqrt(u) towards the lower corner (pdf 2w)
            corner = sel // ncell
            su = np.sqrt(u_in)
            okc = True
            for d in range(len(shape)):
                bit = (corner >> (len(shape) - 1 - d)) & 1
                lo, hi = xs[d][cell[d]], xs[d][cell[d] + 1]
                want = np.where(bit == 1, su[:, d], 1 - su[:, d]) * (hi - lo) + lo
                if np.any(np.abs(pts[:, d] - want) > 1e-9 * (xs[d][-1] - xs[d][0])):
                    j = int(np.argmax(np.abs(pts[:, d] - want)))
                    okc = (j, d, float(want[j]))
                    break
            if okc is not True:
                j, d, w = okc
                bad.append(("InterpND:corner-order", "InterpND.generate (shape %s): the weight of corner %s of cell %s was selected but the point is drawn towards another corner (coordinate %d is %r, expected %r)" % (
                    shape, format(int(corner[j]), "0%db" % len(shape)), tuple(int(c[j]) for c in cell), d, float(pts[j, d]), w)))
        for d in range(len(shape)):
            lo, hi = xs[d][cell[d]], xs[d][cell[d] + 1]
            if np.any(pts[:, d] < lo) or np.any(pts[:, d] > hi):
                j = int(np.argmax((pts[:, d] < lo) | (pts[:, d] > hi)))
                bad.append((cls.__name__ + ":cell", "point %s is outside the selected cell [%r,%r] in dimension %d (shape %s)" % (pts[j].tolist(), float(lo[j]), float(hi[j]), d, shape)))
                break
    return bad


def check_interp_nd_mass(p):
    """The cumulative table of InterpND / InterpNDHist is the integral of the object's own density (__call__) over the
    cells: multilinear interpolant -> (mean of the corner values) x (cell volume); InterpNDHist -> (max of the corner
    values) x (cell volume).  Deterministic, on uniform and non-uniform grids."""
    from tf_pwa.generator.interp_nd import InterpND, InterpNDHist
    rng = np.random.Generator(np.random.Philox(p["seed"]))
    shape = p["shape"]
    if p["uniform"]:
        xs = [np.linspace(float(rng.integers(-3, 3)), float(rng.integers(4, 9)), n) for n in shape]
    else:
        xs = [np.cumsum(rng.integers(1, 9, size=n) / 4.0) + float(rng.integers(-4, 4)) for n in shape]
        if all(len(set(np.round(np.diff(x), 12))) == 1 for x in xs):
            xs[0] = xs[0] + np.arange(len(xs[0])) ** 2 * 0.25
    z = rng.integers(0, 6, size=shape) * 1.0 + 0.5
    vol = 1.0
    for i, x in enumerate(xs):
        sh = [1] * len(shape)
        sh[i] = -1
        vol = vol * np.diff(x).reshape(sh)
    corners = np.stack([z[tuple(slice(0, -1) if c == 0 else slice(1, None) for c in cc)] for cc in np.ndindex(*([2] * len(shape)))])
    bad = []
    suffix = "" if p["uniform"] else ":nonuniform-grid"
    for cls, dens in ((InterpND, corners.mean(axis=0)), (InterpNDHist, corners.max(axis=0))):
        f = cls(xs, z)
        if cls is InterpND:
            table = np.asarray(f.int_all).sum(axis=0)
        else:
            table = np.diff(np.concatenate([[0.0], f.int_step])).reshape(dens.shape)
        want = dens * vol
        got = table / table.sum()
        want = want / want.sum()
        if np.any(np.abs(got - want) > 1e-12):
            j = np.unravel_index(int(np.argmax(np.abs(got - want))), got.shape)
            # the density itself at the cell centre, as the object evaluates it
            bad.append((cls.__name__ + ":cell-mass" + suffix,
                        "%s on the grid %s selects cell %s with probability %.6f, the integral of its own density over that cell is %.6f of the total" % (
                            cls.__name__, [x.tolist() for x in xs], tuple(int(v) for v in j), float(got[j]), float(want[j]))))
    return bad


def check_bins(c):
    try:
        adp, data, bounds, calls = run_bins(c)
    except Exception as e:
        return [("AdaptiveBound:raises", "AdaptiveBound(bins=%s) raises %s: %s on continuous data (%d events)" % (c["spec"], type(e).__name__, e, c["n"]))]
    bad = []
    if adp is None:
        return bad
    spec = c["spec"]
    Db = bounds[0][0].shape[0]
    nb = spec if isinstance(spec, int) else int(np.prod([np.prod(s) for s in spec]))
    if len(bounds) != nb:
        bad.append(("AdaptiveBound:nbins", "%d boxes for bins=%s" % (len(bounds), spec)))
    pts = bins_points(c, data, bounds)
    mask = np.array(adp.get_bool_mask(pts))
    cnt = mask.sum(axis=0)
    n = data.shape[1]
    if np.any(cnt[:n] != 1):
        j = int(np.argmax(cnt[:n] != 1))
        bad.append(("AdaptiveBound:base-event-not-in-one-bin", "base event %s lies in %d bins (bins=%s)" % (data[:Db, j].tolist(), int(cnt[j]), spec)))
    # any point inside the base bound lies in exactly one bin, outside in none (oracle: the boxes tile the base box)
    lb0, rb0 = adp._base_bound
    inside = np.all((pts[:Db] >= np.asarray(lb0)[:, None]) & (pts[:Db] < np.asarray(rb0)[:, None]), axis=0)
    if np.any(cnt[inside] != 1) or np.any(cnt[~inside] != 0):
        j = int(np.argmax(np.where(inside, cnt != 1, cnt != 0)))
        bad.append(("AdaptiveBound:partition", "point %s (inside base bound: %s) lies in %d bins (bins=%s, kind %d)" % (pts[:Db, j].tolist(), bool(inside[j]), int(cnt[j]), spec, c["kind"])))
    sp = adp.split_data(pts)
    if [s.shape[-1] for s in sp] != mask.sum(axis=1).tolist() or sum(s.shape[-1] for s in sp) != int(cnt.sum()):
        bad.append(("AdaptiveBound:split_data", "split_data sizes differ from the masks"))
    if c["kind"] in (0, 1):
        # continuous data (no ties): populations of the base data are equal up to rounding at every split level
        pop = mask[:, :n].sum(axis=1)
        levels = 1 if isinstance(spec, int) else sum(len(s) for s in spec)
        if pop.max() - pop.min() > levels + 1 or abs(pop.mean() - n / nb) > 1e-9:
            bad.append(("AdaptiveBound:populations", "bin populations %s for %d events in %d bins (bins=%s)" % (pop.tolist(), n, nb, spec)))
    return bad


def check_hist(c):
    from tf_pwa.histogram import Hist1D
    m, w, kw = hist_inputs(c)
    h = Hist1D.histogram(m, weights=w, mask_error=c["mask_error"], **kw)
    ww = np.ones_like(m) if w is None else w
    e = h.binning
    bad = []
    inr = (m >= e[0]) & (m <= e[-1])
    if float(np.sum(h.count)) != float(np.sum(ww[inr])):
        bad.append(("Hist1D:sum-weights", "sum of bin contents %r != sum of in-range weights %r (%d entries, %d bins)" % (float(np.sum(h.count)), float(np.sum(ww[inr])), len(m), len(e) - 1)))
    # independent binning: half-open bins, last closed
    idx = np.searchsorted(e, m, side="right") - 1
    idx = np.where(m == e[-1], len(e) - 2, idx)
    ok = (idx >= 0) & (idx <= len(e) - 2) & inr
    cnt = np.zeros(len(e) - 1)
    c2 = np.zeros(len(e) - 1)
    ent = np.zeros(len(e) - 1, dtype=int)
    np.add.at(cnt, idx[ok], ww[ok])
    np.add.at(c2, idx[ok], ww[ok] ** 2)
    np.add.at(ent, idx[ok], 1)
    if not same_bits(cnt, h.count):
        bad.append(("Hist1D:contents", "bin contents %s, expected %s" % (h.count.tolist()[:10], cnt.tolist()[:10])))
    err2 = np.where(ent == 0, c["mask_error"], c2)
    if not same_bits(np.sqrt(err2), h.error):
        j = int(np.argmax(~(np.sqrt(err2) == h.error) & ~(np.isnan(err2) & np.isnan(h.error))))
        bad.append(("Hist1D:errors", "bin %d has error^2 = %r, expected %r (sum of w^2 over its %d entries; mask_error=%r)" % (j, float(h.error[j] ** 2), float(err2[j]), int(ent[j]), c["mask_error"])))
    fin = ent > 0
    if float(np.sum(h.error[fin] ** 2)) != float(np.sum(ww[ok] ** 2)) and abs(float(np.sum(h.error[fin] ** 2)) - float(np.sum(ww[ok] ** 2))) > 1e-9 * float(np.sum(ww[ok] ** 2)):
        bad.append(("Hist1D:sum-weights2", "sum of squared errors %r != sum of squared in-range weights %r" % (float(np.sum(h.error[fin] ** 2)), float(np.sum(ww[ok] ** 2)))))
    # arithmetic
    h2 = Hist1D(h.binning, np.roll(h.count, 1) + 1.0, np.roll(np.where(np.isfinite(h.error), h.error, 1.0), 1) + 0.5)
    h1 = Hist1D(h.binning, h.count, np.where(np.isfinite(h.error), h.error, 2.0))
    for name, r, cc in (("add", h1 + h2, h1.count + h2.count), ("sub", h1 - h2, h1.count - h2.count)):
        if not same_bits(r.count, cc) or np.any(np.abs(r.error ** 2 - (h1.error ** 2 + h2.error ** 2)) > 1e-12 * (1 + h1.error ** 2 + h2.error ** 2)):
            bad.append(("Hist1D:" + name, "Hist1D %s: contents/errors are not (c1%sc2, sqrt(e1^2+e2^2))" % (name, "+" if name == "add" else "-")))
    r = h1 * 2.5
    if not same_bits(r.count, h1.count * 2.5) or not same_bits(r.error, h1.error * 2.5):
        bad.append(("Hist1D:mul", "Hist1D * 2.5 does not scale contents and errors by 2.5"))
    return bad

def check_pops(c):
    """populations_near_equal on the implementation (independent of the Lean model): for every single_split_bound call
    of a real (nested) AdaptiveBound run, with N values, n bins, m = largest number of values in a window [v, v+1e-6]:
    floor((N-1)k/n)+1 <= #{x < cut_k} <= floor((N-1)k/n)+1+m and floor((N-1)/n)-m <= population <= floor((N-1)/n)+1+m;
    the bins of one call partition its data.  Ties included (kinds 2, 3)."""
    try:
        calls, complete = record_splits(c)
    except Exception as e:
        return [("AdaptiveBound:raises", "AdaptiveBound(bins=%s) raises %s: %s on continuous data (%d events)" % (c["spec"], type(e).__name__, e, c["n"]))]
    bad = []
    for call in calls:
        d = np.sort(np.asarray(call["data"], dtype=np.float64))
        N, n, bounds = len(d), call["n"], call["bounds"]
        if N == 0:
            continue
        W = 1.000001e-6 + 8 * float(np.spacing(np.max(np.abs(d))))
        m = int(np.max(np.searchsorted(d, d + W, side="right") - np.searchsorted(d, d, side="left")))
        f = (N - 1) // n
        if len(bounds) != max(n, 1):
            bad.append(("AdaptiveBound:nbins", "single_split_bound(n=%d) returned %d bins" % (n, len(bounds))))
            continue
        pops = [int(np.sum((d >= lb) & (d < rb))) for lb, rb in bounds]
        inside = int(np.sum((d >= bounds[0][0]) & (d < bounds[-1][1])))
        if sum(pops) != inside:
            bad.append(("AdaptiveBound:partition", "single_split_bound(n=%d): bin populations %s do not add up to the %d values inside the base bound" % (n, pops, inside)))
        for k in range(1, n):
            L = int(np.sum(d < bounds[k - 1][1]))
            e = (N - 1) * k // n + 1
            if not (e <= L <= e + m):
                bad.append(("AdaptiveBound:cut-count", "single_split_bound(%d values, n=%d): %d values lie below cut %d (%r), expected %d..%d (largest 1e-6 cluster: %d)" % (N, n, L, k, bounds[k - 1][1], e, e + m, m)))
                break
        if inside == N:
            for k, pk in enumerate(pops):
                if not (f - m <= pk <= f + 1 + m):
                    bad.append(("AdaptiveBound:populations", "single_split_bound(%d values, n=%d): bin %d holds %d values, expected %d..%d (largest 1e-6 cluster: %d); populations %s" % (N, n, k, pk, max(f - m, 0), f + 1 + m, m, pops)))
                    break
    return bad


def check_histops(c):
    """Hist1D.scale_to / chi2 / ndf / get_count / get_bin_weight against their definitions (independent of the model)."""
    from tf_pwa.histogram import Hist1D
    e1, c1, r1, e2, c2 = (np.array(c[k], dtype=np.float64) for k in ("e1", "c1", "r1", "e2", "c2"))
    bad = []
    with np.errstate(all="ignore"):
        h = Hist1D(e1.copy(), c1.copy(), r1.copy())
        o = Hist1D(e2.copy(), c2.copy(), np.sqrt(c2))
        fin = ~np.isinf(r1)
        want = float(sum((a / b) ** 2 for a, b in zip(c1[fin], r1[fin])))
        chi2_0 = float(h.chi2())
        if abs(chi2_0 - want) > 1e-12 * max(want, 1.0):
            bad.append(("Hist1D:chi2", "chi2() = %r, sum of squared pulls over the bins with finite error = %r" % (chi2_0, want)))
        if int(h.ndf()) != int(fin.sum()):
            bad.append(("Hist1D:ndf", "ndf() = %r for %d bins with finite error" % (h.ndf(), int(fin.sum()))))
        if abs(float(h.get_bin_weight()) - float(np.mean(np.diff(e1)))) > 1e-12 * abs(float(np.mean(np.diff(e1)))):
            bad.append(("Hist1D:bin_weight", "get_bin_weight() = %r, mean bin width %r" % (h.get_bin_weight(), float(np.mean(np.diff(e1))))))
        area_o = float(np.sum(c2)) * float(np.mean(np.diff(e2)))
        h.error = np.where(fin, r1, 1.0)
        err0 = h.error.copy()
        scale = float(h.scale_to(o))
        area_h = float(np.sum(h.count)) * float(np.mean(np.diff(e1)))
        if abs(area_h - area_o) > 1e-9 * max(abs(area_o), 1.0):
            bad.append(("Hist1D:scale_to", "after scale_to: sum(count) x mean bin width = %r, of the target %r" % (area_h, area_o)))
        if np.any(np.abs(h.count - c1 * scale) > 1e-12 * (1 + np.abs(c1 * scale))) or np.any(np.abs(h.error - err0 * scale) > 1e-12 * (1 + np.abs(err0 * scale))):
            bad.append(("Hist1D:scale_to-errors", "scale_to does not multiply contents and errors by the returned factor %r" % scale))
        if scale != 0 and np.isfinite(scale):
            h.error = np.where(fin, h.error, np.inf)
            chi2_1 = float(h.chi2())
            if abs(chi2_1 - chi2_0) > 1e-9 * max(chi2_0, 1.0):
                bad.append(("Hist1D:chi2-scale", "chi2 changes under scale_to: %r -> %r" % (chi2_0, chi2_1)))
    return bad


def real_model_config():
    return {
        "data": {"dat_order": ["B", "C", "D"]},
        "decay": {"A": [["R_BC", "D"], ["R_BD", "C"], ["R_CD", "B"]], "R_BC": ["B", "C"], "R_BD": ["B", "D"], "R_CD": ["C", "D"]},
        "particle": {
            "$top": {"A": {"J": 1, "P": -1, "spins": [-1, 1], "mass": 4.6}},
            "$finals": {"B": {"J": 1, "P": -1, "mass": 2.00698}, "C": {"J": 1, "P": -1, "mass": 2.01028}, "D": {"J": 0, "P": -1, "mass": 0.13957}},
            "R_BC": {"J": 1, "Par": 1, "m0": 4.16, "g0": 0.1},
            "R_BD": {"J": 1, "Par": 1, "m0": 2.43, "g0": 0.3},
            "R_CD": {"J": 1, "Par": 1, "m0": 2.42, "g0": 0.03},
        },
    }


def check_real_model(p):
    """ConfigLoader.generate_toy / generate_toy_p on a small real model: exact count, physical events, weight <= bound."""
    import tensorflow as tf
    from unittest import mock
    from tf_pwa.config_loader import ConfigLoader
    from tf_pwa.data import data_shape
    import tf_pwa.config_loader.sample as S
    from tf_pwa.generator import generator as G
    bad = []
    tf.random.set_seed(p["seed"])
    np.random.seed(p["seed"])
    with quiet():
        config = ConfigLoader(real_model_config())
        config.set_params({k: v for k, v in zip(config.get_params().keys(), np.random.Generator(np.random.Philox(p["seed"])).normal(size=200))
                           if not k.endswith(("_mass", "_width"))})
        amp = config.get_amplitude()
    masses = {"B": 2.00698, "C": 2.01028, "D": 0.13957}
    seen = {}
    orig = G.multi_sampling

    def wrap(*a, **k):
        ret, status = orig(*a, **k)
        seen["status"] = status
        return ret, status

    bounds = []
    orig1 = G.single_sampling2

    class NoExit(Exception):
        pass

    def wrap1(phsp, ampf, N, max_weight=None, importance_f=None):
        if len(bounds) > 300:
            raise NoExit()
        data, m = orig1(phsp, ampf, N, max_weight, importance_f)
        w = ampf(data)
        bounds.append((float(m), float(tf.reduce_max(w)) if int(w.shape[0]) else 0.0))
        return data, m

    for fn, N, maxN in (("generate_toy", p["N"], p["maxN"]), ("generate_toy_p", p["N"] + 3, p["maxN"] * 2)):
        bounds.clear()
        try:
            with mock.patch.object(S, "multi_sampling", wrap), mock.patch.object(G, "single_sampling2", wrap1), quiet():
                ret = getattr(config, fn)(N, max_N=maxN)
        except NoExit:
            bad.append((fn + ":no-exit", "%s(N=%d, max_N=%d) has not collected N events after 300 batches" % (fn, N, maxN)))
            continue
        n = data_shape(ret)
        if n != N:
            bad.append((fn + ":count", "%s(N=%d, max_N=%d) returned %d events" % (fn, N, maxN, n)))
        for mb, mx in bounds:
            if not mx <= mb:
                bad.append((fn + ":weight-above-bound", "an accepted event has weight %r above its batch bound %r" % (mx, mb)))
        if fn == "generate_toy_p":
            p4 = {str(k): v.numpy() for k, v in ret.items()}
        else:
            p4 = {str(k): v["p"].numpy() for k, v in ret["particle"].items() if str(k) in masses}
        tot = sum(p4[k] for k in masses)
        for k, m in masses.items():
            m2 = p4[k][:, 0] ** 2 - np.sum(p4[k][:, 1:] ** 2, axis=-1)
            if np.any(np.abs(m2 - m * m) > 1e-6) or np.any(p4[k][:, 0] <= 0):
                bad.append((fn + ":on-shell", "particle %s of a generated event is off shell (max |m^2-m0^2| = %r)" % (k, float(np.max(np.abs(m2 - m * m))))))
        if np.any(np.abs(tot[:, 0] - 4.6) > 1e-6) or np.any(np.abs(tot[:, 1:]) > 1e-6):
            bad.append((fn + ":momentum", "generated event does not sum to the parent at rest"))
        # weight of every returned event <= final bound
        if fn == "generate_toy":
            w = amp(ret).numpy()
        else:
            w = config.eval_amplitude(ret).numpy()
        fb = float(seen["status"][1])
        if np.any(w > fb) or np.any(w < 0) or not np.all(np.isfinite(w)):
            bad.append((fn + ":final-bound", "a returned event has weight %r above the final bound %r" % (float(np.max(w)), fb)))
    return bad


def chi2_sf_threshold(ndf, p=1e-9):
    from scipy.stats import chi2
    return float(chi2.isf(p, ndf))


def check_statistical(p):
    """Thorough tier: samples follow their densities (chi-square, false alarm <= 1e-9 per test)."""
    import tensorflow as tf
    from tf_pwa.generator.linear_interpolation import LinearInterp
    from tf_pwa.generator.breit_wigner import BWGenerator
    from tf_pwa.generator.interp_nd import InterpND
    from tf_pwa.generator import generator as G
    bad = []
    np.random.seed(p["seed"])
    tf.random.set_seed(p["seed"])
    n = p["n"]

    def chi2_test(name, counts, expect, key=None):
        expect = np.asarray(expect, dtype=float) * counts.sum() / np.sum(expect)
        keep = expect > 20
        c2 = float(np.sum((counts[keep] - expect[keep]) ** 2 / expect[keep]))
        ndf = int(keep.sum()) - 1
        thr = chi2_sf_threshold(ndf)
        if c2 > thr or counts[~keep].sum() > 20 * (~keep).sum() + 60:
            bad.append((key or name + ":distribution", "%s: chi2 = %.1f for %d dof (threshold %.1f at p=1e-9), n=%d" % (name, c2, ndf, thr, int(counts.sum()))))

    x = np.array([0.0, 0.5, 1.5, 2.0, 4.0])
    y = np.array([1.0, 3.0, 0.0, 0.0, 2.0])
    f = LinearInterp(x, y)
    s = f.generate(n)
    edges = np.linspace(0, 4, 41)
    cnt, _ = np.histogram(s, edges)
    chi2_test("LinearInterp.generate", cnt, np.diff(f.integral(edges)))
    g = BWGenerator(1.0, 0.1, 0.7, 1.5)
    s = g.generate(n)
    edges = np.linspace(0.7, 1.5, 41)
    cnt, _ = np.histogram(s, edges)
    chi2_test("BWGenerator.generate", cnt, np.diff(g.integral(edges)))
    # InterpND: cell selection probabilities proportional to the cell integral of the multilinear interpolant
    xs = [np.array([0.0, 1.0, 3.0]), np.array([0.0, 2.0, 3.0, 4.0])]
    z = np.array([[1.0, 2.0, 0.0, 1.0], [3.0, 1.0, 1.0, 0.0], [0.0, 2.0, 2.0, 1.0]])
    h = InterpND(xs, z)
    s = h.generate(n)
    cnt, _, _ = np.histogram2d(s[:, 0], s[:, 1], bins=xs)
    # cells are selected according to the object's own cumulative table (its relation to the interpolant is the
    # deterministic check interp_nd_mass)
    chi2_test("InterpND.generate(cells)", cnt.reshape(-1), np.asarray(h.int_all).sum(axis=0).reshape(-1))
    # within a cell the law is the multilinear interpolant (corner mixture with the sqrt(u) trick): sub-cell test
    sub = s[(s[:, 0] >= 1.0) & (s[:, 1] < 2.0)]
    a = (sub[:, 0] - 1.0) / 2.0
    b = sub[:, 1] / 2.0
    cnt2, _, _ = np.histogram2d(a, b, bins=[np.linspace(0, 1, 5), np.linspace(0, 1, 5)])
    zz = z[1:3, 0:2]
    Gint = lambda t: (t - t * t / 2, t * t / 2)  # integrals of (1-t), t
    ea = [np.diff(np.array(Gint(np.linspace(0, 1, 5)))[k]) for k in (0, 1)]
    expect = sum(zz[i, j] * np.outer(ea[i], ea[j]) for i in (0, 1) for j in (0, 1))
    chi2_test("InterpND.generate(within cell)", cnt2.reshape(-1), expect.reshape(-1), key="InterpND:corner-order")
    # acceptance-rejection on a known 1-d density with bound growth
    dens = lambda t: 0.05 + t * t * (1 - t) * 8

    def phsp(m):
        return tf.random.uniform((m,), dtype=tf.float64)

    with quiet():
        ret, status = G.multi_sampling(phsp, dens, n // 4, max_N=2000, display=False)
    s = ret.numpy()
    edges = np.linspace(0, 1, 31)
    cnt, _ = np.histogram(s, edges)
    prim = lambda t: 0.05 * t + 8 * (t ** 3 / 3 - t ** 4 / 4)
    chi2_test("multi_sampling", cnt, np.diff(prim(edges)))
    if len(s) != n // 4:
        bad.append(("multi_sampling:count", "multi_sampling returned %d events for N=%d" % (len(s), n // 4)))
    return bad


def _toy_check(kind):
    def run(param):
        import c20_toy
        return c20_toy.CHECKS[kind](param)
    return run


CHECKS = {"toy": _toy_check("toy"), "toy_o": _toy_check("toy_o"), "charge": _toy_check("charge"), "gen_data": _toy_check("gen_data"),
          "toy_real": _toy_check("toy_real"), "pops": check_pops, "histops": check_histops, "interp_nd_mass": check_interp_nd_mass, "multi": check_multi, "li": check_li, "bw": check_bw, "interp_nd": check_interp_nd, "bins": check_bins,
          "hist": check_hist, "real": check_real_model, "stat": check_statistical}


def _run(res, kind, param, counter):
    counter[kind] = counter.get(kind, 0) + 1
    for key, what in CHECKS[kind](param):
        res.fail(key, what, {"kind": kind, "param": param})


def search(ctx, res):
    # effort: quick 1x; quick after a broken obligation 3x; thorough 20x (30x after a broken obligation)
    f = (1 if not ctx.suspect else 3) if ctx.quick else (20 if not ctx.suspect else 30)
    cnt = {}
    for scn in multi_scenarios(ctx.seed * 7919 + 21, 40 * f):
        _run(res, "multi", scn, cnt)
    for c in li_cases(ctx.seed * 104729 + 4, 150 * f):
        _run(res, "li", c, cnt)
    rng = np.random.Generator(np.random.Philox(ctx.seed + 777))
    for i in range(60 * f):
        m0 = float(rng.uniform(0.5, 5))
        g0 = float(rng.choice([0.001, 0.02, 0.1, 0.5, 2.0]))
        lo = m0 + float(rng.uniform(-3, 1)) * g0 * float(rng.choice([1, 10]))
        hi = lo + float(rng.uniform(0.1, 6)) * g0
        _run(res, "bw", {"m0": m0, "g0": g0, "lo": lo, "hi": hi, "seed": int(rng.integers(0, 2 ** 31))}, cnt)
    shapes = [[3], [5], [2, 2], [3, 4], [2, 3, 2], [4, 2, 3]]
    for i in range(18 * f):
        _run(res, "interp_nd", {"shape": shapes[i % len(shapes)], "N": 200, "zero_plane": bool(i % 4 == 1), "seed": int(rng.integers(0, 2 ** 31))}, cnt)
    for i in range(12 * f):
        _run(res, "interp_nd_mass", {"shape": shapes[i % len(shapes)], "uniform": bool(i % 2 == 0), "seed": int(rng.integers(0, 2 ** 31))}, cnt)
    for c in bins_cases(ctx.seed * 31 + 6, 44 * f):
        _run(res, "bins", c, cnt)
    for c in hist_cases(ctx.seed * 17 + 10, 90 * f):
        _run(res, "hist", c, cnt)
    for c in bins_cases(ctx.seed * 31 + 7, 44 * f):
        _run(res, "pops", c, cnt)
    for c in histops_cases(ctx.seed * 19 + 3, 60 * f):
        _run(res, "histops", c, cnt)
    for scn in wrapper_scenarios(ctx.seed * 7919 + 23, 16 * f):
        _run(res, "multi", scn, cnt)
    _run(res, "real", {"N": 57 if ctx.quick else 400, "maxN": 40 if ctx.quick else 150, "seed": ctx.seed + 1}, cnt)
    import c20_toy
    cnt.update(c20_toy.search(ctx, res, _run, f))
    if not ctx.quick:
        _run(res, "stat", {"n": 2000000, "seed": ctx.seed + 5}, cnt)
    res.coverage["search_cases"] = cnt
    res.notes += [
        "observation (not a violation of C20): multi_sampling(max_weight=<python float>) raises AttributeError ('float' has no attribute 'dtype') as soon as a later batch needs a larger bound; a tf tensor works. ARGenerator(..., max_weight=1.0) in config_loader/sample.py relies on weights <= 1.",
        "observation: with a supplied max_weight that the FIRST batch exceeds, multi_sampling does not update max_weight (len(all_data) == 0), so the returned status bound can be below retained weights and the first batch is thinned later with the wrong ratio; batch-wise constant factors do not bias the sampled density (theorem bound_le_max_weight is stated for max_weight=None, the generate_toy path).",
        "observation: generate_toy/generate_toy_p store the INPUT max_weight in config.max_amplitude (always None), so the bound is never cached between calls (efficiency only).",
        "observation: Hist1D * c with c < 0 returns negative errors (theorem hist_smul: error >= 0 exactly for c >= 0).",
        "observation: LinearInterp slopes just above epsilon=1e-10 lose ~|b|/|k| ulps in solve (out of range by ~1e-7 in the worst generated case); counted as ill-conditioned through the tolerance, not reported.",
        "observation: AdaptiveBound on heavily tied data can leave a sub-bin empty and np.percentile([]) raises IndexError (numpy >= 2); such cases are counted and skipped.",
    ]


def replay(ctx, payload):
    r = payload.get("replay") or {}
    kind = r.get("kind")
    if kind not in CHECKS:
        print("replay file names a broken obligation, not a failing input: %s" % str(payload.get("broken"))[:3000])
        return 1
    bad = CHECKS[kind](r["param"])
    key = payload.get("key")
    same = [b for b in bad if b[0] == key] or bad
    for k, what in same[:5]:
        print("still failing: [%s] %s" % (k, what))
    print("REPLAY: property C20 key %s %s" % (key, "still violated" if same else "not reproduced on this tree"))
    return 1 if same else 0


MANIFEST = {
    "text": "Lean theorems (all inputs / all histories): every event retained by the multi_sampling model has weight <= the bound it was accepted with and (starting without a supplied bound) <= the running max_weight, in every reachable state (induction over batches); the GenTest counter equals the number of retained events, every request is >= 1, and with force the result has exactly N events whenever the loop exits; LinearInterp: for strictly increasing nodes, node values >= 0, int_all > 0 and u in [0,1), integral(solve u) = u*int_all and x0 <= solve u <= x_last (the code's root of the in-bin quadratic is the one with k t + b >= 0; flat bins separately), integral(x0) = 0; BWGenerator: integral(solve u) - integral(m_min) = u*int_all and m_min <= solve u <= m_max; adaptive bins: for monotone cut chains every value of [c0,ck) lies in exactly one half-open bin and nested splitting (multi_split_bound / loop_split_bound) preserves 'exactly one box' (all depths, induction); weighted histogram: sum of bins = sum of in-range weights, sum of squared errors = sum of in-range squared weights (list induction), + - x scalar act linearly on contents and in quadrature on errors. NEW (C20e, all samples incl. ties, all n >= 1): np.percentile is MODELLED (templates/Percentile.lean.in) and its order-statistic contract proved: #{x < p} <= floor((N-1)k/n)+1 <= #{x <= p}, numpy's two _lerp branches are the same linear interpolation, the model's sort is a sort; the k-th cut of single_split_bound (percentile + 1e-6) has between floor((N-1)k/n)+1 and floor((N-1)k/n)+1+m values below it, and populations_near_equal: every bin of single_split_bound(data, n, (lb, rb)) holds between floor((N-1)/n)-m and floor((N-1)/n)+1+m values, m = the largest number of values in a window [v, v+1e-6) (m = 1 for 1e-6-separated values: floor or ceil of N/n up to +-1; with ties the deviation is bounded by the multiplicity), without assuming a monotone cut chain; the hypotheses are inherited by the masked sub-sample of every bin (sub_sample_inherits), two-level statement nested_populations, and nested_multiplies_out: along every root-to-leaf path of a nested splitting the leaf population lies between the multiplied-out bounds (induction over the depth). NEW (C20f): accept_interval (a proposal of weight w with bound M is accepted exactly for u < w/M), accept_count_grid (on the grid u = j/K exactly ceil(K w/M) of K grid points accept, every K; fraction within 1/K of w/M), thinning_ratio / thinning_count_grid (retained exactly for u < m/M, ceil(K m/M) grid points), step_growth (multi_sampling thins with book-keeping bound / new acceptance bound and books M*1.05), composed_acceptance (through every linked bound history the interval lengths multiply to w * prod(c) / M_final), composed_acceptance_proportional, composed_acceptance_history (only the final bound and the product of book-keeping factors matter, not the order in which the bound grew). NEW (C20g): hist_scale_to_conserves (after scale_to, sum(count) x mean bin width equals that of the target; equal binning: equal totals), scale_to = multiplication of contents and errors by one factor, get_bin_weight = mean bin width (telescoping), chi2 >= 0, chi2 invariant under scale_to / * c (c != 0), ndf counts the finite-error bins. NEW (C20h, the toy DRIVERS; every keyword path = importance_f given or not, config.max_amplitude absent / None / any number, force, every max_N, every stream, every number of loop iterations): toy_exact_count (generate_toy, generate_toy2, generate_toy_p with force return exactly N events whenever the loop exits; without force at least N and the same sampler state), toy_accepted_le_bound (every returned event has importance-divided weight <= the bound in force when it was accepted, also when config.max_amplitude holds a bound that is too small, across all bound updates and restarts), toy_bound_le_final (on the paths that start without a bound also bound <= final status bound), toy_passed_bound and toy_config_bound_unchanged (what the wrappers do with bounds: pass config.max_amplitude only without importance_f, and never store the bound that was found), toy_restart_discards (growth branch of multi_sampling: EVERY earlier event is re-judged with a fresh uniform, survives exactly when rnd*M_new/M_old < 1, order kept, counter reset, bound M_new*1.05) with toy_no_restart_keeps, toy_supplied_bound_first_batch / toy_supplied_bound_too_small_witness (the first batch under a supplied bound never raises the bookkeeping value: the status can report a bound below a retained weight), charge_assignment (gen_random_charge: one charge per proposal, each +1 or -1, +1 exactly for u > 0.5, all +1 without random), charge_paths (which of generate_toy(gen_p) / generate_toy() / generate_toy_p draw and store charges, by include_charge), charge_stays_attached and mask_columns (data_mask keeps every column with its event: the charge column of the accepted batch is the charge of the accepted proposal indices), generate_toy_o: toy_o_exact_count, toy_o_accepted_le_bound (bound 1.1*max of the own batch), toy_o_no_restart, and the DEFECT toy_o_never_exits (all histories: once the request is 0 the loop never exits) with the kernel-checked history toy_o_never_exits_witness (N=2, max_N=1, first proposal accepted) and toy_o_zero_request_witness, toy_o_request_positive_of_rejection (the released formula is >= 1 once a proposal was rejected), toy_o_requests_positive_fixed (patched formula: every request in every reachable state >= 1); applications.gen_data: gen_data_weight_bound (every kept MC index is a valid row with 0 < ampsq <= ampsq_max, for every non-negative uniform stream), gen_data_count (whenever it returns: exactly Ndata events = Ndata-Nbg signal + Nbg background, Nbg < Ndata), gen_data_raises_without_signal, gen_data_layout (rows[p::Npar] of the event-major file is particle p of every event, every Npar, every event list) and rows_count (gen_mc / gen_data write Npar rows per event).",
    "note": "Models: templates/Sampler.lean.in and templates/Interp.lean.in (one text, Float instance executed bit-for-bit against multi_sampling/single_sampling2/GenTest, LinearInterp, BWGenerator, Hist1D arithmetic on every run; R instance carries the theorems), Model/Bins.lean and Model/Hist.lean (polymorphic, executed at Rat on the exact rational value of every double against AdaptiveBound and Hist1D.histogram). Inputs of the models, not verified: proposal batches, weights, uniform streams, np.percentile cut points, np.histogram edges, np.digitize (modelled as linear scan). templates/InterpND.lean.in models InterpND/InterpNDHist after the fix commits (table with cell volumes, build_coeffs numbering, decode arithmetic, generate from supplied uniforms) and is executed bit-for-bit against them; theorems interp_nd_in_range, interp_nd_selected_entry, interp_nd_bin_mass (iterated integral of the multilinear interpolant, all dimensions), build_coeffs_numbering, within_cell_inverse_cdf, within_cell_mixture. templates/Percentile.lean.in (np.percentile 'linear' + single_split_bound cut points; Float instance bit-for-bit against np.percentile on random, tie-heavy and 1e-6-clustered samples and against every single_split_bound call inside nested AdaptiveBound runs) and templates/HistOps.lean.in (scale_to, chi2, ndf, get_count, get_bin_weight; Float instance bit-for-bit on dyadic data) are new; the wrappers ConfigLoader.generate_toy / generate_toy_p are replayed bit-for-bit through the Sampler model on recorded streams (stub configuration; they must start multi_sampling without a bound). The search checks populations_near_equal, the cut-count contract and the partition on every single_split_bound call of real nested runs (ties included), scale_to / chi2 / ndf against their definitions, and the multi_sampling statements through the wrappers. C20h: templates/Toy.lean.in (imports the Sampler template) models the drivers line by line; its Float instance is executed on every run against generate_toy / generate_toy2 / generate_toy_p (stub configuration over all keyword paths, and a real three-body ConfigLoader model with pass-through recording of the real random streams: requests, bounds, counters, efficiency, retained (batch, index) list, passed bound, config.max_amplitude afterwards — exact), generate_toy_o + single_sampling (requests and returned events; stalled histories must stall identically), gen_random_charge (incl. u = 0.5 and its float32 neighbours), the charge handed to cal_angle on each path, and applications.gen_data on gen_mc files (stub amplitude column and the real amplitude: number of passes, bound of the uniform stream, the (signal|background, row) list of the output before the recorded shuffle, raise for Ndata <= Nbg) plus the row stride. The search checks the same statements with model-independent oracles (count, weight <= bound, accept rule, re-judging trigger and retained set, start bound, charges per event, gen_data accept rule / counts / file layout / returned momenta = file rows, cal_phsp_max -> cal_max_weight once before the first batch). Listed finding generate_toy_o:zero-request (patch fixes/C20-fix_generate_toy_o_zero_request.diff): generate_toy_o never returns once its request size is 0 (all proposals so far accepted, one event missing, n < 100; needs max_N < N); reported by the search with a stable key, proved in Lean for the released formula, and the check passes on the patched tree as well (the model switches to the patched formula). Validated on the implementation only: on-shell / momentum conservation of the real-model toys, np.random.shuffle in gen_data being an event permutation, Poisson_fluc, the phase-space generator construction (get_phsp_p_generator, build_phsp_chain, perfer_node, SDP generators: not modelled), the uniformity/independence of tf.random.uniform behind 'the sample follows the density' (chi-square at p<=1e-9, thorough tier only; its algebraic core is C20f). Known finding on the unchanged tree (listed, patch fixes/C20-fix_linear_interp_sqrt_clip.diff): LinearInterp.solve returns NaN when u*int_all is within rounding distance of the cumulative value at a zero-density node of a sloped bin (sqrt of a rounded-negative radicand); the model mirrors the unclipped code, the correspondence skips exactly the points where the model is NaN, so the check passes on both the unfixed and the fixed tree. Two more listed findings (patch fixes/C20-fix_interp_nd_cell_volume.diff): the cumulative tables of InterpND and InterpNDHist omit the cell volume, so on NON-uniform grids generate() does not follow the object's own density (exact on uniform grids, the only use in the repository); the search compares the table with the integral of the density on uniform and non-uniform grids and keys the non-uniform failures separately. Fourth listed finding (patch fixes/C20-fix_interp_nd_corner_order.diff): in >= 2 dimensions InterpND numbers corner weights and corner sampling shapes with opposite bit order, so within a cell the sample follows the interpolant with transposed corner values; found by the thorough chi-square test, reproduced deterministically by the search (selected corner vs corner the point is drawn towards).",
    "technique": "Lean 4 proof (induction over batches / cut lists / event lists / sorted samples / split depth, exact counting on uniform grids, real algebra of the in-bin quadratic, tan/arctan) + bit-exact differential correspondence with recorded random streams + model-independent oracle search",
}
