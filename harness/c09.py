"""C09 — uncertainties are first-order propagated from the inverse Hessian."""
import contextlib
import io
import math

import numpy as np

import common as C

PID = "C09"
DRIVER = [("C09", "TfPwaV.Gen.ErrPropF", "ErrPropF.handle"), ("C09x", "TfPwaV.Gen.ErrCtxF", "ErrCtxF.handle"), ("C09y", "TfPwaV.Gen.ErrEntryF", "ErrEntryF.handle")]
LEAN_TARGETS = ["TfPwaV.Props.C09", "TfPwaV.Props.C09b", "TfPwaV.Props.C09c", "TfPwaV.Props.C09d", "TfPwaV.Gen.ErrPropF", "TfPwaV.Gen.ErrCtxF", "TfPwaV.Gen.ErrEntryF"]
PROP_MODULES = ["TfPwaV.Props.C09", "TfPwaV.Props.C09b", "TfPwaV.Props.C09c", "TfPwaV.Props.C09d"]
ALL_MODULES = ["TfPwaV.Proofs.ErrProp", "TfPwaV.Proofs.ErrCtx", "TfPwaV.Proofs.ErrEntry", "TfPwaV.Props.C09", "TfPwaV.Props.C09b", "TfPwaV.Props.C09c", "TfPwaV.Props.C09d", "TfPwaV.Proofs.ScalarR",
               "TfPwaV.Gen.ErrPropR", "TfPwaV.Gen.ErrCtxR", "TfPwaV.Gen.ErrEntryR"]
ASSUMPTIONS = [
    "IEEE double evaluation of the same formula text (Lean Float vs python/numpy) agrees to 1e-12 relative per NumberError operator and 1e-9 (relative to the largest entry) for the fit-fraction assembly; libm pow/log/exp differences are inside that tolerance",
    "NumberError theorems assume non-negative input errors and the domain where the derivative exists (positive base for x**y with uncertain or fractional exponent and for log, non-zero divisor; a negative base is covered for exponents >= 1 only); Real.rpow is the model of python's float power on that domain",
    "apply()/cal_err() without grad use a central difference: proved exact for polynomials of degree <= 2, = f'(x) + c3 dx^2 on cubics, and for every differentiable f equal to (f'(x+t)+f'(x-t))/2 with 0<t<dx, hence within L*dx*sigma of the propagation when f' is L-Lipschitz on [x-dx,x+dx] (applyFD_rule_remainder); the O(dx^2) order for general C^3 functions is validated by the search, not proved",
    "inputs of the fit-fraction assembly (per-batch integrals and tape gradients of the amplitude), dy/dx of the sympy Bound functions, the per-variable Jacobian blocks returned by tf.GradientTape.jacobian/gradient inside ParamsTrans, numpy.linalg.inv / pinv / eig are parameters of the model with their contracts as theorem hypotheses (right inverse; eigenvalue with a non-zero eigenvector; block p entry a = d y_a / d x_p); that the runtime meets the contracts is validated by finite differences / exact integer Jacobians on the implementation (search, correspondence), not proved (TensorFlow autodiff: see C07)",
    "the gradient of a batch sum is taken to be the sum of the per-event gradients (linearity of the tape) in evalBatch; numpy's sum(0) over the batch axis and python's left-to-right sum are the same real number",
    "force_pos_def / force_pos_def_minuit2 for a NON-positive-definite Hessian are modelled (all three branches, numpy view aliasing of `diag`, eigenvalues of the triangular p = its diagonal) and compared with the code, but nothing is claimed about the repaired matrix (outside the property's hypothesis); with numpy >= 2 np.linalg.eig returns complex dtype, the comparison uses the real parts when all imaginary parts are exactly 0",
    "cal_hesse_correct: the whole loop is in the model and compared bit-for-bit with the code on a synthetic FCN over a real VarsManager; the theorems are per entry (one pass of the loop body on the list state, every n / point / step) — the fold over corr_params x variables (which entries are visited, symmetry of the result) is validated by the search on quadratics, not proved",
    "entry points (templates/ErrEntry.lean.in, Props/C09d.lean): the VarsManager is a list of slots, one per distinct tf.Variable (tied names share a slot, fixed variables are slots outside `tr`); the name -> slot map is computed by the harness from the real VarsManager, not by the model. In the theorems the likelihood (value / gradient / Hessian as functions of ALL stored values), numpy.linalg.inv / pinv / eig and the bound maps x2y / y2x / dydx are arbitrary functions; statements about sqrt(diag(H^-1)) carry the contracts (right inverse, eigenvalue with eigenvector, positive definite) as hypotheses. In the executable Float instance inv = pinv = Gauss-Jordan without pivoting and eig = a positive list (all entry-point correspondence cases are positive definite; the non-PD repair paths are compared through the C09x ops fpd / minuit2 / che), the bound maps are the three default sympy forms of tf_pwa.variable.Bound written out by hand (a different default form shows up as a correspondence break)",
    "state after cal_hesse_correct with a non-empty correct_params (hcLastPoint: the argument of the last fcn(x)) is a closed form in real arithmetic, compared with the code to 1e-9, not derived from the loop; with the default correct_params the state is exact",
    "entry-point search: the reference is sqrt(diag(H_fd^-1)) with H_fd the central second difference of the plain likelihood VALUE at `params` applied to the entry state (synthetic quadratic+quartic likelihood over a real VarsManager, 2e-5 relative; 2e-4 for 3-point with bounds) and the central difference of FCN.nll_grad on a fitted real three-resonance ConfigLoader model (2e-3 relative). method='3-point' inverts the FIT-SPACE Hessian D H D + diag(g y''), which is D H D only where the gradient vanishes: with bounds the requested point is the exact minimum of the synthetic likelihood / the fit result of the real model; non-stationary points are used with free parameters only. If the toy fit of the real model does not reach a regular minimum the real-model cases are skipped with a note (not observed for seeds 0..3)",
    "ConfigLoader.get_params_error is driven on the synthetic likelihood as an unbound function over a stub object that provides exactly the attributes it touches (vm, inv_he, get_all_data, get_fcn, fit_params); the real-model cases call it on a real ConfigLoader",
]

# --------------------------------------------------------------------------------------------------
# NumberError operator table: name, kind, implementation, plain float function, model variants, key
# kind: NN both NumberError, NS NumberError op scalar, SN scalar op NumberError, N unary
# --------------------------------------------------------------------------------------------------
OPS = [
    ("add", "NN", lambda A, B: A + B, lambda x, y: x + y, ["add"], "err_num:__add__:NumberError"),
    ("addS", "NS", lambda A, c: A + c, lambda x, c: x + c, ["addS"], "err_num:__add__:scalar"),
    ("sub", "NN", lambda A, B: A - B, lambda x, y: x - y, ["sub"], "err_num:__sub__:NumberError"),
    ("subS", "NS", lambda A, c: A - c, lambda x, c: x - c, ["subS"], "err_num:__sub__:scalar"),
    ("neg", "N", lambda A: -A, lambda x: -x, ["neg"], "err_num:__neg__"),
    ("mul", "NN", lambda A, B: A * B, lambda x, y: x * y, ["mul"], "err_num:__mul__:NumberError"),
    ("mulS", "NS", lambda A, c: A * c, lambda x, c: x * c, ["mulS", "mulSLegacy"], "err_num:__mul__:scalar"),
    ("div", "NN", lambda A, B: A / B, lambda x, y: x / y, ["div", "divLegacy"], "err_num:__truediv__:NumberError"),
    ("divS", "NS", lambda A, c: A / c, lambda x, c: x / c, ["divS", "divSLegacy"], "err_num:__truediv__:scalar"),
    ("pow", "NN", lambda A, B: A ** B, lambda x, y: x ** y, ["pow", "powLegacy"], "err_num:__pow__:NumberError"),
    ("powS", "NS", lambda A, c: A ** c, lambda x, c: x ** c, ["powS"], "err_num:__pow__:scalar"),
    ("rpow", "SN", lambda A, c: c ** A, lambda x, c: c ** x, ["rpow", "rpowLegacy"], "err_num:__rpow__"),
    ("log", "N", lambda A: A.log(), math.log, ["log"], "err_num:log"),
    ("exp", "N", lambda A: A.exp(), math.exp, ["exp"], "err_num:exp"),
]

# the witnesses of the `…_violates` theorems in Props/C09.lean, replayed on tf_pwa.err_num first
WITNESSES = [
    ("mulS", (1.0, 1.0, -2.0)),
    ("divS", (1.0, 1.0, -2.0)),
    ("div", (1.0, 1.0, -2.0, 0.0)),
    ("pow", (1.0, 0.0, 2.0, 1.0)),
    ("rpow", (1.0, 1.0, 2.0)),
    # further input classes of the same two log-argument defects (nan / negative error)
    ("pow", (2.0, 0.1, -2.0, 0.0)),
    ("rpow", (0.5, 1.0, 2.0)),
    ("rpow", (-1.0, 1.0, 2.0)),
]


def _mag(rng, signed=True, mags=(0.01, 0.3, 1.0, 3.0, 30.0)):
    v = float(rng.choice(mags)) * float(rng.uniform(0.5, 1.5))
    if signed and rng.random() < 0.5:
        v = -v
    return v


def _err(rng, v):
    k = int(rng.integers(0, 4))
    return [0.0, 1e-3 * abs(v), 0.1 * float(rng.uniform(0.1, 1.0)), float(rng.uniform(0.2, 2.0))][k]


# central value exactly 0 (a fraction / asymmetry compatible with zero): a rule written in RELATIVE errors divides by it
# (seeded change C09-05: __truediv__ as |a/b| sqrt((ea/a)^2 + (eb/b)^2) gives nan / ZeroDivisionError for a = 0)
ZERO_VALUE_CASES = [
    ("div", (0.0, 0.3, 2.0, 0.4)), ("div", (0.0, 0.3, -2.0, 0.0)), ("div", (-0.0, 0.25, 0.5, 0.1)),
    ("mul", (0.0, 0.3, 2.0, 0.4)), ("mul", (2.0, 0.4, 0.0, 0.3)), ("mul", (0.0, 0.3, 0.0, 0.2)),
    ("add", (0.0, 0.3, 0.0, 0.4)), ("sub", (0.0, 0.3, 1.5, 0.4)),
    ("divS", (0.0, 0.3, -2.0)), ("mulS", (0.0, 0.3, -2.0)), ("exp", (0.0, 0.3)),
]


def gen_ne_cases(rng, n):
    """(op, args) with args = (a, ea[, b, eb | c]); negative values / scalars, zero errors and zero central values included."""
    out = [(op, args) for op, args in WITNESSES] + [(op, args) for op, args in ZERO_VALUE_CASES if op in _OPD]
    for name, kind, _, _, _, _ in OPS:
        for i in range(n):
            if name in ("pow", "log"):
                a = _mag(rng, signed=False, mags=(0.05, 0.5, 1.0, 2.0, 8.0))
            elif name == "powS":
                a = _mag(rng, signed=(i % 4 == 3), mags=(0.05, 0.5, 1.0, 2.0, 8.0))
            elif name in ("exp", "rpow"):
                a = float(rng.uniform(-3, 3))
            else:
                a = _mag(rng)
            ea = _err(rng, a)
            if kind == "N":
                if ea == 0.0:
                    ea = 0.25
                out.append((name, (a, ea)))
            elif kind == "NN":
                b = float(rng.uniform(-3, 3)) if name == "pow" else _mag(rng)
                eb = _err(rng, b)
                w = i % 3
                if w == 1:
                    eb = 0.0
                    ea = ea or 0.2
                elif w == 2:
                    ea = 0.0
                    eb = eb or 0.3
                elif ea == 0.0 and eb == 0.0:
                    ea = 0.1
                out.append((name, (a, ea, b, eb)))
            else:
                if name == "powS":
                    c = float(rng.integers(1, 5)) if a < 0 else float(rng.uniform(-3, 3))
                elif name == "rpow":
                    c = _mag(rng, signed=False, mags=(0.2, 0.7, 1.0, 2.0, 5.0))
                else:
                    c = _mag(rng)
                if ea == 0.0:
                    ea = 0.25
                out.append((name, (a, ea, c)))
    return out


_OPD = {o[0]: o for o in OPS}


def run_impl_op(name, args):
    from tf_pwa.err_num import NumberError
    _, kind, impl, _, _, _ = _OPD[name]
    A = NumberError(args[0], args[1])
    if kind == "N":
        r = impl(A)
    elif kind == "NN":
        r = impl(A, NumberError(args[2], args[3]))
    else:
        r = impl(A, args[2])
    return float(r.value), float(r.error)


def fd_expected(name, args):
    """value and sqrt(sum (df/dx_k sigma_k)^2) from central differences of the plain float function."""
    _, kind, _, f, _, _ = _OPD[name]

    def h_of(x):
        return 1e-5 * max(abs(x), 1e-2)

    a, ea = args[0], args[1]
    if kind == "N":
        h = h_of(a)
        d = (f(a + h) - f(a - h)) / (2 * h)
        return f(a), abs(d) * ea
    if kind == "NN":
        b, eb = args[2], args[3]
        ha, hb = h_of(a), h_of(b)
        da = (f(a + ha, b) - f(a - ha, b)) / (2 * ha)
        db = (f(a, b + hb) - f(a, b - hb)) / (2 * hb)
        return f(a, b), math.sqrt((da * ea) ** 2 + (db * eb) ** 2)
    c = args[2]
    h = h_of(a)
    d = (f(a + h, c) - f(a - h, c)) / (2 * h)
    return f(a, c), abs(d) * ea


def _close(x, y, rel, absol=0.0):
    if not (math.isfinite(x) and math.isfinite(y)):
        return x == y or (math.isnan(x) and math.isnan(y))
    return abs(x - y) <= rel * max(abs(x), abs(y)) + absol


# --------------------------------------------------------------------------------------------------
# real amplitude for the fit-fraction checks (built once per run)
# --------------------------------------------------------------------------------------------------
_CFG = {
    "data": {"dat_order": ["B", "C", "D"]},
    "decay": {"A": [["R_BC", "D"], ["R_BD", "C"], ["R_CD", "B"]], "R_BC": ["B", "C"], "R_BD": ["B", "D"], "R_CD": ["C", "D"]},
    "particle": {
        "$top": {"A": {"J": 1, "P": -1, "spins": [-1, 1], "mass": 4.6}},
        "$finals": {"B": {"J": 1, "P": -1, "mass": 2.00698}, "C": {"J": 1, "P": -1, "mass": 2.01028}, "D": {"J": 0, "P": -1, "mass": 0.13957}},
        "R_BC": {"J": 1, "Par": 1, "m0": 4.16, "g0": 0.1},
        "R_BD": {"J": 1, "Par": 1, "m0": 2.43, "g0": 0.3},
        "R_CD": {"J": 1, "Par": 1, "m0": 2.42, "g0": 0.03},
    },
}


def quiet():
    return contextlib.redirect_stdout(io.StringIO())


def ff_setup(ctx):
    if getattr(ctx, "_c09_ff", None) is not None:
        return ctx._c09_ff
    import copy
    import tensorflow as tf
    from tf_pwa.config_loader import ConfigLoader
    rng = np.random.Generator(np.random.Philox(ctx.seed + 909))
    np.random.seed(ctx.seed + 9)
    tf.random.set_seed(ctx.seed + 9)
    with quiet():
        config = ConfigLoader(copy.deepcopy(_CFG))
        amp = config.get_amplitude()
        nev = 240 if ctx.quick else 1500
        phsp = config.generate_phsp(nev)
    n = len(amp.vm.trainable_vars)
    x0 = rng.uniform(-1.5, 1.5, size=n)
    amp.vm.set_all(list(x0))
    res = [str(i) for i in amp.res]
    ctx._c09_ff = {"nev": nev, "config": config, "amp": amp, "phsp": phsp, "n": n, "x0": x0, "res": res, "rng": rng, "batch": nev // 3 + 1}
    return ctx._c09_ff


def spd(rng, n, scale=0.01):
    a = rng.normal(size=(n, n))
    return scale * (a @ a.T / n + 0.05 * np.eye(n))


def ff_pieces(ff, res):
    """V-independent inputs of the assembly in the code's order."""
    out = [float(ff.cached_int_total)] + [float(x) for x in np.asarray(ff.cached_grad_total)]
    for i in range(len(res)):
        for j in range(i, -1, -1):
            name = res[i] if i == j else (res[i], res[j])
            out.append(float(ff.cached_int[name]))
            out += [float(x) for x in np.asarray(ff.cached_grad[name])]
    return out


def ff_names(res):
    out = []
    for i in range(len(res)):
        out.append(res[i])
        for j in range(i - 1, -1, -1):
            out.append((res[i], res[j]))
    return out + ["sum_diag"]


# --------------------------------------------------------------------------------------------------
# correspondence
# --------------------------------------------------------------------------------------------------

def correspond(ctx, res):
    from tf_pwa.err_num import NumberError, cal_err
    rng = np.random.Generator(np.random.Philox(ctx.seed + 9))
    lines, tags = [], []

    def add(tag, line):
        tags.append(tag)
        lines.append(line)

    H = lambda xs: " ".join(C.f2h(x) for x in xs)  # noqa: E731

    # (a) NumberError operators -------------------------------------------------------------------
    nper = 300 if ctx.quick else 20000
    cases = gen_ne_cases(rng, nper)
    impl_ne = []
    nskip = 0
    for k, (name, args) in enumerate(cases):
        try:
            iv = run_impl_op(name, args)
        except (OverflowError, ZeroDivisionError, ValueError):
            impl_ne.append(None)
            nskip += 1
            continue
        impl_ne.append(iv)
        for var in _OPD[name][4]:
            add(("ne", k, var), "C09 ne %s %s" % (var, H(args)))
    # apply with / without grad
    ap_cases = []
    for k in range(60 if ctx.quick else 2000):
        a, ea = float(rng.uniform(-3, 3)), float(rng.uniform(0.01, 1.0))
        r = NumberError(a, ea).apply(math.sin, math.cos)
        ap_cases.append(("applyG", (a, ea, math.sin(a), math.cos(a)), (float(r.value), float(r.error))))
        cs = [float(x) for x in rng.uniform(-2, 2, size=4)]
        dx = float(rng.choice([1e-5, 1e-3, 0.1]))
        poly = lambda x, cs=cs: cs[0] + cs[1] * x + cs[2] * x * x + cs[3] * x * x * x  # noqa: E731
        r = NumberError(a, ea).apply(poly, dx=dx)
        ap_cases.append(("applyFDpoly", (a, ea, dx, *cs), (float(r.value), float(r.error))))
    for k, (op, args, _) in enumerate(ap_cases):
        add(("ap", k), "C09 ne %s %s" % (op, H(args)))
    # cal_err with a supplied gradient
    ce_cases = []
    g3 = lambda x, y, z: x * y + math.sin(z) * x  # noqa: E731
    dg3 = lambda x, y, z: (y + math.sin(z), x, math.cos(z) * x)  # noqa: E731
    for k in range(60 if ctx.quick else 2000):
        vals = [float(v) for v in rng.uniform(-3, 3, size=3)]
        errs = [float(e) for e in rng.uniform(0.01, 1.0, size=3)]
        mask = [bool(b) for b in rng.integers(0, 2, size=3)]
        if not any(mask):
            mask[k % 3] = True
        ops = [NumberError(v, e) if m else v for v, e, m in zip(vals, errs, mask)]
        r = cal_err(g3, *ops, grad=dg3)
        ce_cases.append((list(dg3(*vals)), [e if m else 0.0 for e, m in zip(errs, mask)], float(r.error), float(r.value) - g3(*vals)))
        add(("ce", k), "C09 calerr 3 %s" % H(ce_cases[-1][0] + ce_cases[-1][1]))

    # (b) fit fractions on a real amplitude -------------------------------------------------------
    from tf_pwa.applications import fit_fractions
    from tf_pwa.fitfractions import FitFractions
    S = ff_setup(ctx)
    amp, phsp, n, rs = S["amp"], S["phsp"], S["n"], S["res"]
    V = spd(rng, n)
    with quiet():
        ff = FitFractions(amp, rs)
        ff.integral(phsp, batch=S["batch"])
        fr_new, er_new = ff.get_frac(V)
        fr_old, er_old = fit_fractions(amp, phsp, V, {}, batch=S["batch"], res=rs, method="old")
        ff2 = fit_fractions(amp, phsp, V, {}, batch=S["batch"], res=rs, method="new")
        fr_new2, er_new2 = ff2.get_frac()
    S["ff"] = ff
    pieces = ff_pieces(ff, rs)
    add(("ff",), "C09 getfrac %d %d %s" % (len(rs), n, H(list(V.flatten()) + pieces)))

    # (c) trans_error_matrix ----------------------------------------------------------------------
    from tf_pwa.variable import VarsManager
    te_cases = []
    with quiet():
        vm = VarsManager()
        for nm in "abcde":
            vm.add_real_var(nm, value=0.5)
        vm.set_bound({"a": (0.0, 2.0), "b": (None, 1.0), "c": (-1.0, None)})
    for k in range(4 if ctx.quick else 40):
        xv = rng.uniform(-2, 2, size=5)
        Vx = spd(rng, 5, 1.0)
        Vy = np.array(vm.trans_error_matrix(Vx, xv))
        d = [float(vm.bnd_dic[nm].get_dydx(xv[i])) if nm in vm.bnd_dic else 1.0 for i, nm in enumerate(vm.trainable_vars)]
        te_cases.append((xv, Vx, Vy, d))
        add(("te", k), "C09 transerr 5 %s" % H(d + list(Vx.flatten())))
    ctx._c09_vm = vm

    # (d) Hesse errors ----------------------------------------------------------------------------
    from tf_pwa.applications import cal_hesse_error
    he_cases = []
    for k in range(20 if ctx.quick else 300):
        m = int(rng.integers(1, 7))
        Hm = spd(rng, m, 50.0)

        class _F:  # stands for FCN: only nll_grad_hessian is used
            def nll_grad_hessian(self, params, Hm=Hm):
                import tensorflow as tf
                return 0.0, np.zeros(len(Hm)), tf.constant(Hm)

        with quiet():
            herr, inv = cal_hesse_error(_F(), {}, check_posi_def=True, save_npy=False)
        he_cases.append((Hm, list(herr), np.array(inv)))
        add(("he", k), "C09 hesse %s" % H(list(np.diag(inv))))
    config = S["config"]
    Vc = spd(rng, n)
    old_inv = getattr(config, "inv_he", None)
    config.inv_he = Vc
    with quiet():
        perr = config.get_params_error(using_cached=True)
    config.inv_he = old_inv
    add(("pe",), "C09 hesse %s" % H(list(np.diag(Vc))))

    # ---- run the model --------------------------------------------------------------------------
    out = ctx.model.query(lines)
    if "bad-op" in out:
        res.broke("model driver bad-op", lines[out.index("bad-op")][:200])
        return
    ans = {t: [C.h2f(x) for x in o.split()] for t, o in zip(tags, out)}

    # NumberError: which variant does the tree implement?
    REL = 1e-12
    mism = {}
    variant = {}
    nne = 0
    for name, _, _, _, variants, _ in OPS:
        bad = {v: [] for v in variants}
        for k, (nm, args) in enumerate(cases):
            if nm != name or impl_ne[k] is None:
                continue
            nne += 1
            for v in variants:
                mv = ans[("ne", k, v)]
                if not (_close(mv[0], impl_ne[k][0], REL, 1e-300) and _close(mv[1], impl_ne[k][1], REL, 1e-300)):
                    bad[v].append({"op": name, "args": list(args), "impl": list(impl_ne[k]), "model_" + v: mv})
        ok = [v for v in variants if not bad[v]]
        if ok:
            variant[name] = ok[0]
        else:
            variant[name] = None
            mism[name] = {v: {"n": len(bad[v]), "first": bad[v][0]} for v in variants}
    for name, d in mism.items():
        res.broke("correspondence ErrPropF.NE.%s vs tf_pwa.err_num (neither patched nor unpatched text)" % name, d)
        ctx.suspect = True
    legacy = sorted(nm for nm, v in variant.items() if v and v.endswith("Legacy"))
    if legacy:
        res.notes.append("working tree implements the UNPATCHED text of NumberError operators %s (model variant …Legacy, refuted by the …_violates theorems); fix_err_num.diff not applied" % legacy)
    else:
        res.notes.append("working tree implements the patched text of all NumberError operators (fix_err_num.diff applied)")
    ctx._c09_variant = variant
    nbad = 0
    first = None
    for k, (op, args, iv) in enumerate(ap_cases):
        mv = ans[("ap", k)]
        if not (_close(mv[0], iv[0], REL, 1e-300) and _close(mv[1], iv[1], 1e-9, 1e-300)):
            nbad += 1
            first = first or {"op": op, "args": list(args), "impl": list(iv), "model": mv}
    if nbad:
        res.broke("correspondence ErrPropF.NE.applyG/applyFD vs NumberError.apply", {"n": nbad, "first": first})
    nbad, first = 0, None
    for k, (g, e, ie, dv) in enumerate(ce_cases):
        mv = ans[("ce", k)]
        if not (_close(mv[0], ie, REL, 1e-300) and dv == 0.0):
            nbad += 1
            first = first or {"grad": g, "errs": e, "impl": ie, "model": mv, "value_diff": dv}
    if nbad:
        res.broke("correspondence ErrPropF.calErr vs tf_pwa.err_num.cal_err", {"n": nbad, "first": first})

    # fit fractions
    names = ff_names(rs)
    mv = ans[("ff",)]
    mfr = dict(zip(names, mv[0::2]))
    mer = dict(zip(names, mv[1::2]))
    sc_f = max(abs(v) for v in mfr.values()) + 1e-300
    sc_e = max(abs(v) for v in mer.values()) + 1e-300
    ffbad = []
    if list(fr_new.keys()) != names:
        ffbad.append({"what": "dict order / keys of get_frac", "impl": [str(k) for k in fr_new.keys()], "model": [str(k) for k in names]})
    for label, fr, er in (("FitFractions.get_frac", fr_new, er_new), ("fit_fractions(method='old')", fr_old, er_old),
                          ("fit_fractions(method='new').get_frac", fr_new2, er_new2)):
        for nm in names:
            if nm == "sum_diag" and nm not in fr:
                continue
            if nm not in fr or nm not in er:
                ffbad.append({"what": label, "missing": str(nm)})
                continue
            if not (abs(float(fr[nm]) - mfr[nm]) <= 1e-9 * sc_f and abs(float(er[nm]) - mer[nm]) <= 1e-9 * sc_e):
                ffbad.append({"what": label, "name": str(nm), "impl": [float(fr[nm]), float(er[nm])], "model": [mfr[nm], mer[nm]]})
    if ffbad:
        res.broke("correspondence ErrPropF.getFrac vs tf_pwa fit fractions", {"n": len(ffbad), "first": ffbad[:3]})

    # trans_error_matrix
    nbad, first = 0, None
    for k, (xv, Vx, Vy, d) in enumerate(te_cases):
        mvv = np.array(ans[("te", k)]).reshape(5, 5)
        if not np.all(np.abs(mvv - Vy) <= 1e-13 * (np.abs(Vy) + 1e-300) + 1e-300):
            nbad += 1
            first = first or {"x": list(xv), "dydx": d, "impl": Vy.tolist(), "model": mvv.tolist()}
    if nbad:
        res.broke("correspondence ErrPropF.transErrorMatrix vs VarsManager.trans_error_matrix", {"n": nbad, "first": first})

    # Hesse errors
    nbad, first = 0, None
    for k, (Hm, herr, inv) in enumerate(he_cases):
        mvv = ans[("he", k)]
        if len(mvv) != len(herr) or not all(_close(x, y, 1e-14) for x, y in zip(mvv, herr)):
            nbad += 1
            first = first or {"H": Hm.tolist(), "impl": herr, "model": mvv}
    mvv = ans[("pe",)]
    if list(perr.keys()) != list(amp.vm.trainable_vars) or not all(_close(x, float(y), 1e-14) for x, y in zip(mvv, perr.values())):
        nbad += 1
        first = first or {"what": "get_params_error(using_cached=True)", "impl": {k: float(v) for k, v in perr.items()}, "model": mvv}
    if nbad:
        res.broke("correspondence ErrPropF.hesseError vs cal_hesse_error / get_params_error", {"n": nbad, "first": first})

    nneg = sum(1 for nm, a in cases if (len(a) == 3 and a[2] < 0) or (len(a) == 4 and a[2] < 0) or a[0] < 0)
    res.coverage.update({
        "traces_validated_against_impl": len(lines),
        "evaluations": len(lines),
        "distinct_nontrivial": int(nne),
        "rule": "seeded NumberError operands (values 0.01..30 of both signs, errors 0 / 1e-3 relative / O(0.1) / O(1), either or both operands uncertain, negative scalars, bases < 1 for rpow) for all 14 operators + apply/cal_err; FitFractions.get_frac, fit_fractions old/new on a real 3-resonance spin-1 amplitude (%d parameters, %d phase-space events, %d batches) with a random SPD covariance; trans_error_matrix with two-sided / upper / lower sympy bounds; cal_hesse_error on random SPD Hessians n=1..6; get_params_error(using_cached). non-trivial = NumberError cases with an uncertain operand that evaluated without overflow" % (n, S["nev"], 3),
        "exhaustive": False,
        "ne_cases": len(cases),
        "ne_cases_negative_operand": int(nneg),
        "ne_overflow_skipped": nskip,
        "ne_variant_implemented": variant,
        "fit_fraction_entries_compared": 3 * len(names) - 1,
    })
    res.samples += [{"op": lines[k][:160], "model": out[k][:120]} for k in (0, 3, len(cases))]

    # the code around the rules: cal_hesse_correct, force_pos_def, cal_hesse_error flags, ParamsTrans, batches
    import c09_ctx
    c09_ctx.correspond_ctx(ctx, res, S)
    # the entry points that report parameter uncertainties (templates/ErrEntry.lean.in)
    import c09_entry
    c09_entry.correspond_entry(ctx, res, S)


# --------------------------------------------------------------------------------------------------
# search: the statement itself on the implementation, oracle = finite differences
# --------------------------------------------------------------------------------------------------

def _ne_bad(name, args):
    """(class, description) if the implementation's (value, error) is not the first-order propagation, else None."""
    try:
        ev = fd_expected(name, args)
    except (OverflowError, ZeroDivisionError, ValueError):
        return None
    if not all(math.isfinite(x) for x in ev):
        return None
    try:
        iv = run_impl_op(name, args)
    except (OverflowError, ZeroDivisionError, ValueError) as e:
        return "raises", "raises %s: %s" % (type(e).__name__, e)
    if not all(math.isfinite(x) for x in iv):
        return "not-finite", "value/error not finite: %r; sqrt(J V J^T) = %r" % (iv, ev[1])
    sig = max(args[1], args[3] if len(args) == 4 else 0.0)
    tol = 1e-6 * abs(ev[1]) + 1e-8 * (abs(ev[0]) + 1.0) * sig
    if iv[1] < 0:
        return "negative-error", "error is negative: %r (value %r); sqrt(J V J^T) = %r" % (iv[1], iv[0], ev[1])
    if not abs(iv[1] - ev[1]) <= tol:
        return "magnitude", "error %r but sqrt(sum (df/dx_k sigma_k)^2) = %r by finite differences (value %r)" % (iv[1], ev[1], iv[0])
    if not _close(iv[0], ev[0], 1e-12, 1e-300):
        return "value", "value %r but plain float function gives %r" % (iv[0], ev[0])
    return None


def check_ne_case(name, args):
    """None if fine; else (class, description). For two uncertain operands a wrong magnitude is attributed to the
    operand whose term is wrong (the first one is tested alone with the second made exact)."""
    r = _ne_bad(name, args)
    if r and r[0] == "magnitude" and len(args) == 4:
        a, ea, b, eb = args
        r1 = _ne_bad(name, (a, ea, b, 0.0)) if ea > 0 else None
        return ("first-operand-term" if r1 else "second-operand-term"), r[1]
    return r


def search(ctx, res):
    from tf_pwa.err_num import NumberError, cal_err
    rng = np.random.Generator(np.random.Philox(ctx.seed + 99))
    hard = (not ctx.quick) or ctx.suspect
    # (1) NumberError operators -------------------------------------------------------------------
    cases = gen_ne_cases(rng, 300 if not hard else 5000)
    reported = {}
    nck = 0
    for name, args in cases:
        why = check_ne_case(name, args)
        nck += 1
        if why:
            key = _OPD[name][5] + ":" + why[0]
            reported[key] = reported.get(key, 0) + 1
            if reported[key] <= 2:
                res.fail(key, "NumberError %s%r: %s" % (name, tuple(args), why[1]), {"kind": "ne", "op": name, "args": list(args)})
    # apply / cal_err
    for k in range(100 if not hard else 2000):
        a, ea = float(rng.uniform(-3, 3)), float(rng.uniform(0.01, 1.0))
        for label, r in (("grad", NumberError(a, ea).apply(math.sin, math.cos)), ("numeric", NumberError(a, ea).apply(math.sin))):
            exp = abs(math.cos(a)) * ea
            if not (r.error >= 0 and abs(r.error - exp) <= 1e-6 * exp + 1e-8 * ea and r.value == math.sin(a)):
                res.fail("err_num:apply:" + label, "NumberError(%r,%r).apply(sin) -> %r +- %r, expected error %r" % (a, ea, r.value, r.error, exp),
                         {"kind": "apply", "a": a, "ea": ea, "mode": label})
                break
        vals = [float(v) for v in rng.uniform(-3, 3, size=3)]
        errs = [float(e) for e in rng.uniform(0.01, 1.0, size=3)]
        mask = [bool(b) for b in rng.integers(0, 2, size=3)]
        if not any(mask):
            mask[k % 3] = True
        g3 = lambda x, y, z: x * y + math.sin(z) * x  # noqa: E731
        dg3 = lambda x, y, z: (y + math.sin(z), x, math.cos(z) * x)  # noqa: E731
        ops = [NumberError(v, e) if m else v for v, e, m in zip(vals, errs, mask)]
        exp = math.sqrt(sum((d * (e if m else 0.0)) ** 2 for d, e, m in zip(dg3(*vals), errs, mask)))
        for label, r in (("grad", cal_err(g3, *ops, grad=dg3)), ("numeric", cal_err(g3, *ops))):
            if not (r.error >= 0 and abs(r.error - exp) <= 1e-6 * exp + 1e-8 and abs(r.value - g3(*vals)) <= 1e-12 * (1 + abs(r.value))):
                res.fail("err_num:cal_err:" + label, "cal_err(x*y+sin(z)*x, %r, errs %r, uncertain %r) -> %r +- %r, expected error %r" % (vals, errs, mask, r.value, r.error, exp),
                         {"kind": "cal_err", "vals": vals, "errs": errs, "mask": mask, "mode": label})
                break
    res.coverage["search_ne_cases"] = nck

    # (2) fit fractions: finite differences of the fraction itself --------------------------------
    from tf_pwa.applications import fit_fractions
    from tf_pwa.fitfractions import FitFractions
    S = ff_setup(ctx)
    amp, phsp, n, rs, x0 = S["amp"], S["phsp"], S["n"], S["res"], S["x0"]
    names = ff_names(rs)
    r = n if hard else 4
    U = np.linalg.qr(rng.normal(size=(n, n)))[0][:r]  # orthonormal directions (rows)
    lam = rng.uniform(0.002, 0.02, size=r)
    Vlow = (U.T * lam) @ U  # PSD, rank r:  g V g = sum_k lam_k (g.u_k)^2
    with quiet():
        ff = S.get("ff")
        if ff is None:
            ff = FitFractions(amp, rs)
            ff.integral(phsp, batch=S["batch"])
        fr, er = ff.get_frac(Vlow)
        _, gfr = ff.get_frac_grad()
        fr_old, er_old = fit_fractions(amp, phsp, Vlow, {}, batch=S["batch"], res=rs, method="old")
        D = {nm: np.zeros(r) for nm in names}
        hstep = 1e-4
        ffd = FitFractions(amp, rs)
        try:
            for k in range(r):
                vals = []
                for sgn in (1.0, -1.0):
                    amp.vm.set_all(list(x0 + sgn * hstep * U[k]))
                    ffd.integral(phsp, batch=S["batch"], no_grad=True)
                    f1, _ = ffd.get_frac_grad()
                    vals.append({nm: float(f1[nm]) for nm in names})
                for nm in names:
                    D[nm][k] = (vals[0][nm] - vals[1][nm]) / (2 * hstep)
        finally:
            amp.vm.set_all(list(x0))
    nff = 0
    for nm in names:
        kind = "sum_diag" if nm == "sum_diag" else ("diag" if isinstance(nm, str) else "interference")
        exp = math.sqrt(float(np.sum(lam * D[nm] ** 2)))
        gu = U @ np.asarray(gfr[nm], dtype=float)
        scale = float(np.max(np.abs(D[nm]))) + 1e-6
        nff += 1
        if not np.all(np.abs(gu - D[nm]) <= 2e-5 * scale + 1e-7):
            res.fail("fitfractions:get_frac_grad:" + kind,
                     "gradient of fit fraction %s along random directions: code %r, finite difference of the fraction %r" % (str(nm), gu.tolist(), D[nm].tolist()),
                     {"kind": "ff", "name": str(nm), "seed": ctx.seed})
        tol = 2e-5 * (exp + math.sqrt(float(np.max(lam))) * scale) + 1e-8
        if not (float(er[nm]) >= 0 and abs(float(er[nm]) - exp) <= tol):
            res.fail("fitfractions:get_frac:" + kind,
                     "FitFractions.get_frac error of %s = %r, sqrt(J V J^T) with finite-difference J = %r" % (str(nm), float(er[nm]), exp),
                     {"kind": "ff", "name": str(nm), "seed": ctx.seed})
        if nm != "sum_diag":
            if nm not in er_old or not (float(er_old[nm]) >= 0 and abs(float(er_old[nm]) - exp) <= tol and abs(float(fr_old[nm]) - float(fr[nm])) <= 1e-9):
                res.fail("applications:fit_fractions:" + kind,
                         "fit_fractions(method='old') error of %s = %r, sqrt(J V J^T) with finite-difference J = %r" % (str(nm), er_old.get(nm), exp),
                         {"kind": "ff", "name": str(nm), "seed": ctx.seed})
    sd = sum(float(fr[x]) for x in rs)
    if abs(float(fr["sum_diag"]) - sd) > 1e-12 * (1 + abs(sd)):
        res.fail("fitfractions:get_frac:sum_diag", "sum_diag %r != sum of diagonal fractions %r" % (float(fr["sum_diag"]), sd), {"kind": "ff", "name": "sum_diag"})
    res.coverage["search_fit_fraction_quantities"] = nff
    res.coverage["search_fit_fraction_directions"] = int(r)

    # (3) trans_error_matrix vs J V J^T with finite-difference J -----------------------------------
    vm = getattr(ctx, "_c09_vm", None)
    if vm is None:
        from tf_pwa.variable import VarsManager
        with quiet():
            vm = VarsManager()
            for nm in "abcde":
                vm.add_real_var(nm, value=0.5)
            vm.set_bound({"a": (0.0, 2.0), "b": (None, 1.0), "c": (-1.0, None)})
    for k in range(4 if not hard else 40):
        xv = rng.uniform(-2, 2, size=5)
        Vx = spd(rng, 5, 1.0)
        Vy = np.array(vm.trans_error_matrix(Vx, xv))
        J = np.zeros((5, 5))
        for i, nm in enumerate(vm.trainable_vars):
            if nm in vm.bnd_dic:
                h = 1e-5
                J[i, i] = (vm.bnd_dic[nm].get_x2y(xv[i] + h) - vm.bnd_dic[nm].get_x2y(xv[i] - h)) / (2 * h)
            else:
                J[i, i] = 1.0
        E = J @ Vx @ J.T
        if not np.all(np.abs(Vy - E) <= 1e-6 * (np.abs(E) + np.max(np.abs(E)))):
            res.fail("variable:trans_error_matrix", "trans_error_matrix(V, x=%r) = %r but J V J^T with finite-difference J = dy/dx is %r" % (xv.tolist(), Vy.tolist(), E.tolist()),
                     {"kind": "te", "x": xv.tolist(), "V": Vx.tolist()})
            break

    # (4) Hesse errors: sqrt(diag(H^-1)) for SPD H -------------------------------------------------
    from tf_pwa.applications import cal_hesse_error
    import tensorflow as tf
    for k in range(20 if not hard else 300):
        m = int(rng.integers(1, 7))
        Hm = spd(rng, m, 50.0)

        class _F:
            def nll_grad_hessian(self, params, Hm=Hm):
                return 0.0, np.zeros(len(Hm)), tf.constant(Hm)

        with quiet():
            herr, inv = cal_hesse_error(_F(), {}, check_posi_def=True, save_npy=False)
        exp = np.sqrt(np.diag(np.linalg.solve(Hm, np.eye(m))))
        if not (len(herr) == m and np.all(np.abs(np.array(herr) - exp) <= 1e-9 * exp) and np.all(np.abs(Hm @ inv - np.eye(m)) <= 1e-9)):
            res.fail("applications:cal_hesse_error", "cal_hesse_error for SPD H=%r returns %r, sqrt(diag(H^-1)) = %r" % (Hm.tolist(), herr, exp.tolist()),
                     {"kind": "he", "H": Hm.tolist()})
            break

    # (5) ParamsTrans.get_error / get_error_matrix vs finite-difference Jacobian -------------------
    from tf_pwa.variable import VarsManager
    with quiet():
        vm2 = VarsManager()
        for nm in ("p", "q", "r", "s"):
            vm2.add_real_var(nm, value=0.5)
    pt_rep = {}
    for k in range(3 if not hard else 30):
        xv = rng.uniform(0.3, 2.0, size=4) * rng.choice([-1.0, 1.0], size=4)
        vm2.set_all(list(xv))
        Vp = spd(rng, 4, 0.1)

        def fn(p, q, r_, s, m=np):
            return [p * q + m.sin(r_) / s, m.exp(0.3 * p) * s - q * q, p + 2.0 * s]

        J = np.zeros((3, 4))
        for i in range(4):
            h = 1e-6
            xp, xm = xv.copy(), xv.copy()
            xp[i] += h
            xm[i] -= h
            J[:, i] = (np.array(fn(*xp)) - np.array(fn(*xm))) / (2 * h)
        E = J @ Vp @ J.T
        with quiet():
            with vm2.error_trans(Vp) as pt:
                ys = fn(pt["p"], pt["q"], pt["r"], pt["s"], m=tf)
                yv = tf.stack(ys)
            e_list = pt.get_error(ys, keep=True)
            e_vec = pt.get_error(yv, keep=True)
            e_mat_l = pt.get_error_matrix(ys, keep=True)
            e_mat = pt.get_error_matrix(yv, keep=True)
        exp = np.sqrt(np.diag(E))
        got = np.array([float(e) for e in e_list])
        rp = {"kind": "pt", "x": xv.tolist(), "V": Vp.tolist()}
        if not (np.all(np.abs(got - exp) <= 1e-6 * exp) and np.all(np.abs(np.array(e_vec) - exp) <= 1e-6 * exp)):
            if pt_rep.setdefault("e", 0) == 0:
                res.fail("params_trans:get_error", "ParamsTrans.get_error %r (list) / %r (vector) at x=%r, finite-difference sqrt(diag(J V J^T)) = %r" % (got.tolist(), np.array(e_vec).tolist(), xv.tolist(), exp.tolist()), rp)
            pt_rep["e"] += 1
        if not np.all(np.abs(np.array(e_mat_l) - E) <= 1e-6 * np.max(np.abs(E))):
            if pt_rep.setdefault("l", 0) == 0:
                res.fail("params_trans:get_error_matrix:list", "ParamsTrans.get_error_matrix([y1,y2,y3]) = %r at x=%r, finite-difference J V J^T = %r" % (np.array(e_mat_l).tolist(), xv.tolist(), E.tolist()), rp)
            pt_rep["l"] += 1
        if not (np.shape(e_mat) == E.shape and np.all(np.abs(np.array(e_mat) - E) <= 1e-6 * np.max(np.abs(E)))):
            if pt_rep.setdefault("t", 0) == 0:
                res.fail("params_trans:get_error_matrix:tensor", "ParamsTrans.get_error_matrix(tf.stack([y1,y2,y3])) = %r at x=%r, finite-difference J V J^T = %r (diagonal must be get_error**2 = %r)" % (np.array(e_mat).tolist(), xv.tolist(), E.tolist(), (got ** 2).tolist()), rp)
            pt_rep["t"] += 1

    # (6) cal_hesse_correct: finite-difference Hessian entries of a quadratic + linear NLL are exact --
    from tf_pwa.applications import cal_hesse_correct
    for k in range(3 if not hard else 30):
        m = int(rng.integers(2, 5))
        Am = spd(rng, m, 300.0)
        bv = rng.normal(size=m)
        xq = rng.normal(size=m)
        nmv = ["v%d" % i for i in range(m)]

        class _VM:
            trainable_vars = nmv

        class _Q:  # stands for FCN: NLL = b.x + x.A.x/2, exact Hessian A (also away from the minimum)
            vm = _VM()

            def get_params(self, nmv=nmv, xq=xq):
                return dict(zip(nmv, xq))

            def __call__(self, x, Am=Am, bv=bv):
                x = np.asarray(x, dtype=float)
                return float(bv @ x + 0.5 * x @ Am @ x)

            def nll_grad_hessian(self, params, m=m):
                return 0.0, np.zeros(m), tf.constant(np.zeros((m, m)))

        with quiet():
            hc = np.array(cal_hesse_correct(_Q(), {}, list(nmv)))
        tol = 1e-5 * np.max(np.abs(Am))
        offd = ~np.eye(m, dtype=bool)
        if not np.all(np.abs(hc - Am)[offd] <= tol):
            res.fail("applications:cal_hesse_correct:off-diagonal", "cal_hesse_correct on NLL = b.x + x.A.x/2 (A=%r, b=%r, x=%r) returns %r" % (Am.tolist(), bv.tolist(), xq.tolist(), hc.tolist()),
                     {"kind": "hc", "A": Am.tolist(), "b": bv.tolist(), "x": xq.tolist()})
            break
        if not np.all(np.abs(np.diag(hc - Am)) <= tol):
            res.fail("applications:cal_hesse_correct:diagonal", "cal_hesse_correct on NLL = b.x + x.A.x/2 with gradient g=%r at x: diagonal %r, exact Hessian diagonal %r (excess = 2 g_i/(3 eps) = %r)" % (
                (bv + Am @ xq).tolist(), np.diag(hc).tolist(), np.diag(Am).tolist(), (2 * (bv + Am @ xq) / 3e-3).tolist()),
                     {"kind": "hc", "A": Am.tolist(), "b": bv.tolist(), "x": xq.tolist()})
            break
    res.coverage["search_cases"] = int(nck + nff)

    import c09_ctx
    c09_ctx.search_ctx(ctx, res, S, hard)
    # the entry points that report parameter uncertainties, at the REQUESTED point (state equal / different, bounds, ties, fixed)
    import c09_entry
    c09_entry.search_entry(ctx, res, S, hard)


def replay(ctx, payload):
    rp = payload.get("replay") or {}
    if rp.get("kind") == "ne":
        C.setup_tf()
        why = check_ne_case(rp["op"], tuple(rp["args"]))
        print("NumberError %s%r: expected (value, sqrt(J V J^T)) = %r -> %s" % (rp["op"], tuple(rp["args"]), fd_expected(rp["op"], tuple(rp["args"])),
                                                                             ("%s: %s" % why) if why else "ok"))
        return 1 if why else 0
    r = C.Result()
    if rp.get("kind") in ("entry", "entry-real"):
        # the entry points that report parameter uncertainties: only that part of the search, with the recorded seed
        C.setup_tf()
        import c09_entry
        if "seed" in rp:
            ctx.seed = rp["seed"]
        c09_entry.search_entry(ctx, r, {}, False)
    else:
        search(ctx, r)
    hit = [f for f in r.failures if f.key == payload.get("key")]
    for f in hit[:3]:
        print(f.what)
    return 1 if hit else 0


MANIFEST = {
    "text": "Lean theorems over the reals (HasDerivAt) for ALL operands: every NumberError operator (add sub neg mul div pow rpow log exp apply, NumberError or plain second operand) returns err = sqrt(sum (df/dx_k)^2 sigma_k^2) >= 0 with the true partial derivatives (op_rule_is_jvj, full statement for the patched text); apply() without grad reports |f'(x) + R| sigma with the explicit remainder R = (f'(x+t)+f'(x-t))/2 - f'(x), |R| <= L dx for L-Lipschitz f', R = c3 dx^2 on cubics (so it is NOT exact: applyFD_cubic_not_exact); cal_err with a supplied gradient is sqrt(J diag(sigma^2) J^T); the fit-fraction gradients g_i/I - (I_i/I) g/I, the interference combination and sum_diag are the derivatives of the fractions along every line in parameter space and the reported error squared is g V g; the accumulated integrals/gradients are independent of the batching (any batch sizes / order: frac_grad_batch_invariant) and the accumulated gradient is the gradient of the accumulated integral; ParamsTrans.get_error_matrix / get_error return J V J^T / sqrt(diag) for the true Jacobian J for list, vector and row-major flattened tensor outputs with the index convention (J V J^T)[a,b] = sum_ij J[a,i] V[i,j] J[b,j] as a theorem, and composed with trans_error_matrix they are the chain rule for f o bound (bound_then_params_trans); trans_error_matrix is J V J^T for the diagonal Jacobian of the bound map; cal_hesse_correct's 5-point and 4-point second differences are exact on every quadratic NLL in every dimension, point, direction and step and return THE second derivative, with explicit remainders 10 p4 eps^2 / (q31+q13) eps^2 on quartics, and put the coordinates back; for a positive-definite Hessian force_pos_def, force_pos_def_minuit2 and cal_hesse_error (every flag combination) return THE unique inverse unchanged, diag(H^-1) > 0 and the errors are its plain roots. ENTRY POINTS (Props/C09d, every likelihood / linear-algebra oracle, every bound map, every VarsManager state, every params as None / dict / FitResult, every method None / correct (any correct_params) / 3-point / hesse, every force_pos): the errors and the error matrix ConfigLoader.get_params_error returns depend on the state held on entry only through set_all(params)(state) (errors_at_requested_point) and not at all when params assigns every stored variable (errors_independent_of_entry_state, via getElem?_setParams: last assignment wins); in the positive-definite case the hesse and default-correct methods return sqrt(diag(H(params)^-1)) with H the oracle AT the requested point; the matrix num_hess_inv_3point inverts has entry (i,j) = central difference of component j of the bound-transformed gradient along coordinate i around the fit-space image of the REQUESTED point and the loop puts x0 back (three_point_is_central_second_difference), which is the Hessian entry exactly for quadratic likelihoods, + c3 eps^2 for quartic ones, within L eps for an L-Lipschitz second derivative; the 3-point errors are |dy/dx| sqrt|V_x,kk| with dy/dx at the requested point and the matrix is dy/dx V_x dy/dx (bound_mapping); state_after: 3-point restores every stored value, hesse / default correct leave the model AT params, using_cached touches nothing and asks no oracle (using_cached without a stored matrix = the code's NameError); the error dict has the trainable variables as keys in order; corr_coef_matrix has entries V_ij/(sigma_i sigma_j) and unit diagonal for a positive diagonal. REFUTED on concrete witnesses: the unpatched scalar mul, div (both forms), pow with uncertain exponent, rpow; the cal_hesse_correct diagonal before f92d030; the get_error_matrix(tensor) assembly before 680c99c; num_hess_inv_3point with x0 read before fcn(params) (three_point_early_violates: it returns the inverse Hessian of the ENTRY state).",
    "note": "Models = templates/ErrProp.lean.in (rules), templates/ErrCtx.lean.in (context: cal_hesse_correct statement sequences and loop, force_pos_def, force_pos_def_minuit2, cal_hesse_error branch, ParamsTrans assembly, batch accumulation) and templates/ErrEntry.lean.in (entry points: get_params_error with method resolution and params unwrapping, cal_hesse_error / cal_hesse_correct / num_hess_inv_3point as statement sequences over an oracle likelihood and a slot-list VarsManager, the text with x0 read early, error dict, corr_coef_matrix), instantiated at R (proofs) and Float (execution). Defective/legacy texts exist next to the current ones; the differential run decides which one the tree implements. Tie to the code: NumberError/cal_err on seeded operands incl. negative values (1e-12); FitFractions.get_frac and fit_fractions old/new on a real spin-1 three-resonance amplitude; per-batch eval_integral pieces vs cached totals; trans_error_matrix with sympy bounds; cal_hesse_error with all flag combinations on PD and indefinite Hessians; force_pos_def in all three branches; cal_hesse_correct over a real VarsManager with a synthetic quadratic+quartic FCN and arbitrary corr_params subsets/orders (bit-exact); the real ParamsTrans on a toy VarsManager with bilinear user functions and integer covariance (J V J^T compared EXACTLY, list / vector / 2x2 tensor / scalar, tape blocks as the model's input); error_trans(trans_error_matrix(V)) vs both sides of the chain-rule identity; ConfigLoader.get_params_error (the real function over a stub object) on a synthetic quadratic+quartic likelihood over real VarsManagers with free / two-sided + upper bounded + fixed + tied / two-sided + lower bounded variables: every method x model state equal to / different from params x dict / FitResult / None / partial dict x force_pos x correct_params: errors, inv_he (1e-8) AND the state left in the VarsManager (exact) vs ErrEntryF, the early-x0 text is run next to the current one and a tree that matches it is reported; using_cached; corr_coef_matrix. Search (model-independent): central differences of the plain float functions; finite differences of the fraction itself along random directions; FD Jacobians for bounds, ParamsTrans (also f o bound, 2x2 tensors, mask_params); exact Hessian of quadratics for cal_hesse_correct subsets; H^-1 for every PD path and flag; batch-size invariance of fractions and errors; reported errors vs sqrt(diag(H_fd(params)^-1)) with an independent central-difference Hessian of the likelihood at params for get_params_error (all methods, states, forms, layouts, params=None, correct_params, non-stationary points) and cal_hesse_error / cal_hesse_correct / num_hess_inv_3point called directly, FitResult.error / save_as fields (error, free_params, hess_inv), and the same on a fitted real three-resonance ConfigLoader model (bounded mass installed / not installed, a fixed width that differs on entry). Still validated only: tape gradients / numpy inverse, pinv, eig / sympy derivatives and inverses meet their contracts; the fold of cal_hesse_correct over corr_params x variables and the state it leaves with non-empty correct_params (closed form hcLastPoint compared to 1e-9); the name -> slot map of tied variables; the O(dx^2) order of the central difference for general C^3 functions; error_print (formatting: checked by the search only — the non-rounding branches verbatim, the printed pair within half a unit of the last digit — not modelled); everything force_pos_def does to a non-positive-definite matrix is compared with the code but not claimed.",
    "technique": "Lean 4 proof over the reals (Mathlib HasDerivAt, uniqueness of derivatives, mean value theorem, finite sums, list inductions) of three templates instantiated at Float for differential correspondence (bit-exact / exact-integer / exact-state where possible), plus refutation theorems for the legacy and seeded texts and finite-difference / exact-oracle search on the implementation (synthetic likelihood over real VarsManagers and a fitted real ConfigLoader model)",
}
