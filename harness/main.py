#!/venv/bin/python
"""./check <Cxx> [--tier quick|thorough] [--replay file] | ./check --setup | ./check --all"""
import argparse
import importlib
import json
import os
import sys
import time
import traceback

sys.path.insert(0, os.path.dirname(os.path.abspath(__file__)))
import common as C  # noqa: E402

ALL = ["C%02d" % i for i in range(1, 21)]


class Ctx:
    def __init__(self, pid, tier):
        self.pid = pid
        self.tier = tier
        self.quick = tier == "quick"
        self.seed = C.seed()
        self.model = C.Model()
        self.suspect = False  # set when a proof obligation / correspondence broke: search harder


def load_prop(pid):
    return importlib.import_module(pid.lower())


def run_check(pid, tier, replay=None):
    t0 = time.time()
    mod = load_prop(pid)
    ctx = Ctx(pid, tier)
    res = C.Result()
    C.setup_tf()

    if replay:
        payload = json.load(open(replay))
        return mod.replay(ctx, payload)

    import instantiate
    instantiate.instantiate_all()
    import gen_main
    gen_main.generate()
    if not os.path.exists(os.path.join(C.GEN, ".translated")):
        # fresh checkout without ./check --setup: other properties' generated tables are imported by the shared driver
        translate_all(skip=pid)

    # 1. translator: regenerate tables from the current /repo
    gen_info = None
    if hasattr(mod, "translate"):
        try:
            gen_info = mod.translate(ctx, res)
        except C.InfraError:
            raise
        except Exception as e:  # the repo function changed shape / raises
            res.broke("translator", "%s: %s" % (type(e).__name__, e))
            C.log(traceback.format_exc())

    # 2. proofs
    targets = list(getattr(mod, "LEAN_TARGETS", []))
    prop_modules = list(getattr(mod, "PROP_MODULES", []))
    build_ok = True
    audit = {"theorems": [], "axioms": {}}
    if targets:
        build_ok, out = C.lake_build(targets + ["TfPwaV"] + C.main_imports())
        if not build_ok:
            errs = [l for l in out.splitlines() if "error" in l.lower()][:20]
            res.broke("lake build " + " ".join(targets), errs)
        else:
            hits = C.grep_forbidden(getattr(mod, "ALL_MODULES", targets))
            if hits:
                res.broke("forbidden construct in proof sources", hits)
            ok, audit = C.axiom_audit(pid, prop_modules)
            if not ok:
                res.broke("axiom audit", {k: audit[k] for k in ("bad", "missing", "raw")})
            if not ctx.quick and prop_modules:
                # thorough tier: independent re-check of the compiled property modules (and everything they import)
                ok2, out2 = C.leanchecker(prop_modules)
                res.coverage["leanchecker"] = {"modules": prop_modules, "ok": ok2, "tail": out2[-300:]}
                if not ok2:
                    res.broke("leanchecker rejected a compiled property module", out2[-2000:])
    if res.broken:
        ctx.suspect = True

    # 3. correspondence: model vs implementation
    if hasattr(mod, "correspond") and build_ok:
        try:
            mod.correspond(ctx, res)
        except C.ModelBroken as e:
            res.broke("model driver", str(e))
        except C.InfraError:
            raise
        except Exception as e:
            res.broke("correspondence harness raised %s" % type(e).__name__, traceback.format_exc()[-3000:])
    if res.broken:
        ctx.suspect = True

    # 4. direct search for a failing input on the implementation
    if hasattr(mod, "search"):
        try:
            mod.search(ctx, res)
        except C.InfraError:
            raise
        except Exception as e:
            res.broke("search harness raised %s" % type(e).__name__, traceback.format_exc()[-3000:])

    # 5. classify
    known = C.load_known(pid)
    known_keys = {k["key"]: k for k in known if k.get("kind") == "finding"}
    unlisted = []
    seen_known = set()
    for f in res.failures:
        if f.key in known_keys:
            if f.key not in seen_known:
                seen_known.add(f.key)
                print("KNOWN-FINDING: property=%s %s" % (pid, known_keys[f.key].get("what", f.what)))
        else:
            unlisted.append(f)
    stale = [k for k in known_keys if k not in seen_known]

    rc = 0
    nviol = 0
    if unlisted:
        f = unlisted[0]
        path = C.write_replay(pid, {"property": pid, "key": f.key, "what": f.what, "replay": f.replay,
                                     "broken": res.broken, "others": [{"key": g.key, "what": g.what} for g in unlisted[1:20]]})
        print("VIOLATION property=%s replay=%s" % (pid, path))
        C.log("  failing input: %s" % f.what)
        rc = 1
        nviol = len(unlisted)
    elif res.broken:
        path = C.write_replay(pid, {"property": pid, "no_failing_input_found": True, "broken": res.broken}, tag="broken")
        print("VIOLATION property=%s replay=%s no-failing-input-found" % (pid, path))
        for b in res.broken:
            C.log("  broken: %s %s" % (b["what"], str(b["detail"])[:1500]))
        rc = 1
        nviol = 1

    nthm = len(audit.get("theorems", []))
    cov = dict(res.coverage)
    cov.setdefault("obligations", max(nthm, 1))
    cov.setdefault("discharged", nthm if build_ok and not any(b["what"].startswith(("lake", "axiom", "forbidden")) for b in res.broken) else 0)
    cov.setdefault("checker_cmd", "cd lean && lake build %s  # + #print axioms on every theorem of %s%s" % (
        " ".join(targets), " ".join(prop_modules), "; lake env leanchecker" if not ctx.quick else ""))
    cov.setdefault("trusted_base", C.TRUSTED_BASE)
    cov.setdefault("samples", res.samples[:8] if res.samples else [{"note": "no samples recorded"}])
    cov["theorems"] = audit.get("theorems", [])
    cov["axioms_used"] = sorted({a for v in audit.get("axioms", {}).values() for a in v})
    cov["generated_tables"] = gen_info
    cov["broken_obligations"] = res.broken
    cov["known_findings_reproduced"] = sorted(seen_known)
    cov["known_findings_stale"] = stale
    cov["notes"] = res.notes
    C.write_evidence(pid, tier, "proof", cov, res.assumptions + getattr(mod, "ASSUMPTIONS", []), time.time() - t0, nviol)
    C.log("[%s] done rc=%d in %.1fs" % (pid, rc, time.time() - t0))
    return rc


def translate_all(skip=None):
    """Run every property's translator (tables extracted from /repo that Lean files import)."""
    for pid in ALL:
        if pid == skip:
            continue
        try:
            mod = load_prop(pid)
        except ModuleNotFoundError:
            continue
        if hasattr(mod, "translate"):
            try:
                mod.translate(Ctx(pid, "quick"), C.Result())
            except Exception:
                C.log(traceback.format_exc())
    with open(os.path.join(C.GEN, ".translated"), "w") as f:
        f.write("ok\n")


def setup():
    """Generate every table from /repo and build the whole Lean project."""
    C.setup_tf()
    import instantiate
    instantiate.instantiate_all()
    import gen_main
    gen_main.generate()
    translate_all()
    targets = []
    for pid in ALL:
        try:
            mod = load_prop(pid)
        except ModuleNotFoundError:
            continue
        targets += getattr(mod, "LEAN_TARGETS", [])
    ok, out = C.lake_build(sorted(set(targets)) + ["TfPwaV"] + C.main_imports())
    if not ok:
        print(out[-5000:])
        return 2
    return 0


def main():
    ap = argparse.ArgumentParser()
    ap.add_argument("pid", nargs="?")
    ap.add_argument("--tier", default=os.environ.get("VERIF_TIER", "quick"))
    ap.add_argument("--replay")
    ap.add_argument("--setup", action="store_true")
    a = ap.parse_args()
    if a.tier not in ("quick", "thorough"):
        a.tier = "quick"
    try:
        if a.setup:
            sys.exit(setup())
        sys.exit(run_check(a.pid, a.tier, a.replay))
    except C.InfraError as e:
        C.log("INFRA: %s" % e)
        sys.exit(2)


if __name__ == "__main__":
    main()
