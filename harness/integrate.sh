#!/bin/sh
# integrate.sh <ID>: copy a builder's deliverables from /tmp/build_<ID> into /verif (development helper)
ID=$1; B=/tmp/build_$ID; cd $B || exit 1
git ls-files --others --exclude-standard | grep -v -E '^(evidence/|replay/|MANIFEST.json|known_findings.jsonl)' | while read f; do
  mkdir -p /verif/$(dirname $f); cp -a $f /verif/$f; echo "copied $f"; done
# modified tracked files other than MANIFEST/evidence
git diff --name-only | grep -v -E '^(evidence/|MANIFEST.json)' | while read f; do echo "MODIFIED tracked: $f"; done
git diff -- lean/Main.lean > /tmp/int_$ID.diff; echo "--- Main.lean lines (convert to DRIVER in harness module):"; grep "^+" /tmp/int_$ID.diff
cd /verif
ls /verif/fix_*.diff 2>/dev/null | while read f; do mv $f /verif/fixes/$ID-$(basename $f); done
[ -f $B/known_findings.jsonl ] && echo "--- proposed known findings:" && cut -c1-300 $B/known_findings.jsonl
