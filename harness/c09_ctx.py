"""C09 (extension): the code around the propagation rules — cal_hesse_correct, force_pos_def(_minuit2),
cal_hesse_error flags, ParamsTrans / error_trans / trans_error_matrix composition, batch accumulation.

Model = templates/ErrCtx.lean.in (driver prefix C09x).  Called from c09.correspond / c09.search."""
import contextlib
import io
import math
import warnings

import numpy as np

import common as C


def quiet():
    return contextlib.redirect_stdout(io.StringIO())


def H(xs):
    return " ".join(C.f2h(float(x)) for x in xs)


def spd(rng, n, scale=0.01):
    a = rng.normal(size=(n, n))
    return scale * (a @ a.T / n + 0.05 * np.eye(n))


# --------------------------------------------------------------------------------------------------
# synthetic FCN over a real VarsManager: c + b.x + x.A.x/2 + sum q_k x_k^4, same operation order as
# ErrCtx.synthNLL (right-nested sums), pure python floats
# --------------------------------------------------------------------------------------------------

def _dot(a, b):
    s = 0.0
    for x, y in zip(reversed(a), reversed(b)):
        s = x * y + s
    return s


def synth_nll(c, b, A, q, x):
    mv = [_dot(row, x) for row in A]
    qt = 0.0
    for qk, xk in zip(reversed(q), reversed(x)):
        qt = qk * (xk * xk * (xk * xk)) + qt
    return c + _dot(b, x) + _dot(mv, x) / 2 + qt


class SynthFCN:
    """what cal_hesse_correct / cal_hesse_error use of an FCN, over a real VarsManager"""

    def __init__(self, vm, c, b, A, q, h0, cubic=None):
        self.vm = vm
        self.cubic = None if cubic is None or not np.any(cubic) else [float(v) for v in cubic]
        self.c, self.b, self.A, self.q, self.h0 = float(c), [float(v) for v in b], [[float(v) for v in r] for r in A], [float(v) for v in q], np.array(h0, dtype=float)
        self.ncall = 0

    def get_params(self, trainable_only=False):
        return self.vm.get_all_dic(trainable_only)

    def __call__(self, x):
        self.ncall += 1
        xs = [float(v) for v in np.asarray(x, dtype=float)]
        v = synth_nll(self.c, self.b, self.A, self.q, xs)
        if self.cubic is not None:  # search only (the model's synthNLL has no cubic term)
            v += sum(t * xk * xk * xk for t, xk in zip(self.cubic, xs))
        return v

    def nll_grad_hessian(self, params=None):
        import tensorflow as tf
        return 0.0, np.zeros(len(self.b)), tf.constant(self.h0.copy())


def make_vm(names, values, bounds=None):
    from tf_pwa.variable import VarsManager
    with quiet():
        vm = VarsManager()
        for nm, v in zip(names, values):
            vm.add_real_var(nm, value=float(v))
        if bounds:
            vm.set_bound(bounds)
    return vm


def hc_case(rng, quartic, nmin=2, nmax=5):
    n = int(rng.integers(nmin, nmax + 1))
    A = spd(rng, n, 300.0)
    b = rng.normal(size=n) * 3.0
    q = rng.uniform(-2, 2, size=n) if quartic else np.zeros(n)
    x0 = rng.normal(size=n)
    h0 = rng.normal(size=(n, n))
    h0 = h0 + h0.T
    k = int(rng.integers(0, n + 1))
    idx = [int(i) for i in rng.permutation(n)[:k]]  # order of corr_params is NOT the order of trainable_vars
    return {"n": n, "c": float(rng.normal()), "b": b, "A": A, "q": q, "x0": x0, "h0": h0, "idx": idx}


def run_hc(case):
    from tf_pwa.applications import cal_hesse_correct
    names = ["v%d" % i for i in range(case["n"])]
    vm = make_vm(names, case["x0"])
    fcn = SynthFCN(vm, case["c"], case["b"], case["A"], case["q"], case["h0"], cubic=case.get("cubic"))
    with quiet():
        h = np.array(cal_hesse_correct(fcn, {}, [names[i] for i in case["idx"]]))
    after = np.array([float(v) for v in vm.get_all_val()])
    return h, after, fcn.ncall


def indefinite(rng, n, kind):
    """symmetric test matrices for force_pos_def: kind 1 = tiny negative eigenvalue (eigenvalue repair), 2 = indefinite"""
    qm = np.linalg.qr(rng.normal(size=(n, n)))[0]
    e = rng.uniform(0.5, 5.0, size=n)
    if kind == 1:
        e[int(rng.integers(0, n))] = -float(rng.uniform(1e-8, 4e-6)) * float(np.max(e))
    else:
        e[int(rng.integers(0, n))] = -float(rng.uniform(0.05, 2.0))
    h = (qm * e) @ qm.T
    return (h + h.T) / 2


def int_spd(rng, n):
    b = rng.integers(-2, 3, size=(n, n)).astype(float)
    return b @ b.T + np.eye(n)


# user functions with integer Jacobians at integer points (linear / bilinear)
def toy_fn(p, q, r, s):
    return [p * q + 2.0 * r, 3.0 * p - s * q, p + 2.0 * s, r * s - p]


def toy_jac(p, q, r, s):
    return np.array([[q, p, 2.0, 0.0], [3.0, -s, 0.0, -q], [1.0, 0.0, 0.0, 2.0], [-1.0, 0.0, s, r]])


# --------------------------------------------------------------------------------------------------
# correspondence
# --------------------------------------------------------------------------------------------------

def correspond_ctx(ctx, res, S):
    import tensorflow as tf
    from tf_pwa.applications import cal_hesse_error, force_pos_def, force_pos_def_minuit2
    from tf_pwa.data import data_split
    from tf_pwa.fitfractions import eval_integral
    rng = np.random.Generator(np.random.Philox(ctx.seed + 9009))
    lines, tags = [], []

    def add(tag, line):
        tags.append(tag)
        lines.append(line)

    # (a) cal_hesse_correct --------------------------------------------------------------------------
    hc = []
    for k in range(8 if ctx.quick else 200):
        case = hc_case(rng, quartic=(k % 2 == 1))
        if k == 0:
            case["idx"] = list(range(case["n"]))[::-1]
        h, after, _ = run_hc(case)
        hc.append((case, h, after))
        n = case["n"]
        body = "%d %d %s %s" % (n, len(case["idx"]), " ".join(str(i) for i in case["idx"]),
                               H([1e-3, case["c"]] + list(case["b"]) + list(case["A"].flatten()) + list(case["q"]) + list(case["h0"].flatten()) + list(case["x0"])))
        add(("hc", k, "cur"), "C09x hc cur " + body)
        add(("hc", k, "legacy"), "C09x hc legacy " + body)

    # (b) force_pos_def / minuit2 --------------------------------------------------------------------
    fpd = []
    nfp = 9 if ctx.quick else 150
    with warnings.catch_warnings():
        warnings.simplefilter("ignore")
        for k in range(nfp):
            n = int(rng.integers(2, 6))
            kind = k % 3
            hm = spd(rng, n, 50.0) if kind == 0 else indefinite(rng, n, kind)
            e, v = np.linalg.eig(hm)
            if np.iscomplexobj(e):  # numpy >= 2.? returns complex dtype always; symmetric input: imaginary parts are exactly 0
                if not np.all(e.imag == 0):
                    continue
                e = e.real
            with quiet():
                out = np.array(force_pos_def(hm.copy()))
            if np.iscomplexobj(out):
                if not np.all(out.imag == 0):
                    continue
                out = out.real
            pinv = np.linalg.pinv(hm)
            fpd.append({"h": hm, "e": e, "v": v, "out": out, "pinv": pinv, "kind": kind})
            add(("fpd", len(fpd) - 1), "C09x fpd %d %s" % (n, H(e)))
            add(("m2", len(fpd) - 1), "C09x minuit2 %d %s" % (n, H(pinv.flatten())))
        # minuit2 directly: positive diagonal (unchanged) and a negative diagonal entry
        m2 = []
        for k in range(6 if ctx.quick else 100):
            n = int(rng.integers(2, 6))
            vm_ = spd(rng, n, 1.0) if k % 2 == 0 else -indefinite(rng, n, 2) * (1.0 if k % 4 == 1 else 1e-3)
            if k % 2 == 1 and np.min(np.diag(vm_)) > 0:
                vm_[0, 0] = -abs(vm_[0, 0])
            with quiet():
                out = np.array(force_pos_def_minuit2(vm_.copy()))
            m2.append((vm_, out))
            add(("m2d", k), "C09x minuit2 %d %s" % (n, H(vm_.flatten())))

        # (c) cal_hesse_error: all flag combinations, PD and non-PD --------------------------------------
        che = []
        for k in range(8 if ctx.quick else 120):
            n = int(rng.integers(1, 6))
            hm = spd(rng, n, 50.0) if (k // 4) % 2 == 0 or n == 1 else indefinite(rng, n, 2)
            cp, fp = bool(k & 1), bool(k & 2)

            class _F:
                def nll_grad_hessian(self, params, hm=hm):
                    return 0.0, np.zeros(len(hm)), tf.constant(hm)

            with quiet():
                herr, inv = cal_hesse_error(_F(), {}, check_posi_def=cp, force_pos=fp, save_npy=False)
                invh = np.linalg.inv(hm)
                eg = np.linalg.eig(invh)[0]
                if np.iscomplexobj(eg):
                    if not np.all(eg.imag == 0):
                        continue
                    eg = eg.real
                fo = np.array(force_pos_def(hm.copy()))
            che.append((hm, cp, fp, list(herr), np.array(inv)))
            add(("che", len(che) - 1), "C09x che %d %d %d %s" % (int(cp), int(fp), n, H(list(invh.flatten()) + list(eg) + list(fo.flatten()) + list(np.linalg.pinv(hm).flatten()))))

    # (d) ParamsTrans with exact integer Jacobians -----------------------------------------------------
    pt_cases = []
    names = ["p", "q", "r", "s"]
    for k in range(4 if ctx.quick else 60):
        xv = rng.integers(-4, 5, size=4).astype(float)
        vm = make_vm(names, xv)
        V = int_spd(rng, 4)
        with quiet():
            with vm.error_trans(V) as pt:
                ys = toy_fn(pt["p"], pt["q"], pt["r"], pt["s"])
                yv = tf.stack(ys)
                yt = tf.reshape(yv, (2, 2))
                y0 = ys[0] * ys[2]
            jac_v = [np.array(j) for j in pt.tape.jacobian(yv, vm.trainable_variables, unconnected_gradients="zero")]
            jac_t = [np.array(j) for j in pt.tape.jacobian(yt, vm.trainable_variables, unconnected_gradients="zero")]
            rows = [[float(g) for g in pt.tape.gradient(y, vm.trainable_variables, unconnected_gradients="zero")] for y in ys]
            g0 = [float(g) for g in pt.tape.gradient(y0, vm.trainable_variables, unconnected_gradients="zero")]
            got = {
                "mat_vec": np.array(pt.get_error_matrix(yv, keep=True)),
                "mat_ten": np.array(pt.get_error_matrix(yt, keep=True)),
                "mat_list": np.array(pt.get_error_matrix(ys, keep=True)),
                "err_vec": np.array(pt.get_error(yv, keep=True)),
                "err_ten": np.array(pt.get_error(yt, keep=True)),
                "err_list": np.array([float(e) for e in pt.get_error(ys, keep=True)]),
                "err_scalar": float(pt.get_error(y0, keep=True)),
            }
        pt_cases.append({"x": xv, "V": V, "got": got, "Jexact": toy_jac(*xv)})
        vflat = list(V.flatten())
        add(("pt", k, "vec"), "C09x pt tensor 4 4 %s" % H([x for j in jac_v for x in j.flatten()] + vflat))
        add(("pt", k, "ten"), "C09x pt tensor 4 4 %s" % H([x for j in jac_t for x in j.flatten()] + vflat))
        add(("pt", k, "legacy"), "C09x pt legacy 4 4 %s" % H([x for j in jac_t for x in j.flatten()] + vflat))
        add(("pt", k, "list"), "C09x pt list 4 4 %s" % H([x for r_ in rows for x in r_] + vflat))
        add(("pt", k, "scalar"), "C09x pts 4 %s" % H(g0 + vflat))

    # (e) bound o params_trans --------------------------------------------------------------------------
    ptb = []
    vm = make_vm(names, [0.5] * 4, bounds={"p": (0.0, 2.0), "q": (None, 1.0), "r": (-1.0, None)})  # sympy solve: ~1 s, built once
    ctx._c09_vmb = vm
    for k in range(3 if ctx.quick else 40):
        xv = rng.uniform(-1.5, 1.5, size=4)
        with quiet():
            vm.set_all(list(xv), val_in_fit=True)
        Vx = spd(rng, 4, 1.0)
        Vy = np.array(vm.trans_error_matrix(Vx, xv))
        d = [float(vm.bnd_dic[nm].get_dydx(xv[i])) if nm in vm.bnd_dic else 1.0 for i, nm in enumerate(vm.trainable_vars)]
        with quiet():
            with vm.error_trans(Vy) as pt:
                ys = toy_fn(pt["p"], pt["q"], pt["r"], pt["s"])
            rows = [[float(g) for g in pt.tape.gradient(y, vm.trainable_variables, unconnected_gradients="zero")] for y in ys]
            M = np.array(pt.get_error_matrix(ys, keep=True))
        ptb.append((xv, Vx, M))
        add(("ptb", k), "C09x ptb 4 4 %s" % H([x for r_ in rows for x in r_] + d + list(Vx.flatten())))

    # (f) batch accumulation on the real amplitude -------------------------------------------------------
    amp, phsp, ff = S["amp"], S["phsp"], S.get("ff")
    acc = None
    if ff is not None:
        with quiet():
            pieces = []
            for d_i in data_split(phsp, S["batch"]):
                w = d_i.get("weight", 1.0)
                i_b, g_b = eval_integral(amp, d_i, var=ff.var, weight=w)
                pieces.append([float(i_b)] + [float(x) for x in g_b])
        acc = (pieces, float(ff.cached_int_total), [float(x) for x in np.asarray(ff.cached_grad_total)])
        add(("acc",), "C09x acc %d %d %s" % (S["n"], len(pieces), H([x for p_ in pieces for x in p_])))

    # ---- run the model ----------------------------------------------------------------------------------
    out = ctx.model.query(lines)
    if "bad-op" in out:
        res.broke("model driver bad-op (ErrCtx)", lines[out.index("bad-op")][:200])
        return
    raw = dict(zip(tags, out))
    ans = {t: [C.h2f(x) for x in o.split()] for t, o in raw.items() if t[0] != "fpd"}

    # cal_hesse_correct: which text does the tree implement?
    bad = {"cur": [], "legacy": []}
    maxdev = 0.0
    for k, (case, h, after) in enumerate(hc):
        n = case["n"]
        sc = float(np.max(np.abs(h))) + 1e-300
        for var in ("cur", "legacy"):
            mv = ans[("hc", k, var)]
            mh = np.array(mv[: n * n]).reshape(n, n)
            dev = float(np.max(np.abs(mh - h))) / sc
            if var == "cur":
                maxdev = max(maxdev, dev)
            if not dev <= 1e-9:
                bad[var].append({"n": n, "corr_params_idx": case["idx"], "x0": case["x0"].tolist(), "impl": h.tolist(), "model_" + var: mh.tolist()})
        if not np.array_equal(after, case["x0"]):
            res.broke("correspondence cal_hesse_correct changed the VarsManager values", {"before": case["x0"].tolist(), "after": after.tolist()})
    if not bad["cur"]:
        hc_variant = "cur"
    elif not bad["legacy"]:
        hc_variant = "legacy"
        res.notes.append("working tree implements the text of cal_hesse_correct BEFORE fix f92d030 (diag5Legacy, refuted by diag5Legacy_violates)")
    else:
        hc_variant = None
        res.broke("correspondence ErrCtxF.hesseCorrect vs tf_pwa.applications.cal_hesse_correct (neither current nor legacy text)",
                  {v: {"n": len(bad[v]), "first": bad[v][0]} for v in bad})
        ctx.suspect = True

    # force_pos_def
    nbad, first = 0, None
    branches = {0: 0, 1: 0, 2: 0}
    for k, cse in enumerate(fpd):
        ws = raw[("fpd", k)].split()
        br = int(ws[0])
        enew = np.array([C.h2f(x) for x in ws[1:]])
        branches[br] += 1
        if br == 0:
            exp = cse["pinv"]
        elif br == 1:
            hh = np.dot(cse["v"], np.dot(np.diag(enew), np.linalg.inv(cse["v"])))
            exp = np.linalg.inv(hh)
            if np.iscomplexobj(exp):
                exp = exp.real
        else:
            n = len(cse["e"])
            exp = np.array(ans[("m2", k)]).reshape(n, n)
        if not (exp.shape == cse["out"].shape and np.all(np.abs(exp - cse["out"]) <= 1e-9 * np.max(np.abs(exp)))):
            nbad += 1
            first = first or {"h": cse["h"].tolist(), "eig": cse["e"].tolist(), "model_branch": br, "impl": cse["out"].tolist(), "model": exp.tolist()}
    if nbad:
        res.broke("correspondence ErrCtxF.forcePosDef vs tf_pwa.applications.force_pos_def", {"n": nbad, "first": first})
    nbad, first = 0, None
    for k, (vm_, o) in enumerate(m2):
        n = len(vm_)
        mv = np.array(ans[("m2d", k)]).reshape(n, n)
        if not np.all(np.abs(mv - o) <= 1e-9 * np.max(np.abs(o))):
            nbad += 1
            first = first or {"V": vm_.tolist(), "impl": o.tolist(), "model": mv.tolist()}
    if nbad:
        res.broke("correspondence ErrCtxF.minuit2 vs tf_pwa.applications.force_pos_def_minuit2", {"n": nbad, "first": first})
    nbad, first = 0, None
    for k, (hm, cp, fp, herr, inv) in enumerate(che):
        n = len(hm)
        mv = ans[("che", k)]
        me, mi = np.array(mv[:n]), np.array(mv[n:]).reshape(n, n)
        if not (np.all(np.abs(me - np.array(herr)) <= 1e-12 * np.abs(me)) and np.all(np.abs(mi - inv) <= 1e-12 * np.max(np.abs(inv)))):
            nbad += 1
            first = first or {"H": hm.tolist(), "check_posi_def": cp, "force_pos": fp, "impl": [herr, inv.tolist()], "model": [me.tolist(), mi.tolist()]}
    if nbad:
        res.broke("correspondence ErrCtxF.calHesseError vs tf_pwa.applications.cal_hesse_error", {"n": nbad, "first": first})

    # ParamsTrans: exact
    nbad, first = 0, None
    legacy_match = 0
    for k, cse in enumerate(pt_cases):
        g = cse["got"]
        E = cse["Jexact"] @ cse["V"] @ cse["Jexact"].T  # integers: exact in double
        mvec, mten, mlist = (ans[("pt", k, v)] for v in ("vec", "ten", "list"))
        mleg = np.array(ans[("pt", k, "legacy")][:16]).reshape(4, 4)
        checks = [
            ("get_error_matrix(vector)", np.array(mvec[:16]).reshape(4, 4), g["mat_vec"]),
            ("get_error_matrix(tensor 2x2)", np.array(mten[:16]).reshape(4, 4), g["mat_ten"]),
            ("get_error_matrix(list)", np.array(mlist[:16]).reshape(4, 4), g["mat_list"]),
            ("get_error(vector)", np.array(mvec[16:]), g["err_vec"].flatten()),
            ("get_error(tensor 2x2)", np.array(mten[16:]), g["err_ten"].flatten()),
            ("get_error(list)", np.array(mlist[16:]), g["err_list"]),
            ("get_error(scalar)", np.array(ans[("pt", k, "scalar")]), np.array([g["err_scalar"]])),
        ]
        if np.array_equal(mleg, g["mat_ten"]) and not np.array_equal(mleg, E):
            legacy_match += 1
        for what, mv, iv in checks:
            exact = mv.ndim == 2
            ok = mv.shape == iv.shape and (np.array_equal(mv, iv) if exact else np.all(np.abs(mv - iv) <= 1e-14 * np.abs(mv)))
            if not ok:
                nbad += 1
                first = first or {"what": what, "x": cse["x"].tolist(), "V": cse["V"].tolist(), "impl": np.asarray(iv).tolist(), "model": mv.tolist()}
        if g["err_ten"].shape != (2, 2):
            nbad += 1
            first = first or {"what": "get_error(tensor) shape", "impl": list(g["err_ten"].shape)}
        if not np.array_equal(np.array(mlist[:16]).reshape(4, 4), E):
            nbad += 1
            first = first or {"what": "model J V J^T vs exact integer Jacobian (tape blocks are not the Jacobian?)", "x": cse["x"].tolist(), "model": mlist[:16], "exact": E.tolist()}
    if legacy_match and legacy_match == len(pt_cases):
        res.notes.append("working tree implements the text of ParamsTrans.get_error_matrix(tensor) BEFORE fix 680c99c (stackFirstReshape, refuted by stackFirstReshape_violates)")
    elif nbad:
        res.broke("correspondence ErrCtxF.jvjT/getErrorVec vs tf_pwa.params_trans.ParamsTrans (exact integer Jacobians)", {"n": nbad, "first": first})
    nbad, first = 0, None
    for k, (xv, Vx, M) in enumerate(ptb):
        mv = ans[("ptb", k)]
        m1, m2_ = np.array(mv[:16]).reshape(4, 4), np.array(mv[16:]).reshape(4, 4)
        sc = np.max(np.abs(M))
        if not (np.all(np.abs(m1 - M) <= 1e-12 * sc) and np.all(np.abs(m2_ - M) <= 1e-12 * sc)):
            nbad += 1
            first = first or {"x": xv.tolist(), "Vx": Vx.tolist(), "impl": M.tolist(), "model J(dVd)J^T": m1.tolist(), "model (Jd)V(Jd)^T": m2_.tolist()}
    if nbad:
        res.broke("correspondence ErrCtxF.jvjT o transErrorMatrix vs error_trans(trans_error_matrix(V))", {"n": nbad, "first": first})
    if acc is not None:
        pieces, tot, gtot = acc
        mv = ans[("acc",)]
        sc = max(abs(x) for x in mv) + 1e-300
        if not (abs(mv[0] - tot) <= 1e-12 * abs(tot) and len(mv) == 1 + len(gtot) and all(abs(x - y) <= 1e-12 * sc for x, y in zip(mv[1:], gtot))):
            res.broke("correspondence ErrCtxF.accum vs FitFractions.integral batch accumulation", {"impl": [tot] + gtot[:4], "model": mv[:5], "batches": len(pieces)})

    res.coverage.update({
        "ctx_lines": len(lines),
        "ctx_hesse_correct_cases": len(hc),
        "ctx_hesse_correct_variant": hc_variant,
        "ctx_hesse_correct_max_rel_dev": maxdev,
        "ctx_force_pos_def_branches": {str(k): v for k, v in branches.items()},
        "ctx_cal_hesse_error_flag_cases": len(che),
        "ctx_params_trans_exact_cases": len(pt_cases),
        "ctx_bound_composition_cases": len(ptb),
        "ctx_batches": len(acc[0]) if acc else 0,
    })
    if "traces_validated_against_impl" in res.coverage:
        res.coverage["traces_validated_against_impl"] += len(lines)
        res.coverage["evaluations"] += len(lines)


# --------------------------------------------------------------------------------------------------
# search (oracles independent of the model)
# --------------------------------------------------------------------------------------------------

def search_ctx(ctx, res, S, hard):
    import tensorflow as tf
    from tf_pwa.applications import cal_hesse_error, force_pos_def, force_pos_def_minuit2
    rng = np.random.Generator(np.random.Philox(ctx.seed + 9099))
    ncase = 0

    # (1) cal_hesse_correct on a quadratic NLL over a real VarsManager: the touched entries are THE Hessian A,
    #     the others keep what nll_grad_hessian returned, the parameters are left alone
    for k in range(6 if not hard else 80):
        case = hc_case(rng, quartic=False)
        # odd cases: separable cubic term sum t_k x_k^3 (both second differences are still exact, diag5_quartic /
        # offdiag4_quartic with p4 = q31 = q13 = 0) so that the Hessian depends on the point: A + diag(6 t_k x_k)
        tcub = rng.uniform(-30, 30, size=case["n"]) if k % 2 == 1 else np.zeros(case["n"])
        case["cubic"] = tcub
        h, after, ncall = run_hc(case)
        n, idx, h0 = case["n"], case["idx"], case["h0"]
        A = case["A"] + np.diag(6.0 * tcub * case["x0"])
        exp = h0.copy()
        for i in idx:
            exp[i, :] = A[i, :]
            exp[:, i] = A[:, i]
        tol = 1e-5 * np.max(np.abs(A))
        ncase += 1
        rp = {"kind": "hcs", "seed": ctx.seed}
        if not np.all(np.abs(h - exp) <= tol):
            wrong = np.argwhere(np.abs(h - exp) > tol).tolist()
            untouched = [w for w in wrong if w[0] not in idx and w[1] not in idx]
            dg = [w for w in wrong if w[0] == w[1] and w[0] in idx]
            key = "applications:cal_hesse_correct:" + ("untouched-entry" if untouched else ("diagonal" if dg and len(dg) == len(wrong) else "off-diagonal"))
            res.fail(key, "cal_hesse_correct(corr_params idx %r of %d) on NLL = c + b.x + x.A.x/2 (+ sum t_k x_k^3 in odd cases) at x=%r: entries %r differ from the exact Hessian / the entries of nll_grad_hessian; got %r, expected %r" % (
                idx, n, case["x0"].tolist(), wrong[:6], h.tolist(), exp.tolist()), rp)
            break
        if not np.array_equal(after, case["x0"]):
            res.fail("applications:cal_hesse_correct:params-changed", "cal_hesse_correct left the VarsManager at %r, before %r" % (after.tolist(), case["x0"].tolist()), rp)
            break
        if not np.allclose(h, h.T, rtol=0, atol=0):
            res.fail("applications:cal_hesse_correct:asymmetric", "cal_hesse_correct returns a non-symmetric matrix %r for symmetric input" % h.tolist(), rp)
            break

    # (2) positive-definite Hessian: force_pos_def / minuit2 / cal_hesse_error (every flag) return THE inverse
    with warnings.catch_warnings():
        warnings.simplefilter("ignore")
        for k in range(12 if not hard else 200):
            m = int(rng.integers(1, 7))
            hm = spd(rng, m, float(rng.choice([0.5, 50.0, 5000.0])))
            exp_inv = np.linalg.solve(hm, np.eye(m))
            ncase += 1
            with quiet():
                r1 = np.array(force_pos_def(hm.copy()))
                r2 = np.array(force_pos_def_minuit2(exp_inv.copy()))
            sc = np.max(np.abs(exp_inv))
            if not np.all(np.abs(r1 - exp_inv) <= 1e-8 * sc):
                res.fail("applications:force_pos_def:pd-changed", "force_pos_def(H) for positive-definite H=%r returns %r, H^-1 = %r" % (hm.tolist(), r1.tolist(), exp_inv.tolist()), {"kind": "pd", "H": hm.tolist()})
                break
            if not np.array_equal(r2, exp_inv):
                res.fail("applications:force_pos_def_minuit2:pd-changed", "force_pos_def_minuit2(V) changes the positive-definite V=%r into %r" % (exp_inv.tolist(), r2.tolist()), {"kind": "pd", "H": hm.tolist()})
                break
            cp, fp = bool(k & 1), bool(k & 2)

            class _F:
                def nll_grad_hessian(self, params, hm=hm):
                    return 0.0, np.zeros(len(hm)), tf.constant(hm)

            with quiet():
                herr, inv = cal_hesse_error(_F(), {}, check_posi_def=cp, force_pos=fp, save_npy=False)
            e = np.sqrt(np.diag(exp_inv))
            if not (len(herr) == m and np.all(np.abs(np.array(herr) - e) <= 1e-8 * e) and np.all(np.abs(np.array(inv) - exp_inv) <= 1e-8 * sc)):
                res.fail("applications:cal_hesse_error:flags", "cal_hesse_error(check_posi_def=%r, force_pos=%r) for positive-definite H=%r returns errors %r, sqrt(diag(H^-1)) = %r" % (cp, fp, hm.tolist(), herr, e.tolist()),
                         {"kind": "pd", "H": hm.tolist(), "check_posi_def": cp, "force_pos": fp})
                break

    # (3) ParamsTrans: 2x2 tensor output, composition with bounds, mask_params — vs finite differences
    names = ["p", "q", "r", "s"]

    def fnp(p, q, r_, s, m=np):
        return [p * q + m.sin(r_) / s, m.exp(0.3 * p) * s - q * q, p + 2.0 * s, r_ * s * p]

    vm = getattr(ctx, "_c09_vmb", None) or make_vm(names, [0.5] * 4, bounds={"p": (0.0, 2.0), "q": (None, 1.0), "r": (-1.0, None)})
    for k in range(3 if not hard else 30):
        xv = rng.uniform(-1.2, 1.2, size=4)
        with quiet():
            vm.set_all(list(xv), val_in_fit=True)
        yv0 = np.array([float(v) for v in vm.get_all_val()])
        Vx = spd(rng, 4, 0.1)
        Vy = np.array(vm.trans_error_matrix(Vx, xv))

        def g_of_x(x):
            y = [vm.bnd_dic[nm].get_x2y(x[i]) if nm in vm.bnd_dic else x[i] for i, nm in enumerate(vm.trainable_vars)]
            return np.array(fnp(*y))

        Jg = np.zeros((4, 4))
        Jf = np.zeros((4, 4))
        for i in range(4):
            hh = 1e-6
            xp, xm = xv.copy(), xv.copy()
            xp[i] += hh
            xm[i] -= hh
            Jg[:, i] = (g_of_x(xp) - g_of_x(xm)) / (2 * hh)
            yp, ym = yv0.copy(), yv0.copy()
            yp[i] += hh
            ym[i] -= hh
            Jf[:, i] = (np.array(fnp(*yp)) - np.array(fnp(*ym))) / (2 * hh)
        E = Jg @ Vx @ Jg.T
        with quiet():
            with vm.error_trans(Vy) as pt:
                ys = fnp(pt["p"], pt["q"], pt["r"], pt["s"], m=tf)
                yt = tf.reshape(tf.stack(ys), (2, 2))
                with pt.mask_params({"q": 0.75}):
                    ym_ = vm.read("p") * vm.read("q") + vm.read("s")
            Mt = np.array(pt.get_error_matrix(yt, keep=True))
            et = np.array(pt.get_error(yt, keep=True))
            em = float(pt.get_error(ym_, keep=True))
        ncase += 1
        rp = {"kind": "ptx", "x": xv.tolist(), "Vx": Vx.tolist()}
        sc = np.max(np.abs(E))
        if not (Mt.shape == (4, 4) and np.all(np.abs(Mt - E) <= 2e-6 * sc)):
            res.fail("params_trans:bound-composition", "error_trans(trans_error_matrix(Vx, x)).get_error_matrix(2x2 tensor) = %r at x=%r; J Vx J^T with the finite-difference Jacobian of f(bound(x)), flattened row-major, = %r" % (Mt.tolist(), xv.tolist(), E.tolist()), rp)
            break
        if not (et.shape == (2, 2) and np.all(np.abs(et.flatten() - np.sqrt(np.diag(E))) <= 2e-6 * np.sqrt(sc))):
            res.fail("params_trans:get_error:tensor2d", "get_error(2x2 tensor) = %r, sqrt(diag(J V J^T)) reshaped = %r" % (et.tolist(), np.sqrt(np.diag(E)).reshape(2, 2).tolist()), rp)
            break
        # masked parameter: value 0.75 is used, it carries no uncertainty: y = p*0.75 + s
        gm = np.array([0.75, 0.0, 0.0, 1.0])
        expm = math.sqrt(float(gm @ Vy @ gm))
        if not (abs(float(ym_) - (yv0[0] * 0.75 + yv0[3])) <= 1e-12 and abs(em - expm) <= 1e-9 * expm):
            res.fail("params_trans:mask_params", "inside mask_params({'q': 0.75}): p*q+s = %r +- %r, expected %r +- %r (q fixed, no uncertainty from q)" % (float(ym_), em, yv0[0] * 0.75 + yv0[3], expm), rp)
            break
        if vm.mask_vars:
            res.fail("params_trans:mask_params:restore", "mask_vars not restored after mask_params: %r" % (vm.mask_vars,), rp)
            break

    # (4) batch invariance of fractions and their errors on the real amplitude
    from tf_pwa.applications import fit_fractions
    from tf_pwa.fitfractions import FitFractions
    amp, phsp, rs, n = S["amp"], S["phsp"], S["res"], S["n"]
    V = spd(rng, n)
    nev = S["nev"]
    batches = [None, nev // 2 + 7] if not hard else [None, nev // 2 + 7, 37, nev - 1]
    outs = []
    with quiet():
        for bsz in batches:
            f1 = FitFractions(amp, rs)
            f1.integral(phsp, batch=bsz)
            fr, er = f1.get_frac(V)
            outs.append(("FitFractions.integral(batch=%r)" % bsz, fr, er))
        fr_o, er_o = fit_fractions(amp, phsp, V, {}, batch=batches[1], res=rs, method="old")
        outs.append(("fit_fractions(method='old', batch=%r)" % batches[1], fr_o, er_o))
        fr_o2, er_o2 = fit_fractions(amp, phsp, V, {}, batch=nev // 3 + 1, res=rs, method="old")
        outs.append(("fit_fractions(method='old', batch=%r)" % (nev // 3 + 1), fr_o2, er_o2))
    ref = outs[0]
    scf = max(abs(float(v)) for v in ref[1].values())
    sce = max(abs(float(v)) for v in ref[2].values())
    for label, fr, er in outs[1:]:
        ncase += 1
        badn = [str(nm) for nm in fr if nm in ref[1] and not (abs(float(fr[nm]) - float(ref[1][nm])) <= 1e-9 * scf and abs(float(er[nm]) - float(ref[2][nm])) <= 1e-9 * sce)]
        missing = [str(nm) for nm in ref[1] if nm not in fr and nm != "sum_diag"]
        if badn or missing:
            nm0 = (badn + missing)[0]
            res.fail("fitfractions:batch-invariance", "%s differs from %s for %r (e.g. %s: %r +- %r vs %r +- %r)" % (
                label, ref[0], badn + missing, nm0, *[float(d.get(_key(nm0, d), float("nan"))) for d in (fr, er, ref[1], ref[2])]), {"kind": "batch", "seed": ctx.seed})
            break
    res.coverage["search_ctx_cases"] = int(ncase)


def _key(s, d):
    for k in d:
        if str(k) == s:
            return k
    return s
