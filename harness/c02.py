"""C02 — the density does not depend on unphysical bookkeeping conventions (chain order, reference chain for the
alignment of final-state helicities, align_ref / random_z / center_mass / only_left_angle)."""
import copy
import itertools
import json
import math

import numpy as np

import common as C

PID = "C02"
DRIVER = [("C02", "TfPwaV.Model.Align", "Align.handle"), ("C02a", "TfPwaV.Gen.AlignF", "AlignF.handle"),
          ("C02w", "TfPwaV.Gen.SL2CF", "SL2CF.handle"), ("C02r", "TfPwaV.Gen.RouteRestF", "RouteRestF.handle")]
LEAN_TARGETS = ["TfPwaV.Props.C02", "TfPwaV.Props.C02b", "TfPwaV.Props.C02c", "TfPwaV.Props.C02d", "TfPwaV.Props.C02e", "TfPwaV.Props.C02f", "TfPwaV.Gen.AlignF",
                "TfPwaV.Gen.SU2F", "TfPwaV.Gen.SL2CF", "TfPwaV.Gen.RouteRestF"]
PROP_MODULES = ["TfPwaV.Props.C02", "TfPwaV.Props.C02b", "TfPwaV.Props.C02c", "TfPwaV.Props.C02d", "TfPwaV.Props.C02e", "TfPwaV.Props.C02f"]
ALL_MODULES = ["TfPwaV.Model.Align", "TfPwaV.Proofs.Align", "TfPwaV.Proofs.AlignD", "TfPwaV.Proofs.SU2", "TfPwaV.Proofs.UnitaryMix",
               "TfPwaV.Props.C02", "TfPwaV.Props.C02b", "TfPwaV.Props.C02c", "TfPwaV.Props.C02d", "TfPwaV.Proofs.SL2C", "TfPwaV.Proofs.Kin",
               "TfPwaV.Props.C02e", "TfPwaV.Proofs.RouteRest", "TfPwaV.Proofs.RouteRestTree", "TfPwaV.Proofs.CascadeTree", "TfPwaV.Proofs.Cascade",
               "TfPwaV.Proofs.CascadeAngle", "TfPwaV.Proofs.Angle", "TfPwaV.Props.C11", "TfPwaV.Props.C11c",
               "TfPwaV.Props.C12b", "TfPwaV.Props.C12d",
               "TfPwaV.Props.C01", "TfPwaV.Props.C01b", "TfPwaV.Proofs.FrameAlg", "TfPwaV.Proofs.DHom", "TfPwaV.Proofs.ZHom",
               "TfPwaV.Props.C02f", "TfPwaV.Props.C01i", "TfPwaV.Proofs.AxesIndBD", "TfPwaV.Proofs.AxesIndBGauge", "TfPwaV.Proofs.AxesIndBMkD",
               "TfPwaV.Proofs.AxesIndBRoute", "TfPwaV.Proofs.AmpMix", "TfPwaV.Proofs.Amp"]
ASSUMPTIONS = [
    "kinematic hypothesis, DISCHARGED (Props/C02e.lean): `RouteToRest` of Props/C02d.lean (the Lorentz transformation composed from the (alpha_i, beta_i, omega_i) of a route brings the particle's top-frame momentum to rest) is now PROVED (route_to_rest_of_cascade) for every event (any binary decay tree, any final four-momenta, any input frame, any base axes), for every decay path, from the model of the code that produces those numbers: templates/Cascade.lean.in (infer_momentum, add_mass, cal_chain_boost = nested LorentzVector.rest_vector, the axis propagation set_z[j] = vect(rest_p[j]), set_x[j] = x2 of angle_zx_z_getx, the alpha range shift) + templates/RouteRest.lean.in (stepTree: the (alpha, beta, omega = LorentzVector.omega(rest_p[j])) cal_helicity_angle records for both daughters of every decay; topCoords: the frame all chains start from; rule2Step: the angles of aligned_angle_ref_rule2). Hypotheses = the code's own guards along the chain (`Guards`, `TopOK`): every helicity-frame momentum has positive energy and is time-like (massive particles; LorentzVector.gamma resets beta^2 >= 1 otherwise), no cross_unit call is in its degenerate branch (norm < 1e-14), every DECAYING daughter is in the regular branch of LorentzVector.boost (beta^2 > 1e-14); the excluded branches are not covered by a theorem. What ties this model to the code is a correspondence, not a proof: on every run the Float instance of the same text computes, from the final momenta alone, the steps of every decay path of every captured chain and they are compared with the angles cal_helicity_angle stored and the rapidity read off b_matrix (1e-6; observed 1e-14), topCoords with an independent numpy oracle, rule2R(rule2Step) with the captured rule-2 r_matrix; the older run-time check of RouteToRest on the captured matrices ((b_matrix*r_matrix) herm(q) (..)^dagger = m*1, observed 2e-15) is kept and now validates the tie model <-> code rather than a hypothesis",
    "3-body vertices (angle_zx_zzz_getx) are outside the cascade/route model (chains containing one are counted as skipped by the model correspondence; the captured-matrix check still covers them); the non-vacuity witnesses of Guards/ChainOf in Props/C02e.lean are a depth-1 event (A -> a b at rest) and a depth-2 event (A -> R c, R -> a b with R in flight, beta = 3/5; route of two vertices); deeper chains are seen on the real events of every run (model residual routeL(steps)(q) = (m,0,0,0) to 2e-15 on routes of depth 2 and 3)",
    "massless final particles (m = 0) are excluded from rest_stabiliser (rest_stabiliser_massless_fails shows the hypothesis cannot be dropped); the regular branch tanh^2(omega) > 1e-14 of LorentzVector.boost is a hypothesis of boost_sign_tie; omega_of_momentum assumes a time-like momentum of positive energy (LorentzVector.gamma resets beta^2 >= 1 to 0 otherwise)",
    "the spinor parametrisation herm is a choice: the mirror image (E - p.sigma, i.e. A -> (A^dagger)^-1) would describe a tree in which the sign of the rapidity is flipped in EVERY Boost_z consistently; such a tree still satisfies the property but fails the kinematic correspondence (and the C12 correspondence of Boost_z) and is reported as a broken obligation, not as a failing input",
    "the matrix contracted by DecayChain.get_amp is modelled as codeD N R = D_matrix_conj(get_euler_angle(R)) built from the exact small-d table model (C12: compared with small_d_weight on every run) and applied to the chain-frame helicity index (alignD_einsum); its anti-multiplicativity on SU(2) and unitarity are PROVED for 2j <= 8 (codeD_mul from euler_roundtrip + DConj_compose/D_hom_su2, codeD_unitary from D_conj_unitary) and re-checked numerically on the implementation for 2j <= 4 (correspond_dhom); the bound 2j <= 8 comes from the kernel-checked table tie of C12",
    "random_z / center_mass: route_to_rest_of_cascade holds for arbitrary base axes and arbitrary input events, so each setting separately has rotation-valued alignment elements (route_to_rest_random_z, route_to_rest_center_mass); that the DENSITY is the same ACROSS these settings (a common rotation / the first pure boost of the whole event) is validated by the search only; it is an instance of C01 frame covariance",
    "density comparison tolerance 1e-6*(max(d1,d2)+mean(d)): SU2M.get_euler_angle takes beta = acos(Re(x00 x11 + x01 x10)), whose forward error at beta -> 0 is sqrt(2 ulp) ~ 2e-8 (observed density differences up to 1.3e-8 between equivalent configurations on the unchanged tree, median 1e-10); any O(1) convention error is > 1e-3 on most events",
    "matrix correspondence tolerance 1e-9 relative to the largest entry (products of at most 12 complex 2x2 factors with entries up to exp(omega/2))",
    "Props/C02f.lean (opposite daughter order inside one topology): the stored angles of the two orientations of a two-body vertex are DEFINITIONS of the model (orientO1: first-listed (alpha, beta), second-listed (alpha - pi, pi - beta); orientO2 with the flag s = (alpha_b < 0), forced by the ranges: orientation_flag_of_ranges) - that cal_helicity_angle stores exactly these numbers, that every helicity angle below the vertex is the same number in both orientations, and that no alignment D-function is inserted between chains of one topology, is validated on every run on the real cal_angle (harness/c02_orient.py: 1e-11 on the angles), not proved from the atan2 model; the theorems take the relation between SU(2) ELEMENTS (central sign on the top-vertex element and on the alignment elements) as hypotheses, proved for the stored angles by exactly_one_sheet_changes / route_first_step_sheet / align_sheet; spins 2j <= 8 (table tie of C12); fermion-number conservation (2 J_A + sum of 2 j_f even) is a hypothesis of opposite_orientation_factor / _pair_factor (it holds for every decay card with non-empty LS lists); the prediction is compared with the per-chain tensors of the real DecayGroup.get_amp for both declaration orders (1e-12 relative to the largest component, observed 2e-15), with and without a chain of another topology; chain_order_dependence_witness uses constant model D-functions (the index algebra), the witness on real D-functions is the listed reproducer run by the search",
]

DEFAULT_OPTS = {"align_ref": None, "random_z": True, "center_mass": False, "only_left_angle": False, "r_boost": True}
KEY_CM_FRAME = "align_ref:center_mass:parent-not-at-rest"
KEY_LEFT_MIXED = "only_left_angle:mixed-daughter-order:raises:KeyError"
KEY_BWL = "chain-order:bw_l-default-from-first-declared-decay"
KEY_MIXED_FERMION = "chain-order:one-topology-opposite-daughter-order:half-integer-spin"
KEY_MIXED_FERMION_DAUGHTER = "chain-order:one-topology-opposite-daughter-order:fermion-daughters:other-topology"
RTOL = 1e-6


# ---------------------------------------------------------------------------------------------
# decay structures
# ---------------------------------------------------------------------------------------------

def zoo():
    """Hand-written structures: spinning final states incl. spin 1/2, >= 2 interfering chains of different topology."""
    out = []
    out.append(("3body-half", {
        "data": {"dat_order": ["B", "C", "D"]},
        "decay": {"A": [["R_BC", "D"], ["R_BD", "C"], ["R_CD", "B"]], "R_BC": ["B", "C"], "R_BD": ["B", "D"], "R_CD": ["C", "D"]},
        "particle": {
            "$top": {"A": {"J": 0.5, "P": 1, "mass": 5.6}},
            "$finals": {"B": {"J": 0.5, "P": 1, "mass": 0.938}, "C": {"J": 1, "P": -1, "mass": 3.0969}, "D": {"J": 0, "P": -1, "mass": 0.4937}},
            "R_BC": {"J": 1.5, "P": -1, "mass": 4.45, "width": 0.1},
            "R_BD": {"J": 1.5, "P": -1, "mass": 1.52, "width": 0.016},
            "R_CD": {"J": 1, "P": 1, "mass": 4.2, "width": 0.3},
        }}))
    out.append(("4body-mixed", {
        "data": {"dat_order": ["B", "C", "D", "E"]},
        "decay": {"A": [["R_BC", "R_DE"], ["R_BD", "R_CE"], ["R_BCD", "E"], ["R_CDE", "B"]],
                  "R_BC": ["B", "C"], "R_DE": ["D", "E"], "R_BD": ["B", "D"], "R_CE": ["C", "E"],
                  "R_BCD": [["R_BC", "D"], ["R_BD", "C"]], "R_CDE": [["R_DE", "C"], ["R_CE", "D"]]},
        "particle": {
            "$top": {"A": {"J": 1, "P": -1, "mass": 5.6}},
            "$finals": {"B": {"J": 0.5, "P": 1, "mass": 0.938}, "C": {"J": 1, "P": -1, "mass": 1.0},
                        "D": {"J": 0, "P": -1, "mass": 0.4937}, "E": {"J": 0.5, "P": -1, "mass": 0.5}},
            "R_BC": {"J": 1.5, "P": -1, "mass": 2.45, "width": 0.1},
            "R_DE": {"J": 0.5, "P": -1, "mass": 1.52, "width": 0.16},
            "R_BD": {"J": 0.5, "P": 1, "mass": 2.2, "width": 0.3},
            "R_CE": {"J": 1.5, "P": 1, "mass": 2.2, "width": 0.3},
            "R_BCD": {"J": 0.5, "P": 1, "mass": 3.2, "width": 0.3},
            "R_CDE": {"J": 1.5, "P": 1, "mass": 3.2, "width": 0.3},
        }}))
    # two chains of ONE topology that list the daughters in different orders (A->R1+D, A->D+R2) plus a second topology
    out.append(("3body-mixed-order", {
        "data": {"dat_order": ["B", "C", "D"]},
        "decay": {"A": [["R1", "D"], ["D", "R2"], ["R3", "C"]], "R1": ["B", "C"], "R2": ["C", "B"], "R3": ["B", "D"]},
        "particle": {
            "$top": {"A": {"J": 0.5, "P": 1, "mass": 5.6}},
            "$finals": {"B": {"J": 0.5, "P": 1, "mass": 0.938}, "C": {"J": 1, "P": -1, "mass": 3.0969}, "D": {"J": 0, "P": -1, "mass": 0.4937}},
            "R1": {"J": 1.5, "P": -1, "mass": 4.45, "width": 0.1},
            "R2": {"J": 0.5, "P": -1, "mass": 4.3, "width": 0.2},
            "R3": {"J": 0.5, "P": 1, "mass": 1.6, "width": 0.2},
        }}))
    # the same with the SAME inner daughter order in both resonances: found by a mutation sub-agent on the unchanged tree
    # (the double flip of 3body-mixed-order hides it): the first declared chain of a topology orients the shared angle data,
    # the second-listed daughter gets alpha - pi, so the chain read "the other way round" is off by 2 pi in one azimuth:
    # a sign for half-integer spins, constant over events -> the interference of the two chains depends on which is first
    out.append(("3body-mixed-order-fermion", {
        "data": {"dat_order": ["B", "C", "D"]},
        "decay": {"A": [["R1", "D"], ["D", "R2"]], "R1": ["B", "C"], "R2": ["B", "C"]},
        "particle": {
            "$top": {"A": {"J": 0.5, "P": 1, "mass": 5.6196}},
            "$finals": {"B": {"J": 0.5, "P": 1, "mass": 0.938272}, "C": {"J": 0, "P": -1, "mass": 0.493677}, "D": {"J": 0, "P": -1, "mass": 3.0969}},
            "R1": {"J": 0.5, "P": -1, "mass": 1.8, "width": 0.2},
            "R2": {"J": 0.5, "P": -1, "mass": 2.1, "width": 0.3},
        }}))
    # second class of the same defect (Props/C02f.lean, opposite_orientation_factor): integer-spin mother, two fermion daughters,
    # a chain of another topology interferes: the chain that is not the first declared one of its topology carries (-1)^(2 j_second)
    out.append(("3body-mixed-order-fermion-daughters", {
        "data": {"dat_order": ["B", "C", "D"]},
        "decay": {"A": [["R3", "C"], ["R1", "D"], ["D", "R2"]], "R1": ["B", "C"], "R2": ["B", "C"], "R3": ["B", "D"]},
        "particle": {
            "$top": {"A": {"J": 1, "P": 1, "mass": 5.6196}},
            "$finals": {"B": {"J": 0.5, "P": 1, "mass": 0.938272}, "C": {"J": 0, "P": -1, "mass": 0.493677}, "D": {"J": 0.5, "P": -1, "mass": 3.0969}},
            "R1": {"J": 0.5, "P": -1, "mass": 1.8, "width": 0.2},
            "R2": {"J": 0.5, "P": -1, "mass": 2.1, "width": 0.3},
            "R3": {"J": 1, "P": -1, "mass": 4.3, "width": 0.3},
        }}))
    return out


def _subset_name(s):
    return "R_" + "".join(s)


def random_structure(rng):
    """Seeded random 3-/4-body structure: final spins from {0, 1/2, 1} (at least one spin 1/2 or 1), every two-body
    grouping as a resonance with a random admissible spin; parity is not imposed (p_break) so that every chain exists."""
    n = int(rng.choice([3, 4, 4]))
    names = ["B", "C", "D", "E"][:n]
    while True:
        spins = [float(rng.choice([0, 0.5, 0.5, 1])) for _ in names]
        if max(spins) > 0:
            break
    nf = sum(1 for s in spins if s == 0.5)

    def half(sub):
        return sum(1 for x in sub if spins[names.index(x)] == 0.5) % 2 == 1
    jtop = float(rng.choice([0.5, 1.5])) if nf % 2 else float(rng.choice([0, 1]))
    masses = [float(rng.choice([0.14, 0.5, 0.94, 1.3])) for _ in names]
    m0 = sum(masses) + float(rng.uniform(1.5, 3.0))
    part = {"$top": {"A": {"J": jtop, "P": int(rng.choice([-1, 1])), "mass": m0}},
            "$finals": {x: {"J": s, "P": int(rng.choice([-1, 1])), "mass": m} for x, s, m in zip(names, spins, masses)}}
    dec = {}
    pb = {"p_break": True}

    def res(sub):
        nm = _subset_name(sub)
        if nm not in part:
            j = float(rng.choice([0.5, 1.5])) if half(sub) else float(rng.choice([0, 1, 1, 2]))
            lo = sum(masses[names.index(x)] for x in sub)
            part[nm] = {"J": j, "P": int(rng.choice([-1, 1])), "mass": lo + float(rng.uniform(0.2, 1.0)), "width": float(rng.uniform(0.05, 0.4))}
        return nm
    top = []
    if n == 3:
        for pair in itertools.combinations(names, 2):
            rest = [x for x in names if x not in pair][0]
            nm = res(pair)
            dec[nm] = list(pair)
            top.append([nm, rest, dict(pb)])
    else:
        pairs = [("B", "C"), ("D", "E")], [("B", "D"), ("C", "E")], [("B", "E"), ("C", "D")]
        for pr in pairs:
            if rng.random() < 0.7:
                a, b = res(pr[0]), res(pr[1])
                dec[a] = list(pr[0]) + [dict(pb)]
                dec[b] = list(pr[1]) + [dict(pb)]
                top.append([a, b, dict(pb)])
        for tri in itertools.combinations(names, 3):
            if rng.random() < 0.6:
                rest = [x for x in names if x not in tri][0]
                nm = res(tri)
                subs = []
                for pair in itertools.combinations(tri, 2):
                    if rng.random() < 0.7 or not subs:
                        third = [x for x in tri if x not in pair][0]
                        pn = res(pair)
                        dec[pn] = list(pair) + [dict(pb)]
                        subs.append([pn, third, dict(pb)])
                dec[nm] = subs
                top.append([nm, rest, dict(pb)])
    if len(top) < 2:
        return None
    order = [int(i) for i in rng.permutation(len(top))]
    dec = dict([("A", [top[i] for i in order])] + list(dec.items()))
    return {"data": {"dat_order": names}, "decay": dec, "particle": part}


def top_lists(cfg):
    """names of the `decay` entries that are lists of alternatives (a list of lists)"""
    return [k for k, v in cfg["decay"].items() if isinstance(v[0], list)]


def prune(cfg):
    """drop decay entries not reachable from A (after removing top-level alternatives)"""
    dec = cfg["decay"]
    reach, todo = set(), ["A"]
    while todo:
        x = todo.pop()
        if x in reach or x not in dec:
            continue
        reach.add(x)
        v = dec[x]
        for l in (v if isinstance(v[0], list) else [v]):
            todo += [y for y in l if isinstance(y, str)]
    for k in list(dec):
        if k not in reach:
            del dec[k]
    used = set(reach)
    for v in dec.values():
        for l in (v if isinstance(v[0], list) else [v]):
            used |= {y for y in l if isinstance(y, str)}
    for k in list(cfg["particle"]):
        if not k.startswith("$") and k not in used:
            del cfg["particle"][k]
    return cfg


def variant(cfg, perm=None, sub_perms=None, key_order=None, opts=None):
    """A configuration equivalent to `cfg`: top-level chain list permuted, alternatives of inner resonances permuted,
    keys of the decay section reordered, data options changed."""
    new = copy.deepcopy(cfg)
    dec = new["decay"]
    if perm is not None:
        dec["A"] = [dec["A"][i] for i in perm]
    for k, p in (sub_perms or {}).items():
        dec[k] = [dec[k][i] for i in p]
    if key_order is not None:
        new["decay"] = {k: dec[k] for k in key_order}
    new["data"] = dict(new["data"], **{k: v for k, v in (opts or {}).items()})
    return new


def has_mixed_daughter_order(cfg):
    """two alternatives producing the same pair of groupings with the daughters in opposite order"""
    for k in top_lists(cfg):
        alts = [[y for y in l if isinstance(y, str)] for l in cfg["decay"][k]]
        finals = lambda x: tuple(sorted(_finals_of(cfg, x)))
        for a, b in itertools.combinations(alts, 2):
            if len(a) == 2 and len(b) == 2 and finals(a[0]) == finals(b[1]) and finals(a[1]) == finals(b[0]):
                return True
    return False


def _finals_of(cfg, x):
    dec = cfg["decay"]
    if x not in dec:
        return [x]
    v = dec[x]
    l = v[0] if isinstance(v[0], list) else v
    out = []
    for y in l:
        if isinstance(y, str):
            out += _finals_of(cfg, y)
    return out


# ---------------------------------------------------------------------------------------------
# events (harness-owned generator, everything from the seeded rng)
# ---------------------------------------------------------------------------------------------

def boost_np(p, v):
    """boost four-vectors p (N,4) by velocity v (3,) (numpy, harness side)"""
    v = np.asarray(v, dtype=float)
    b2 = float(v @ v)
    if b2 == 0:
        return p.copy()
    g = 1.0 / math.sqrt(1 - b2)
    bp = p[:, 1:] @ v
    g2 = (g - 1.0) / b2
    sp = p[:, 1:] + np.outer(g2 * bp + g * p[:, 0], v)
    return np.concatenate([(g * (p[:, 0] + bp))[:, None], sp], -1)


def gen_events(rng, m0, masses, n):
    """n-body events in the parent rest frame by sequential two-body decays (not flat, not needed)."""
    k = len(masses)
    out = [np.zeros((n, 4)) for _ in range(k)]
    for ev in range(n):
        u = np.sort(rng.uniform(0.02, 0.98, k - 2)) if k > 2 else np.array([])
        free = m0 - sum(masses)
        M = [masses[0]] + [sum(masses[: i + 2]) + float(u[i]) * free for i in range(k - 2)] + [m0]
        # M[i] = invariant mass of the first i+1 particles; decay M[i] -> M[i-1] + m_i from the top down
        frame = np.array([[m0, 0.0, 0.0, 0.0]])
        for i in range(k - 1, 0, -1):
            mi, mrest, mm = masses[i], M[i - 1], M[i]
            q = math.sqrt(max((mm ** 2 - (mi + mrest) ** 2) * (mm ** 2 - (mi - mrest) ** 2), 0.0)) / (2 * mm)
            ct = float(rng.uniform(-1, 1))
            ph = float(rng.uniform(-math.pi, math.pi))
            st = math.sqrt(1 - ct * ct)
            d = np.array([st * math.cos(ph), st * math.sin(ph), ct])
            pi = np.array([[math.sqrt(mi * mi + q * q), *(q * d)]])
            pr = np.array([[math.sqrt(mrest * mrest + q * q), *(-q * d)]])
            vel = frame[0, 1:] / frame[0, 0]
            out[i][ev] = boost_np(pi, vel)[0]
            frame = boost_np(pr, vel)
        out[0][ev] = frame[0]
    return out


def make_events(cfg, rng, n):
    names = cfg["data"]["dat_order"]
    fin = cfg["particle"]["$finals"]
    m0 = list(cfg["particle"]["$top"].values())[0]["mass"]
    ps = gen_events(rng, m0, [fin[x]["mass"] for x in names], n)
    rest = {x: p for x, p in zip(names, ps)}
    d = rng.normal(size=3)
    d /= np.linalg.norm(d)
    v = d * float(rng.uniform(0.2, 0.9))
    lab = {x: boost_np(p, v) for x, p in rest.items()}
    return {"rest": rest, "lab": lab}


# ---------------------------------------------------------------------------------------------
# the implementation
# ---------------------------------------------------------------------------------------------

def build(cfg):
    from tf_pwa.config_loader import ConfigLoader
    c = ConfigLoader(copy.deepcopy(cfg))
    return c, c.get_amplitude()


def pin_bw_l(cfg, amp):
    """Resonances with several declared decays take the orbital momentum of their running width from the FIRST declared
    decay unless `bw_l` is given (Particle.get_amp: `self.bw_l = min(self.decay[0].get_l_list())`).  Returns a copy of
    the configuration with that value written out, so that reordering the alternatives does not change the line shape;
    the dependence of the DEFAULT on the declaration order is probed separately (`probe_bw_l`)."""
    new = copy.deepcopy(cfg)
    pinned = {}
    for r in amp.decay_group.resonances:
        if len(r.decay) > 1 and str(r) in new["particle"]:
            ls = [min(d.get_l_list()) for d in r.decay]
            new["particle"][str(r)]["bw_l"] = int(ls[0])
            pinned[str(r)] = [int(x) for x in ls]
    return new, pinned


def random_params(amp, rng):
    out = {}
    for k, v in amp.get_params().items():
        if "g_ls" in k or "_total_" in k:
            out[k] = float(rng.uniform(-1.5, 1.5)) if k.endswith("i") else float(rng.uniform(0.3, 1.5))
        else:
            out[k] = float(v)
    return out


def density(cfg, params, p, want_data=False):
    """the observation of the property: ConfigLoader(cfg) -> set_params(by name) -> cal_angle(p4) -> amplitude"""
    import tensorflow as tf
    c, amp = build(cfg)
    missing = sorted(set(amp.get_params()) - set(params))
    if missing:
        raise RuntimeError("parameter names differ between equivalent configurations: %s" % missing[:4])
    amp.set_params({k: params[k] for k in amp.get_params()})
    data = c.data.cal_angle({k: tf.constant(np.asarray(v, dtype=float)) for k, v in p.items()})
    d = np.asarray(amp(data).numpy(), dtype=float)
    if want_data:
        return d, data
    return d


def mismatch(d1, d2):
    """indices of events on which two densities differ beyond the stated forward-error scale"""
    sc = RTOL * (np.maximum(np.abs(d1), np.abs(d2)) + float(np.mean(np.abs(d1))))
    bad = ~(np.abs(d1 - d2) <= sc) | ~np.isfinite(d1) | ~np.isfinite(d2)
    return np.where(bad)[0]


def classify(cfg, opts, permuted, frame):
    changed = sorted(k for k, v in (opts or {}).items() if DEFAULT_OPTS.get(k) != v)
    if permuted and mixed_order_fermion(cfg):
        return KEY_MIXED_FERMION   # whatever the options: the declared order of the two oppositely written chains decides
    if permuted and mixed_order_fermion(cfg, daughters=True):
        return KEY_MIXED_FERMION_DAUGHTER   # Props/C02f.lean opposite_orientation_factor: (-1)^(2 j_second) against a third chain
    if opts and opts.get("align_ref") == "center_mass" and not opts.get("center_mass", False) and frame == "lab":
        return KEY_CM_FRAME
    if changed:
        return "option:" + "+".join(changed)
    return "chain-order" if permuted else "identity"


def mixed_order_fermion(cfg, daughters=False):
    """two alternatives of ONE topology with the daughters in opposite order whose mother has half-integer spin;
    daughters=True: the mother has integer spin, the two daughters are fermions and there is a third alternative"""
    part = cfg["particle"]

    def spin(x):
        for sec in ("$top", "$finals"):
            if x in part.get(sec, {}):
                return float(part[sec][x].get("J", 0))
        return float(part.get(x, {}).get("J", 0))
    for k in top_lists(cfg):
        if (2 * spin(k)) % 2 != (0 if daughters else 1):
            continue
        alts = [[y for y in l if isinstance(y, str)] for l in cfg["decay"][k]]
        fin = lambda x: tuple(sorted(_finals_of(cfg, x)))  # noqa: E731
        for a_, b_ in itertools.combinations(alts, 2):
            if len(a_) == 2 and len(b_) == 2 and fin(a_[0]) == fin(b_[1]) and fin(a_[1]) == fin(b_[0]):
                if not daughters:
                    return True
                if (2 * spin(a_[0])) % 2 == 1 and len(alts) > 2:
                    return True
    return False


def flat_angles(data):
    from tf_pwa.data import flatten_dict_data
    return {k: np.asarray(v) for k, v in flatten_dict_data(data).items() if "/ang/" in k or "aligned_angle" in k}


def differs(a1, a2):
    if set(a1) != set(a2):
        return True
    return any(a1[k].shape != a2[k].shape or np.max(np.abs(a1[k] - a2[k])) > 1e-7 for k in a1)


def jsonable_p(p):
    return {k: [[float(x) for x in row] for row in np.asarray(v)] for k, v in p.items()}


def shrink(cfg_a, cfg_b, params, p, ev):
    """smallest pair of top-level alternatives (and one event) on which the two configurations still disagree"""
    p1 = {k: np.asarray(v)[ev:ev + 1] for k, v in p.items()}
    best = (cfg_a, cfg_b, params)
    alts = [json.dumps(x) for x in cfg_a["decay"]["A"]]
    if len(alts) <= 2:
        return best, p1
    for i, j in itertools.combinations(range(len(alts)), 2):
        keep = {alts[i], alts[j]}
        try:
            sa, sb = copy.deepcopy(cfg_a), copy.deepcopy(cfg_b)
            sa["decay"]["A"] = [x for x in sa["decay"]["A"] if json.dumps(x) in keep]
            sb["decay"]["A"] = [x for x in sb["decay"]["A"] if json.dumps(x) in keep]
            prune(sa), prune(sb)
            _, amp = build(sa)
            sub = {k: params[k] for k in amp.get_params() if k in params}
            if set(sub) != set(amp.get_params()):
                continue
            d1, d2 = density(sa, sub, p1), density(sb, sub, p1)
            if len(mismatch(d1, d2)):
                return (sa, sb, sub), p1
        except Exception:
            continue
    return best, p1


def compare_pair(res, name, cfg_a, cfg_b, params, p, key, label, stats, base=None):
    """evaluate the pair on the same momenta; report a failing input"""
    try:
        d1 = base if base is not None else density(cfg_a, params, p)
    except Exception as e:
        res.broke("search: base configuration %s raises %s" % (name, type(e).__name__), str(e)[:500])
        return None
    try:
        d2 = density(cfg_b, params, p)
    except Exception as e:
        k = key
        if cfg_b["data"].get("only_left_angle") and has_mixed_daughter_order(cfg_b) and isinstance(e, KeyError):
            k = KEY_LEFT_MIXED
        else:
            k = key + ":raises:" + type(e).__name__
        res.fail(k, "%s [%s]: the re-optioned / permuted configuration raises %s(%s) where the original evaluates" % (name, label, type(e).__name__, str(e)[:80]),
                 {"cfg_a": cfg_a, "cfg_b": cfg_b, "params": params, "p": jsonable_p(p), "expect": "raises"})
        stats["fail"] += 1
        return None
    stats["pairs"] += 1
    stats["evals"] += len(d2)
    rel = np.abs(d1 - d2) / (np.maximum(np.abs(d1), np.abs(d2)) + float(np.mean(np.abs(d1))))
    bad = mismatch(d1, d2)
    if not len(bad):
        stats["worst"] = max(stats["worst"], float(np.max(rel)))
    if len(bad):
        stats["fail"] += 1
        seen = stats.setdefault("per_key", {})
        seen[key] = seen.get(key, 0) + 1
        if seen[key] > 2:
            return d2  # the same class of failure is already recorded (shrunk) twice
        ev = int(bad[np.argmax(rel[bad])])
        (sa, sb, sp), p1 = shrink(cfg_a, cfg_b, params, p, ev)
        try:
            e1, e2 = density(sa, sp, p1), density(sb, sp, p1)
            what = "%s [%s]: densities %r vs %r (rel %.3g) on one event; chains %s vs %s, data options %s vs %s" % (
                name, label, float(e1[0]), float(e2[0]), abs(e1[0] - e2[0]) / max(abs(e1[0]), abs(e2[0]), 1e-300),
                [[y for y in x if isinstance(y, str)] for x in sa["decay"]["A"]], [[y for y in x if isinstance(y, str)] for x in sb["decay"]["A"]],
                {k: v for k, v in sa["data"].items() if k != "dat_order"}, {k: v for k, v in sb["data"].items() if k != "dat_order"})
        except Exception as e:  # pragma: no cover
            what = "%s [%s]: densities differ (rel %.3g); shrinking raised %s" % (name, label, float(np.max(rel)), e)
            sa, sb, sp = cfg_a, cfg_b, params
        res.fail(key, what, {"cfg_a": sa, "cfg_b": sb, "params": sp, "p": jsonable_p(p1), "expect": "equal", "rtol": RTOL})
    return d2


def probe_bw_l(res, name, cfg, pinned, params, p, stats):
    """default `bw_l`: reverse the declared alternatives of every resonance whose alternatives have different minimal l"""
    subs = {k: list(range(len(cfg["decay"][k])))[::-1] for k, ls in pinned.items() if len(set(ls)) > 1 and k in cfg["decay"]}
    if not subs:
        return
    stats["bw_l_probes"] = stats.get("bw_l_probes", 0) + 1
    compare_pair(res, name, cfg, variant(cfg, sub_perms=subs), params, p, KEY_BWL,
                 "default bw_l, declared decays of %s reversed (minimal l per declared decay: %s)" % (sorted(subs), {k: pinned[k] for k in subs}), stats)


OPTION_SETS = [
    {"align_ref": "center_mass"},
    {"random_z": False},
    {"center_mass": True},
    {"only_left_angle": True},
    {"align_ref": "center_mass", "center_mass": True},
    {"align_ref": "center_mass", "random_z": False},
    {"random_z": False, "center_mass": True, "only_left_angle": True},
    {"align_ref": "center_mass", "random_z": False, "center_mass": True, "only_left_angle": True},
]


def plan(cfg, rng, level):
    """list of (label, variant-config, opts, permuted) for one structure"""
    k = len(cfg["decay"]["A"])
    ident = list(range(k))
    out = []
    rots = [ident[i:] + ident[:i] for i in range(1, k)]  # every alternative becomes the first (reference) once
    if level == 0:
        rots = rots[:2] + ([ident[::-1]] if k > 2 else [])
    for r in rots:
        out.append(("order %s" % r, variant(cfg, perm=r), {}, True))
    subs = [s for s in top_lists(cfg) if s != "A"]
    keys = list(cfg["decay"].keys())
    nshuf = 1 if level == 0 else 4
    for _ in range(nshuf):
        pr = [int(i) for i in rng.permutation(k)]
        sp = {s: [int(i) for i in rng.permutation(len(cfg["decay"][s]))] for s in subs}
        ko = [keys[int(i)] for i in rng.permutation(len(keys))]
        out.append(("order %s inner %s keys %s" % (pr, sp, ko), variant(cfg, perm=pr, sub_perms=sp, key_order=ko), {}, True))
    optsets = OPTION_SETS if level > 0 else OPTION_SETS[:5]
    for o in optsets:
        out.append(("options %s" % o, variant(cfg, opts=o), o, False))
    ncomb = 2 if level == 0 else 6
    for _ in range(ncomb):
        pr = [int(i) for i in rng.permutation(k)]
        sp = {s: [int(i) for i in rng.permutation(len(cfg["decay"][s]))] for s in subs}
        o = dict(OPTION_SETS[int(rng.integers(len(OPTION_SETS)))])
        out.append(("order %s inner %s options %s" % (pr, sp, o), variant(cfg, perm=pr, sub_perms=sp, opts=o), o, True))
    return out


def search(ctx, res):
    """The property itself on the implementation: equivalent configurations, parameters by name, same p4."""
    rng = np.random.Generator(np.random.Philox(ctx.seed + 202))
    level = 0 if (ctx.quick and not ctx.suspect) else 1
    structs = zoo()
    nrand = 1 if level == 0 else (3 if ctx.quick else 14)
    known = {k["key"] for k in C.load_known(PID) if k.get("kind") == "finding"}
    tries = 0
    while nrand and tries < 60:
        tries += 1
        cfg = random_structure(rng)
        if cfg is None:
            continue
        try:
            _, amp = build(cfg)
        except Exception:
            continue
        if not 2 <= len(list(amp.decay_group)) <= 8 or len(amp.decay_group.topology_structure()) < 2:
            continue
        if int(np.prod([len(p.spins) for p in amp.decay_group.outs])) * len(amp.decay_group.top.spins) > 60:
            continue
        structs.append(("random-%d" % tries, cfg))
        nrand -= 1
    nev = 4 if level == 0 else (6 if ctx.quick else 12)
    stats = {"pairs": 0, "evals": 0, "worst": 0.0, "fail": 0, "nontrivial": 0, "ref_changed": 0}
    samples = []
    import time
    for name, cfg in structs:
        t_s = time.time()
        if ctx.quick and any(f.key not in known for f in res.failures):
            break  # a failing input outside the listed findings is in hand: the quick tier stops searching
        try:
            _, amp = build(cfg)
        except Exception as e:
            res.broke("search: structure %s cannot be built: %s" % (name, type(e).__name__), str(e)[:500])
            continue
        raw_cfg = cfg
        cfg, pinned = pin_bw_l(cfg, amp)
        params = random_params(amp, rng)
        events = make_events(cfg, rng, nev)
        probe_bw_l(res, name, raw_cfg, pinned, params, events["rest"], stats)
        base = {}
        base_ang = {}
        for frame in ("rest", "lab"):
            try:
                base[frame], data = density(cfg, params, events[frame], want_data=True)
                base_ang[frame] = flat_angles(data)
            except Exception as e:
                res.broke("search: base configuration %s raises %s" % (name, type(e).__name__), str(e)[:500])
        if len(base) < 2:
            continue
        if not (np.all(np.isfinite(base["rest"])) and np.all(base["rest"] > 0)):
            res.fail("density:not-finite-positive", "%s: density %s" % (name, base["rest"][:4]),
                     {"cfg_a": cfg, "cfg_b": cfg, "params": params, "p": jsonable_p(events["rest"]), "expect": "positive"})
        for label, vcfg, opts, permuted in plan(cfg, rng, level):
            frames = ("rest", "lab") if (level > 0 or opts) else ("lab",)
            for frame in frames:
                key = classify(cfg, opts, permuted, frame)
                d2 = compare_pair(res, name, cfg, vcfg, params, events[frame], key, label + " frame " + frame, stats, base=base[frame])
                if d2 is not None and len(samples) < 6:
                    samples.append({"structure": name, "variant": label, "frame": frame, "density_base": float(base[frame][0]), "density_variant": float(d2[0])})
            # measured non-triviality: do the angle data of the two configurations differ at all?
            try:
                _, data = density(vcfg, params, {k: v[:1] for k, v in events["lab"].items()}, want_data=True)
                a1 = {k: v[:1] for k, v in base_ang["lab"].items()}
                if differs(a1, flat_angles(data)):
                    stats["nontrivial"] += 1
                    if permuted and not opts:
                        stats["ref_changed"] += 1
            except Exception:
                pass
        C.log("[C02] search %s: %.1fs, %d pairs so far, %d failing" % (name, time.time() - t_s, stats["pairs"], stats["fail"]))
    res.coverage["evaluations"] = stats["evals"]
    res.coverage["distinct_nontrivial"] = stats["nontrivial"]
    res.coverage["rule"] = "a pair is non-trivial when the helicity / alignment angle data of the two configurations differ (> 1e-7) on the same event"
    res.coverage["search_pairs"] = stats["pairs"]
    res.coverage["search_structures"] = [n for n, _ in structs]
    res.coverage["search_pure_permutations_changing_reference"] = stats["ref_changed"]
    res.coverage["search_worst_relative_difference_among_agreeing_pairs"] = stats["worst"]
    res.coverage["search_failures_per_key"] = stats.get("per_key", {})
    res.coverage["search_bw_l_probes"] = stats.get("bw_l_probes", 0)
    res.coverage["search_tolerance"] = RTOL
    res.coverage["exhaustive"] = False
    res.samples += samples


# ---------------------------------------------------------------------------------------------
# correspondence
# ---------------------------------------------------------------------------------------------

def _encode_problem(top, outs, chains):
    xs = [top, len(outs)] + list(outs) + [len(chains)]
    for ch in chains:
        xs.append(len(ch))
        for core, douts in ch:
            xs += [core, len(douts)] + list(douts)
    return " ".join(str(int(x)) for x in xs)


def correspond_rule1(ctx, res):
    """Model/Align.lean `refRule1` + `alignedKeys` vs the real aligned_angle_ref_rule1 on seeded random chain lists.
    The real function is run on real DecayChain/DecayGroup objects with token payloads in place of the angle data."""
    from tf_pwa import cal_angle as ca
    from tf_pwa.particle import BaseDecay, BaseParticle, DecayChain, DecayGroup
    rng = np.random.Generator(np.random.Philox(ctx.seed + 2021))
    ncase = 150 if ctx.quick else 1500
    lines, expect, descr = [], [], []
    pool = {}
    for n in (3, 4, 5):
        top = BaseParticle("T%d" % n)
        finals = [BaseParticle("f%d_%d" % (n, i)) for i in range(n)]
        pool[n] = (top, finals, list(DecayChain.from_particles(top, finals)))
    for case in range(ncase):
        n = int(rng.choice([3, 4, 4, 5]))
        top, finals, allc = pool[n]
        k = int(rng.integers(1, min(len(allc), 6) + 1))
        idx = [int(i) for i in rng.choice(len(allc), size=k, replace=False)]
        chains = []
        for i in idx:
            decs = list(allc[i])
            decs = [decs[int(j)] for j in rng.permutation(len(decs))]
            # random order of the daughters inside a decay as well
            decs2 = []
            for d in decs:
                o = list(d.outs)
                if rng.random() < 0.5:
                    o = o[::-1]
                decs2.append(BaseDecay(d.core, o, disable=True))
            chains.append(DecayChain(decs2))
        mode = float(rng.random())
        outs = list(finals)
        if mode < 0.08:
            outs = outs + [BaseParticle("ghost")]  # a final particle no chain produces -> KeyError
        elif mode < 0.16:
            outs = [outs[int(j)] for j in rng.permutation(len(outs))]
        elif mode < 0.2:
            chains = []  # StopIteration
        ids = {}

        def pid(x):
            return ids.setdefault(x, len(ids))
        pid(top)
        for o in outs:
            pid(o)
        chains_enc = [[(pid(d.core), [pid(o) for o in d.outs]) for d in ch] for ch in chains]

        class G:
            pass
        g = G()
        g.top = top
        g.outs = outs
        decay_data = {}
        for ci, ch in enumerate(chains):
            dd = {"b_matrix": {}, "r_matrix": {}}
            for di, d in enumerate(ch):
                dd[d] = {}
                for o in d.outs:
                    dd[d][o] = ("pd", ci, di, str(o))
                    dd["b_matrix"][o] = ("b", ci, str(o))
                    dd["r_matrix"][o] = ("r", ci, str(o))
            decay_data[ch] = dd
        try:
            set_x, rmf = ca.aligned_angle_ref_rule1(g, chains, decay_data, None)
            refs = []
            for o in outs:
                b, r = rmf[o]["b_matrix"], rmf[o]["r_matrix"]
                if b[1] != r[1] or b[2] != str(o) or set_x[o][0] is not chains[b[1]] or set_x[o][1][1] != b[1] or set_x[o][1][3] != str(o):
                    res.broke("correspondence rule1: inconsistent reference payload", str((o, b, r, set_x[o])))
                refs.append(b[1])
            # the loop of cal_angle_from_particle, verbatim condition
            keys = []
            for ci, ch in enumerate(chains):
                for di, d in enumerate(ch):
                    for o in d.outs:
                        if o in g.outs and ch != set_x[o][0]:
                            keys.append((ci, di, o))
            got = " ".join(str(r) for r in refs) + " ; " + " ".join("%d.%d.%d" % (a, b, pid(o)) for a, b, o in keys)
        except (KeyError, StopIteration) as e:
            got = "E"
        lines.append("C02 ref1 " + _encode_problem(pid(top), [pid(o) for o in outs], chains_enc))
        expect.append(got.strip())
        descr.append("n=%d chains=%s outs=%s" % (n, [str(c) for c in chains], [str(o) for o in outs]))
    out = ctx.model.query(lines)
    nbad = 0
    ndist = len(set(expect))
    for l, e, o, d in zip(lines, expect, out, descr):
        if o.strip() != e:
            nbad += 1
            if nbad <= 3:
                res.broke("correspondence rule1 (reference chain / aligned keys)", {"case": d, "impl": e, "model": o})
    res.coverage["rule1_cases"] = ncase
    res.coverage["rule1_distinct_outcomes"] = ndist
    res.coverage["rule1_error_cases"] = sum(1 for e in expect if e == "E")
    return ncase


def _m8(m, ev):
    """SU2M -> 8 floats of event ev"""
    x = m["x"]
    out = []
    for i in range(2):
        for j in range(2):
            z = np.asarray(x[i][j])
            z = complex(z.reshape(-1)[ev] if z.size > 1 else z.reshape(-1)[0])
            out += [z.real, z.imag]
    return out


def correspond_matrices(ctx, res):
    """templates/Align.lean.in (Float instance) vs the matrices the real cal_angle builds on real events:
    r_matrix accumulation along every decay path, the alignment element R handed to get_euler_angle, the stored
    aligned angles, the rule-2 reference; and the (chain, decay, particle) keys that receive an aligned angle."""
    import tensorflow as tf
    from tf_pwa import cal_angle as ca
    from tf_pwa.angle import SU2M, EulerAngle, LorentzVector
    rng = np.random.Generator(np.random.Philox(ctx.seed + 2022))
    name, cfg = zoo()[1]
    nev = 3 if ctx.quick else 10
    events = make_events(cfg, rng, nev)
    c, amp = build(cfg)
    dg = amp.decay_group
    cap = {"hel": [], "R": [], "rule2": []}
    o_hel, o_euler, o_r2 = ca.cal_helicity_angle, SU2M.get_euler_angle, ca.aligned_angle_ref_rule2

    def w_hel(data, chain, **kw):
        r = o_hel(data, chain, **kw)
        cap["hel"].append((chain, r))
        return r

    def w_euler(self):
        e = o_euler(self)
        cap["R"].append((self, e))
        return e

    def w_r2(*a, **kw):
        r = o_r2(*a, **kw)
        cap["rule2"].append(r)
        return r
    lines, checks = [], []
    worst = 0.0
    for align_ref in (None, "center_mass"):
        for frame in ("rest", "lab"):
            if align_ref == "center_mass" and frame == "lab":
                continue
            p = {dgp: tf.constant(events[frame][str(dgp)]) for dgp in dg.outs}
            data_p = ca.struct_momentum(p, center_mass=False)
            struct = dg.topology_structure()
            for dec in struct:
                data_p = ca.infer_momentum(data_p, dec)
                data_p = ca.add_mass(data_p, dec)
            cap["hel"].clear(), cap["R"].clear(), cap["rule2"].clear()
            ca.cal_helicity_angle, SU2M.get_euler_angle, ca.aligned_angle_ref_rule2 = w_hel, w_euler, w_r2
            try:
                # keep the matrices in the output: call with the real function, then read the captured returns
                ret = ca.cal_angle_from_particle(data_p, dg, True, random_z=True, r_boost=True, align_ref=align_ref)
            finally:
                ca.cal_helicity_angle, SU2M.get_euler_angle, ca.aligned_angle_ref_rule2 = o_hel, o_euler, o_r2
            hel = cap["hel"]
            chains = [h[0] for h in hel]
            ids = {}

            def pid(x):
                return ids.setdefault(x, len(ids))
            # --- discrete: which keys got an aligned angle, and (rule 1) which chain is the reference
            got_keys = []
            for ci, ch in enumerate(chains):
                for di, d in enumerate(ch):
                    for o in d.outs:
                        if "aligned_angle" in ret[ch][d][o]:
                            got_keys.append("%d.%d.%d" % (ci, di, pid(o)))
            enc = _encode_problem(pid(dg.top), [pid(o) for o in dg.outs], [[(pid(d.core), [pid(o) for o in d.outs]) for d in ch] for ch in chains])
            if align_ref is None:
                lines.append("C02 ref1 " + enc)
            else:
                lines.append("C02 ref2 " + enc)
            checks.append(("keys", " ".join(got_keys), None))
            # --- r_matrix along every path
            for ci, (ch, r) in enumerate(hel):
                prod = {}
                for d in ch:
                    for o in d.outs:
                        prod[o] = d
                for o in r["r_matrix"]:
                    path = []
                    x = o
                    while x in prod:
                        path.append((prod[x], x))
                        x = prod[x].core
                    path = path[::-1]  # from the top down
                    for ev in range(nev):
                        d0, x0 = path[0]
                        a0 = [float(np.asarray(r[d0][x0]["ang"][k]).reshape(-1)[ev]) for k in ("alpha", "beta")]
                        args = [C.f2h(v) for v in a0]
                        for d, x in path[1:]:
                            args += [C.f2h(float(np.asarray(r[d][x]["ang"][k]).reshape(-1)[ev])) for k in ("alpha", "beta")]
                            args += [C.f2h(v) for v in _m8(r["b_matrix"][d.core], ev)]
                        lines.append("C02a pathr " + " ".join(args))
                        checks.append(("mat", _m8(r["r_matrix"][o], ev), "r_matrix[%s] of %s (event %d)" % (o, ch, ev)))
            # --- alignment element: replay the loop to know the operands of every captured R
            if align_ref is None:
                # the reference of particle i is the chain without an aligned angle for i
                ref = {}
                for ci, ch in enumerate(chains):
                    for d in ch:
                        for o in d.outs:
                            if o in dg.outs and "aligned_angle" not in ret[ch][d][o]:
                                ref[o] = ci
                refm = {o: (hel[ref[o]][1]["b_matrix"][o], hel[ref[o]][1]["r_matrix"][o]) for o in dg.outs}
            else:
                refm = {o: (cap["rule2"][0][1][o]["b_matrix"], cap["rule2"][0][1][o]["r_matrix"]) for o in dg.outs}
                # rule-2 reference from its inputs
                for o in dg.outs:
                    pp = data_p[o]["p"]
                    ang, _ = EulerAngle.angle_zx_z_getx(np.array([[0.0, 0, 1]]), np.array([[1.0, 0, 0]]), LorentzVector.vect(pp))
                    om = LorentzVector.omega(LorentzVector.neg(pp))
                    for ev in range(nev):
                        lines.append("C02a rule2 %s %s %s" % (C.f2h(float(ang["alpha"][ev])), C.f2h(float(ang["beta"][ev])), C.f2h(float(om[ev]))))
                        checks.append(("mat", _m8(refm[o][1], ev), "rule2 r_matrix[%s] (event %d)" % (o, ev)))
            k = 0
            for ci, ch in enumerate(chains):
                for d in ch:
                    for o in d.outs:
                        if o in dg.outs and "aligned_angle" in ret[ch][d][o]:
                            Rm, e = cap["R"][k]
                            k += 1
                            bm, rm = hel[ci][1]["b_matrix"][o], hel[ci][1]["r_matrix"][o]
                            for ev in range(nev):
                                ops = _m8(refm[o][0], ev) + _m8(refm[o][1], ev) + _m8(rm, ev) + _m8(bm, ev)
                                lines.append("C02a align " + " ".join(C.f2h(v) for v in ops))
                                checks.append(("mat", _m8(Rm, ev), "R for %s in %s (event %d)" % (o, ch, ev)))
                                lines.append("C02a aligned " + " ".join(C.f2h(v) for v in ops))
                                st = ret[ch][d][o]["aligned_angle"]
                                checks.append(("euler", [float(np.asarray(st[q]).reshape(-1)[ev]) for q in ("alpha", "beta", "gamma")], "aligned_angle of %s in %s (event %d)" % (o, ch, ev)))
            if k != len(cap["R"]):
                res.broke("correspondence: number of alignment elements", "%d keys with aligned_angle, %d calls of get_euler_angle" % (k, len(cap["R"])))
    out = ctx.model.query(lines)
    nb = 0
    nmat = 0
    for l, (kind, want, what), o in zip(lines, checks, out):
        if o == "bad-op":
            res.broke("model driver bad-op (Align)", l[:200])
            return 0
        if kind == "keys":
            mk = o.split(";")[-1].strip()
            if sorted(mk.split()) != sorted(want.split()):
                nb += 1
                if nb <= 3:
                    res.broke("correspondence aligned keys (real cal_angle_from_particle)", {"impl": want, "model": mk})
            continue
        mv = np.array([C.h2f(x) for x in o.split()])
        wv = np.array(want)
        nmat += 1
        if kind == "mat":
            err = float(np.max(np.abs(mv - wv)) / max(1.0, np.max(np.abs(wv))))
            worst = max(worst, err)
            if not err <= 1e-9:
                nb += 1
                if nb <= 3:
                    res.broke("correspondence SU(2) bookkeeping: " + what, {"impl": list(wv), "model": list(mv), "err": err})
        else:
            # beta = acos(.) loses half the digits at 0 and pi and alpha, gamma are then arbitrary: compare where regular
            if abs(math.sin(wv[1])) < 1e-4:
                continue
            e = max(cmath_diff(mv, wv), abs(mv[1] - wv[1]))
            if not e <= 1e-8:
                nb += 1
                if nb <= 3:
                    res.broke("correspondence aligned Euler angles: " + what, {"impl": list(wv), "model": list(mv), "err": e})
    res.coverage["matrix_ops_compared"] = nmat
    res.coverage["matrix_worst_rel_err"] = worst
    return nmat


def cmath_diff(a, b):
    """distance of two Euler triples on the double cover: compare exp(i(alpha+gamma)/2) and exp(i(alpha-gamma)/2)"""
    import cmath
    za = (cmath.exp(0.5j * (a[0] + a[2])), cmath.exp(0.5j * (a[0] - a[2])))
    zb = (cmath.exp(0.5j * (b[0] + b[2])), cmath.exp(0.5j * (b[0] - b[2])))
    return max(abs(za[0] - zb[0]), abs(za[1] - zb[1]))


def correspond_left(ctx, res):
    """`only_left_angle`: keys deleted from the data dictionary and keys read by the two-body amplitudes (model) vs the
    real data dictionary with and without the option, and vs the keys whose removal the real amplitude tolerates."""
    import tensorflow as tf
    rng = np.random.Generator(np.random.Philox(ctx.seed + 2023))
    n = 0
    lines, wants = [], []
    for name, cfg in zoo()[:2]:
        ev = make_events(cfg, rng, 2)["lab"]
        c0, a0 = build(cfg)
        c1, a1 = build(variant(cfg, opts={"only_left_angle": True}))
        p = {k: tf.constant(v) for k, v in ev.items()}
        d0, d1 = c0.data.cal_angle(p)["decay"], c1.data.cal_angle(p)["decay"]
        chains = list(d0.keys())
        ids = {}

        def pid(x):
            return ids.setdefault(str(x), len(ids))
        deleted = []
        for ci, ch in enumerate(chains):
            ch1 = [k for k in d1.keys() if k == ch][0]
            for di, d in enumerate(ch):
                for o in d.outs:
                    if "ang" in d0[ch][d][o] and "ang" not in d1[ch1][d][o]:
                        deleted.append("%d.%d.%d" % (ci, di, pid(o)))
        enc = _encode_problem(pid(a0.decay_group.top), [pid(o) for o in a0.decay_group.outs],
                              [[(pid(d.core), [pid(o) for o in d.outs]) for d in ch] for ch in chains])
        lines.append("C02 left " + enc)
        wants.append(sorted(deleted))
        n += 1
    out = ctx.model.query(lines)
    for l, w, o in zip(lines, wants, out):
        dk = sorted(o.split(";")[0].split())
        rk = set(o.split(";")[1].split())
        if dk != w:
            res.broke("correspondence only_left_angle: deleted keys", {"impl": w, "model": dk})
        if set(dk) & rk:
            res.broke("model: only_left_angle deletes a key that is read", sorted(set(dk) & rk))
    res.coverage["only_left_cases"] = n
    return n


def correspond_dhom(ctx, res):
    """The hypotheses of convention_invariant_* on the implementation: (a) for spin 1/2 the matrix contracted into the
    amplitude, get_D_matrix_lambda(get_euler_angle(U), 1/2), is the transpose of U itself (so `aligned = toMatrix(R) A`
    is literally what DecayChain.get_amp computes); (b) for 2j = 2, 3, 4 it is anti-multiplicative,
    M(U1 U2) = M(U2) M(U1), i.e. D = M^T is multiplicative (`hmul`)."""
    import tensorflow as tf
    from tf_pwa.angle import SU2M
    from tf_pwa.dfun import get_D_matrix_lambda
    rng = np.random.Generator(np.random.Philox(ctx.seed + 2024))
    n = 200 if ctx.quick else 4000

    def rnd():
        a, b, g = rng.uniform(-math.pi, math.pi, n), rng.uniform(0.05, math.pi - 0.05, n), rng.uniform(-math.pi, math.pi, n)
        return SU2M.Rotation_z(tf.constant(g)) * SU2M.Rotation_y(tf.constant(b)) * SU2M.Rotation_z(tf.constant(a))

    def M(U, j2):
        sp = tuple((-j2 + 2 * i) / 2 for i in range(j2 + 1))
        return np.asarray(get_D_matrix_lambda(U.get_euler_angle(), j2 / 2, sp, sp))
    U1, U2 = rnd(), rnd()
    x = U1["x"]
    Um = np.stack([np.stack([np.asarray(x[i][j]) for j in range(2)], -1) for i in range(2)], -2)
    e = float(np.max(np.abs(M(U1, 1) - Um.transpose(0, 2, 1))))
    worst = e
    if not e <= 1e-9:
        res.broke("correspondence spin-1/2 representation: get_D_matrix_lambda(get_euler_angle(U), 1/2) != U^T", {"err": e})
    P = U1 * U2
    # keep products away from beta = 0, pi where acos loses half the digits
    cb = np.real(np.asarray(P["x"][0][0]) * np.asarray(P["x"][1][1]) + np.asarray(P["x"][0][1]) * np.asarray(P["x"][1][0]))
    ok = np.abs(cb) < 1 - 1e-3
    for j2 in (1, 2, 3, 4):
        e = float(np.max(np.abs(M(P, j2) - np.einsum("nab,nbc->nac", M(U2, j2), M(U1, j2)))[ok]))
        worst = max(worst, e)
        if not e <= 1e-9:
            res.broke("correspondence D-matrix (anti)homomorphism M(U1 U2) = M(U2) M(U1) for 2j=%d" % j2, {"err": e})
    res.coverage["dhom_cases"] = int(np.sum(ok)) * 4 + n
    res.coverage["dhom_worst_err"] = worst
    return int(np.sum(ok)) * 4 + n



# ---------------------------------------------------------------------------------------------
# the kinematic hypothesis of Props/C02d.lean on the implementation
# ---------------------------------------------------------------------------------------------

def _capture_cal_angle(dg, pdict, align_ref):
    """run the real cal_angle_from_particle with the real cal_helicity_angle / get_euler_angle / rule 2 wrapped, so that
    the r_matrix / b_matrix of every chain and every element handed to get_euler_angle are kept"""
    import tensorflow as tf
    from tf_pwa import cal_angle as ca
    from tf_pwa.angle import SU2M
    cap = {"hel": [], "R": [], "rule2": []}
    o_hel, o_euler, o_r2 = ca.cal_helicity_angle, SU2M.get_euler_angle, ca.aligned_angle_ref_rule2

    def w_hel(data, chain, **kw):
        r = o_hel(data, chain, **kw)
        cap["hel"].append((chain, r))
        return r

    def w_euler(self):
        e = o_euler(self)
        cap["R"].append(self)
        return e

    def w_r2(*a, **kw):
        r = o_r2(*a, **kw)
        cap["rule2"].append(r)
        return r
    p = {dgp: tf.constant(np.asarray(pdict[str(dgp)], dtype=float)) for dgp in dg.outs}
    data_p = ca.struct_momentum(p, center_mass=False)
    for dec in dg.topology_structure():
        data_p = ca.infer_momentum(data_p, dec)
        data_p = ca.add_mass(data_p, dec)
    ca.cal_helicity_angle, SU2M.get_euler_angle, ca.aligned_angle_ref_rule2 = w_hel, w_euler, w_r2
    try:
        ret = ca.cal_angle_from_particle(data_p, dg, True, random_z=True, r_boost=True, align_ref=align_ref)
    finally:
        ca.cal_helicity_angle, SU2M.get_euler_angle, ca.aligned_angle_ref_rule2 = o_hel, o_euler, o_r2
    return ret, cap


def top_frame_coords(p_top, p):
    """harness-side oracle (numpy): coordinates of the four-momenta p (N,4) in the frame all chains start from — the rest
    frame of the top particle reached by ONE pure boost, axes z = direction of flight of the top particle (random_z; the
    lab z axis when it is at rest, |p| < 1e-5), y = z × x_lab, x = y × z"""
    out = np.zeros_like(p)
    for ev in range(len(p)):
        q = boost_np(p[ev:ev + 1], -p_top[ev, 1:] / p_top[ev, 0])[0]
        p3 = p_top[ev, 1:]
        bz = p3 if np.linalg.norm(p3) >= 1e-5 else np.array([0.0, 0.0, 1.0])
        uy = np.cross(bz, np.array([1.0, 0.0, 0.0]))
        uy /= np.linalg.norm(uy)
        ux = np.cross(uy, bz)
        ux /= np.linalg.norm(ux)
        uz = bz / np.linalg.norm(bz)
        out[ev] = [q[0], q[1:] @ ux, q[1:] @ uy, q[1:] @ uz]
    return out


def _c22(v8):
    return np.array([[complex(v8[0], v8[1]), complex(v8[2], v8[3])], [complex(v8[4], v8[5]), complex(v8[6], v8[7])]])


def _herm_np(q):
    return np.array([[q[0] + q[3], complex(-q[1], -q[2])], [complex(-q[1], q[2]), q[0] - q[3]]])


KIN_TOL = 1e-9
STEP_TOL = 1e-6   # (alpha, beta, omega) of the cascade model vs the implementation: atan2 / acosh of the same quantities


def correspond_kinematic(ctx, res):
    """The hypothesis `RouteToRest` of Props/C02d.lean (and its consequence `IsSU2 G`) on real events and the matrices the
    real cal_angle builds, through the Float instance of templates/SL2C.lean.in:
      (a) for every chain and every final particle f: (b_matrix[f]·r_matrix[f]) · herm(q_f) · (…)† = m_f·1, q_f = momentum
          of f in the frame of the top particle (numpy oracle, independent of cal_angle);
      (b) the same through the angles: routeL(steps)(q_f) = (m_f, 0, 0, 0) for the (alpha, beta) cal_helicity_angle stored and
          omega read off b_matrix; routeM(steps) and the code-shaped accumulation equal the captured b·r;
      (c) every element handed to get_euler_angle is unitary (SU(2) residuals);
      (d) omegaP (model of LorentzVector.omega) vs the real function.
    Tolerance KIN_TOL·scale, scale = E·max|M_ij|² (the entries of a route matrix grow like exp(Σω/2))."""
    import tensorflow as tf
    from tf_pwa.angle import LorentzVector
    rng = np.random.Generator(np.random.Philox(ctx.seed + 2025))
    nev = 3 if ctx.quick else 10
    structs = list(zoo())
    if not ctx.quick or ctx.suspect:
        tries = 0
        while len(structs) < 6 and tries < 40:
            tries += 1
            cfg = random_structure(rng)
            if cfg is None:
                continue
            try:
                _, amp = build(cfg)
            except Exception:
                continue
            if len(amp.decay_group.topology_structure()) >= 2:
                structs.append(("random-k%d" % tries, cfg))
    lines, checks = [], []
    stat = {"routes": 0, "deep": 0, "rule2": 0, "G": 0, "G_nontrivial": 0, "worst_route": 0.0, "worst_G": 0.0, "omega": 0}
    for name, cfg in structs:
        events = make_events(cfg, rng, nev)
        try:
            c, amp = build(cfg)
        except Exception as e:
            res.broke("kinematic: structure %s cannot be built" % name, str(e)[:300])
            continue
        dg = amp.decay_group
        for align_ref, frame in ((None, "rest"), (None, "lab"), ("center_mass", "rest"), ("center_mass", "lab")):
            pd = events[frame]
            try:
                ret, cap = _capture_cal_angle(dg, pd, align_ref)
            except Exception as e:
                res.broke("kinematic: cal_angle raises on %s (%s, %s)" % (name, align_ref, frame), "%s: %s" % (type(e).__name__, str(e)[:300]))
                continue
            p_top = sum(np.asarray(pd[str(o)], dtype=float) for o in dg.outs)
            qs = {o: top_frame_coords(p_top, np.asarray(pd[str(o)], dtype=float)) for o in dg.outs}
            ms = {o: np.sqrt(np.maximum(qs[o][:, 0] ** 2 - np.sum(qs[o][:, 1:] ** 2, -1), 0.0)) for o in dg.outs}
            where = "%s align_ref=%s frame=%s" % (name, align_ref, frame)
            big = np.ones(nev)
            for ci, (ch, r) in enumerate(cap["hel"]):
                prod = {}
                for d in ch:
                    for o in d.outs:
                        prod[o] = d
                # the cascade model of Props/C02e.lean on the SAME event: steps (alpha, beta, omega) of every decay path
                # computed by the Lean Float instance from the final momenta alone (templates/RouteRest.lean.in)
                if all(len(d.outs) == 2 for d in ch):
                    dec_of = {d.core: d for d in ch}
                    for ev in range(nev):
                        leaves_ev = []

                        def enc(x):
                            if x in dec_of:
                                return [1.0] + enc(dec_of[x].outs[0]) + enc(dec_of[x].outs[1])
                            leaves_ev.append(x)
                            return [0.0] + [float(v) for v in np.asarray(pd[str(x)], dtype=float)[ev]]
                        toks = enc(dg.top)
                        want = []
                        for o in leaves_ev:
                            pth, x = [], o
                            while x in prod:
                                pth.append((prod[x], x))
                                x = prod[x].core
                            cs = []
                            for d, y in pth[::-1]:
                                cs.append([float(np.asarray(r[d][y]["ang"][k]).reshape(-1)[ev]) for k in ("alpha", "beta")]
                                          + [2.0 * math.log(_m8(r["b_matrix"][y], ev)[6])])
                            want.append((str(o), cs, [float(v) for v in qs[o][ev]], float(ms[o][ev])))
                        lines.append("C02r steps " + " ".join(C.f2h(v) for v in [1.0, 1.0, 0.0, 0.0] + toks))
                        checks.append(("msteps", want, "%s: chain %s event %d" % (where, ch, ev),
                                       {"cfg": cfg, "align_ref": align_ref, "p": jsonable_p({k: np.asarray(v)[ev:ev + 1] for k, v in pd.items()})}))
                else:
                    stat["three_body_chains_skipped"] = stat.get("three_body_chains_skipped", 0) + 1
                for o in dg.outs:
                    if o not in r["r_matrix"]:
                        continue
                    path, x = [], o
                    while x in prod:
                        path.append((prod[x], x))
                        x = prod[x].core
                    path = path[::-1]
                    for ev in range(nev):
                        b8, r8 = _m8(r["b_matrix"][o], ev), _m8(r["r_matrix"][o], ev)
                        q = [float(v) for v in qs[o][ev]]
                        m = float(ms[o][ev])
                        M = _c22(b8) @ _c22(r8)
                        sc = max(1.0, float(np.max(np.abs(M))) ** 2) * q[0]
                        big[ev] = max(big[ev], float(np.max(np.abs(M))))
                        lines.append("C02w actbr " + " ".join(C.f2h(v) for v in b8 + r8 + q))
                        checks.append(("act", (M, q, m, sc), "%s: chain %s particle %s event %d" % (where, ch, o, ev),
                                       {"cfg": cfg, "align_ref": align_ref, "p": jsonable_p({k: np.asarray(v)[ev:ev + 1] for k, v in pd.items()})}))
                        steps = []
                        for d, y in path:
                            steps += [float(np.asarray(r[d][y]["ang"][k]).reshape(-1)[ev]) for k in ("alpha", "beta")]
                            steps.append(2.0 * math.log(_m8(r["b_matrix"][y], ev)[6]))
                        lines.append("C02w route " + " ".join(C.f2h(v) for v in q + steps))
                        checks.append(("route", (M, q, m, sc), "%s: chain %s particle %s event %d, %d vertices" % (where, ch, o, ev, len(path)), None))
                        stat["routes"] += 1
                        stat["deep"] += len(path) >= 2
            # the rule-2 reference (1, r^-1 Boost_z r) must bring the momentum to rest as well (rule2_to_rest)
            for r2 in cap["rule2"][:1]:
                for o in dg.outs:
                    for ev in range(nev):
                        b8, r8 = _m8(r2[1][o]["b_matrix"], ev), _m8(r2[1][o]["r_matrix"], ev)
                        q = [float(v) for v in qs[o][ev]]
                        M = _c22(b8) @ _c22(r8)
                        sc = max(1.0, float(np.max(np.abs(M))) ** 2) * q[0]
                        big[ev] = max(big[ev], float(np.max(np.abs(M))))
                        lines.append("C02w actbr " + " ".join(C.f2h(v) for v in b8 + r8 + q))
                        checks.append(("act", (M, q, float(ms[o][ev]), sc), "%s: rule-2 reference of particle %s event %d" % (where, o, ev),
                                       {"cfg": cfg, "align_ref": align_ref, "p": jsonable_p({k: np.asarray(v)[ev:ev + 1] for k, v in pd.items()})}))
                        stat["rule2"] += 1
                        lines.append("C02r rule2 " + " ".join(C.f2h(float(v)) for v in [1.0] + list(p_top[ev]) + list(np.asarray(pd[str(o)], dtype=float)[ev])))
                        checks.append(("mrule2", r8, "%s: rule-2 reference of particle %s event %d (model rule2Step)" % (where, o, ev), None))
            for Rm in cap["R"]:
                for ev in range(nev):
                    g8 = _m8(Rm, ev)
                    lines.append("C02w su2 " + " ".join(C.f2h(v) for v in g8))
                    checks.append(("su2", (g8, big[ev] ** 2), "%s: element handed to get_euler_angle, event %d" % (where, ev), None))
                    stat["G"] += 1
                    stat["G_nontrivial"] += math.hypot(g8[4], g8[5]) > 1e-3
            # (d) LorentzVector.omega
            for o in dg.outs:
                om = np.asarray(LorentzVector.omega(tf.constant(qs[o])))
                for ev in range(nev):
                    lines.append("C02w omega " + " ".join(C.f2h(float(v)) for v in qs[o][ev]))
                    checks.append(("omega", float(om[ev]), "%s: omega of %s event %d" % (where, o, ev), None))
                    stat["omega"] += 1
    out = ctx.model.query(lines)
    nb = {"act": 0, "route": 0, "su2": 0, "omega": 0, "model": 0, "msteps": 0, "mrule2": 0}
    stat.update({"m_routes": 0, "m_deep": 0, "m_worst_step": 0.0, "m_worst_rest": 0.0, "m_worst_q": 0.0, "m_rule2": 0})

    def report(kind, what, detail):
        nb[kind] += 1
        if nb[kind] <= 2:
            res.broke(what, detail)
    for l, (kind, want, what, extra), o in zip(lines, checks, out):
        if o == "bad-op":
            res.broke("model driver bad-op (SL2C)", l[:200])
            return 0
        mv = np.array([C.h2f(x) for x in o.split()])
        if kind == "msteps":
            k = 0
            for (pname, cs, q, m) in want:
                n = int(mv[k]) if k < len(mv) else -1
                if n != len(cs):
                    report("msteps", "correspondence cascade model (RouteRest.stepTree): number of vertices on the decay path differs from cal_helicity_angle",
                           dict(extra, case=what, particle=pname, model=n, impl=len(cs)))
                    break
                st = mv[k + 1:k + 1 + 3 * n].reshape(n, 3)
                e, qm = mv[k + 1 + 3 * n:k + 5 + 3 * n], mv[k + 5 + 3 * n:k + 9 + 3 * n]
                k += 9 + 3 * n
                cs = np.array(cs)
                da = np.abs((st[:, 0] - cs[:, 0] + math.pi) % (2 * math.pi) - math.pi)
                dstep = float(max(np.max(da), np.max(np.abs(st[:, 1] - cs[:, 1])), np.max(np.abs(st[:, 2] - cs[:, 2]) / np.maximum(1.0, np.abs(cs[:, 2])))))
                stat["m_worst_step"] = max(stat["m_worst_step"], dstep)
                if not dstep <= STEP_TOL:
                    report("msteps", "correspondence cascade model (RouteRest.stepTree): (alpha, beta, omega) along a decay path differ from cal_helicity_angle / Boost_z_from_p",
                           dict(extra, case=what, particle=pname, model=st.tolist(), impl=cs.tolist(), diff=dstep))
                sc = max(1.0, math.exp(float(np.sum(np.abs(cs[:, 2]))))) * q[0]
                dq = float(np.max(np.abs(qm - np.array(q))) / q[0])
                stat["m_worst_q"] = max(stat["m_worst_q"], dq)
                if not dq <= 1e-7:
                    report("msteps", "correspondence RouteRest.topCoords vs numpy oracle of the top-frame momentum",
                           dict(extra, case=what, particle=pname, model=qm.tolist(), oracle=q))
                er = float(np.max(np.abs(e - np.array([m, 0, 0, 0]))) / sc)
                stat["m_worst_rest"] = max(stat["m_worst_rest"], er)
                if not er <= KIN_TOL * 100:
                    report("msteps", "route_to_rest_of_cascade fails numerically: routeL(model steps)(topCoords p) != (m,0,0,0)",
                           dict(extra, case=what, particle=pname, got=e.tolist(), mass=m, rel_err=er))
                stat["m_routes"] += 1
                stat["m_deep"] += n >= 2
            continue
        if kind == "mrule2":
            r8 = np.array(want)
            err = float(np.max(np.abs(mv[3:11] - r8)) / max(1.0, float(np.max(np.abs(r8)))))
            stat["m_rule2"] += 1
            if not err <= 1e-7:
                report("mrule2", "correspondence rule2Step/rule2R (model of aligned_angle_ref_rule2) vs captured reference r_matrix",
                       {"case": what, "model_steps": mv[:3].tolist(), "model": mv[3:11].tolist(), "impl": r8.tolist(), "err": err})
            continue
        if kind == "act":
            M, q, m, sc = want
            X = M @ _herm_np(q) @ M.conj().T
            mine = np.array([X[0, 0].real, X[0, 0].imag, X[0, 1].real, X[0, 1].imag, X[1, 0].real, X[1, 0].imag, X[1, 1].real, X[1, 1].imag])
            if not np.max(np.abs(mv - mine)) <= 1e-11 * sc:
                report("model", "correspondence SL2C Float model: act(b*r)(herm q) vs numpy", {"case": what, "model": list(mv), "numpy": list(mine)})
            err = float(np.max(np.abs(mv - np.array([m, 0, 0, 0, 0, 0, m, 0]))) / sc)
            stat["worst_route"] = max(stat["worst_route"], err)
            if not err <= KIN_TOL:
                report("act", "kinematic hypothesis RouteToRest fails on the implementation: (b_matrix*r_matrix) herm(q) (...)^dagger != m*1",
                       dict(extra, case=what, got=list(mv), mass=m, q_top_frame=q, rel_err=err))
        elif kind == "route":
            M, q, m, sc = want
            err = float(np.max(np.abs(mv[:4] - np.array([m, 0, 0, 0]))) / sc)
            stat["worst_route"] = max(stat["worst_route"], err)
            if not err <= KIN_TOL:
                report("route", "kinematic hypothesis RouteToRest fails on the implementation: routeL(alpha_i, beta_i, omega_i)(q) != (m,0,0,0)",
                       {"case": what, "got": list(mv[:4]), "mass": m, "q_top_frame": q, "rel_err": err})
            M8 = np.array([M[0, 0].real, M[0, 0].imag, M[0, 1].real, M[0, 1].imag, M[1, 0].real, M[1, 0].imag, M[1, 1].real, M[1, 1].imag])
            e2 = float(max(np.max(np.abs(mv[4:12] - M8)), np.max(np.abs(mv[12:20] - M8))) / max(1.0, np.max(np.abs(M8))))
            if not e2 <= KIN_TOL:
                report("model", "correspondence route matrix: product of Boost_z*Rotation_y*Rotation_z per vertex vs captured b_matrix*r_matrix",
                       {"case": what, "routeM": list(mv[4:12]), "code-shaped": list(mv[12:20]), "impl": list(M8), "err": e2})
        elif kind == "su2":
            g8, sc = want
            err = float(np.max(np.abs(mv)) / sc)
            stat["worst_G"] = max(stat["worst_G"], err)
            if not err <= KIN_TOL:
                report("su2", "alignment element handed to get_euler_angle is not unitary (IsSU2 fails on the implementation)",
                       {"case": what, "G": list(g8), "residuals": list(mv), "rel_err": err})
        else:
            if not abs(mv[0] - want) <= 1e-7 * max(1.0, abs(want)):
                report("omega", "correspondence omegaP vs LorentzVector.omega", {"case": what, "impl": want, "model": float(mv[0])})
    res.coverage["kinematic_routes_checked"] = stat["routes"]
    res.coverage["kinematic_routes_depth_ge_2"] = int(stat["deep"])
    res.coverage["kinematic_rule2_references_checked"] = stat["rule2"]
    res.coverage["kinematic_worst_route_residual_rel"] = stat["worst_route"]
    res.coverage["kinematic_alignment_elements_checked"] = stat["G"]
    res.coverage["kinematic_alignment_elements_nontrivial"] = int(stat["G_nontrivial"])
    res.coverage["kinematic_worst_unitarity_residual_rel"] = stat["worst_G"]
    res.coverage["kinematic_structures"] = [n for n, _ in structs]
    res.coverage["kinematic_tolerance"] = KIN_TOL
    res.coverage["cascade_model_routes_compared"] = stat["m_routes"]
    res.coverage["cascade_model_routes_depth_ge_2"] = int(stat["m_deep"])
    res.coverage["cascade_model_worst_step_diff"] = stat["m_worst_step"]
    res.coverage["cascade_model_worst_rest_residual_rel"] = stat["m_worst_rest"]
    res.coverage["cascade_model_worst_topcoords_diff_rel"] = stat["m_worst_q"]
    res.coverage["cascade_model_rule2_references_compared"] = stat["m_rule2"]
    res.coverage["cascade_model_three_body_chains_skipped"] = stat.get("three_body_chains_skipped", 0)
    return stat["routes"] * 2 + stat["G"] + stat["omega"] + stat["m_routes"] + stat["m_rule2"]


def correspond(ctx, res):
    import time
    t0 = time.time()
    n = correspond_rule1(ctx, res)
    t1 = time.time()
    n += correspond_matrices(ctx, res)
    t2 = time.time()
    n += correspond_left(ctx, res)
    n += correspond_dhom(ctx, res)
    t3 = time.time()
    n += correspond_kinematic(ctx, res)
    t4 = time.time()
    import c02_orient
    n += c02_orient.run(ctx, res)
    C.log("[C02] correspondence: rule1 %.1fs, matrices %.1fs, left+dhom %.1fs, kinematic %.1fs, orientation (C02f) %.1fs" % (t1 - t0, t2 - t1, t3 - t2, t4 - t3, time.time() - t4))
    res.coverage["traces_validated_against_impl"] = n


# ---------------------------------------------------------------------------------------------
# replay
# ---------------------------------------------------------------------------------------------

def replay(ctx, payload):
    r = payload.get("replay")
    if not r or "cfg_a" not in r:
        print("replay file names a broken obligation, not a failing input: %s" % json.dumps(payload.get("broken"), default=str)[:3000])
        return 1
    p = {k: np.array(v, dtype=float) for k, v in r["p"].items()}
    try:
        d1 = density(r["cfg_a"], r["params"], p)
    except Exception as e:
        print("REPLAY: configuration A raises %s: %s" % (type(e).__name__, e))
        return 1
    try:
        d2 = density(r["cfg_b"], r["params"], p)
    except Exception as e:
        print("REPLAY: configuration B raises %s(%s) where A gives %s -> still violated" % (type(e).__name__, str(e)[:100], d1[:3]))
        return 1
    bad = mismatch(d1, d2)
    print("REPLAY: densities A %s  B %s" % (d1[:4], d2[:4]))
    if r.get("expect") == "positive":
        ok = bool(np.all(np.isfinite(d1)) and np.all(d1 > 0))
        print("REPLAY: property C02 key %s %s" % (payload.get("key"), "not reproduced on this tree" if ok else "still violated"))
        return 0 if ok else 1
    print("REPLAY: property C02 key %s %s" % (payload.get("key"), "still violated" if len(bad) else "not reproduced on this tree"))
    return 1 if len(bad) else 0


MANIFEST = {
    "text": "Lean theorems: (i) SU2M algebra over real pairs (imported from C12b: associativity, det multiplicative, inv two-sided for det 1, det of Rz/Ry/Bz = 1) extended to the bookkeeping of cal_angle: every r_matrix / b_matrix / rule-2 reference built by cal_helicity_angle has det 1 for every decay path of any depth; (ii) align_cocycle: for any two references the alignment elements satisfy R'_k = G R_k with one G for all chains k (and G = the alignment element of the old reference chain w.r.t. the new one); (iii) ref_choice_total: the modelled aligned_angle_ref_rule1 assigns to every final particle exactly one reference chain = first chain producing it from the top particle, else chain 0, for EVERY ordered chain list; reference chains never get an aligned angle, all others do; (iv) permutation invariance of the coherent sum for lists and convention_invariant (Props/C02c.lean): for every final-state spin 2j <= 8, with the code's own alignment matrix D_matrix_conj(get_euler_angle(R_k)) (anti-multiplicativity on SU(2) and unitarity proved from euler_roundtrip, D_hom_su2, D_conj_unitary), arbitrary spectator indices, one or two aligned particles with independent references, the helicity-summed density is the same for both references, given that the alignment elements are in SU(2); (v) NEW, Props/C02d.lean (spinor map, all real angles / rapidities / four-vectors): boostZ_acts, rotZ_acts, rotY_acts (what SU2M.Boost_z / Rotation_z / Rotation_y do to a four-vector: boost with velocity -tanh(omega) along z, azimuth - alpha, polar angle - beta), boost_sign_tie (Boost_z(omega) = LorentzVector.rest_vector of a momentum along +z, regular branch), omega_of_momentum (acosh(LorentzVector.gamma(p)) has m cosh = E, m sinh = |p|), helicity_vertex_to_rest, rest_stabiliser (det A = 1, A (m 1) A^dagger = m 1, m != 0 => A in SU(2); massless counterexample), two_routes_rotation, route_matches_code (b_matrix*r_matrix accumulated as r*b[core]*r[core] is the ordered product of the per-vertex matrices, any depth), route_acts (it acts as the composed per-vertex Lorentz transformation), changeRef_isSU2 / alignR_isSU2 (G and every R_k ARE rotations) and convention_invariant_routes / _two_routes / order_and_reference_invariant_routes / convention_invariant_rule2_routes: the density is the same for two reference chains, and for rule 1 vs rule 2 (align_ref = center_mass), WITHOUT any IsSU2 hypothesis, under the named kinematic hypothesis RouteToRest (each chain's route was built from the momentum it is applied to; implied by LastVertexTracks) and m != 0. (vi) NEW, Props/C02e.lean: RouteToRest is DISCHARGED from the cascade model (templates/Cascade.lean.in + templates/RouteRest.lean.in): route_step_tracks (one vertex, any mother frame with the un-normalised set_z, any four-vector passing the guards, any bias: the recorded (alpha, beta, omega) satisfy LastVertexTracks and Boost_z*Rotation_y*Rotation_z maps herm(coords r) to m*1), route_step_is_rest_vector (the recorded step IS rest_vector followed by the passage to the daughter's axes (set_x, set_z), for every four-vector: the frame bookkeeping over the levels), route_to_rest_of_cascade (structural induction over ANY binary decay tree, ANY decay path, any momenta, any base axes: RouteToRest (route of the path) (top-frame momentum) sqrt(q.q), and the mass is > 0), convention_invariant_event / _two_event / order_and_reference_invariant_event / convention_invariant_rule2_event (the C02d statements with hypotheses on the EVENT only: chains of one event = trees over the same total momentum and base axes passing the code's guards; rule 2 built from the modelled angles of aligned_angle_ref_rule2 via rule2_polar), route_to_rest_random_z, route_to_rest_center_mass. (vii) NEW, Props/C02f.lean (the listed finding chain-order:one-topology-opposite-daughter-order as theorems; spins 2j <= 8, ALL events, ALL helicities, D-functions through the element-level statements of C01i): exactly_one_sheet_changes (between the data of a representative written (b, c) and one written (c, b) exactly one of the two daughters has its Rotation_z element multiplied by the central -1: s = (alpha_b < 0) decides which; orientation_flag_of_ranges), route_first_step_sheet / align_sheet (every route matrix through that daughter and every alignment element follow, any depth), mkD_sheet / top_D_orientation (get_D_matrix_lambda at an element times the central sign = (+-1)^(2j) times itself, padding zeros included), chain_amp_sheet_signs (ANY chain of the amplitude model templates/Amp.lean.in: central signs on the top-vertex element and on the alignment elements multiply every component of DecayChain.get_amp by the product of the (+-1)^(2j)), opposite_orientation_factor (a chain aligned to a reference outside the topology, read with the data of the opposite orientation: the CONSTANT (-1)^(sum of 2 j_f below its second-written daughter) = (-1)^(2 j_second), whatever the event flag, given fermion-number conservation), opposite_orientation_pair_factor (the constants of a (b, c) and a (c, b) chain multiply to (-1)^(2 J_A): the relative sign of two oppositely written chains changes by (-1)^(2 J_A) with the declaration order), other_topology_boundary (against a third chain both constants are +1 iff both daughters are bosons), density level for the chains of ONE topology: density_top_signs, one_topology_orientation_density (density from the O2 data = density from the O1 data with every oppositely written chain times (-1)^(2 J_A)), chain_order_invariant_integer_spin, chain_order_invariant_same_orientation (no dependence when J_A is an integer or all chains of the topology share the orientation: the exact boundary for a topology on its own), chain_order_dependence_witness (2 J_A = 1, two oppositely written chains, densities 16 vs 0 on the executable model over the reals, kernel-checked), declared_order_relative_sign.",
    "note": "C02f: the finding stays LISTED (two keys: half-integer mother; integer mother with two fermion daughters + a chain of another topology, the latter found from opposite_orientation_factor and reproduced on the unchanged tree: harness/c02_known/C02-known-mixed_order_fermion_daughter_repro.py). harness/c02_orient.py compares, on the reproducer family (J_A in {1/2, 1, 3/2}, B/D fermion or boson, both declaration orders, inner orders equal/opposite, with and without a chain of another topology), the stored angles with orientO1/orientO2 and the per-chain tensors of the real DecayGroup.get_amp of the two declarations with the factor chain_amp_sheet_signs predicts per event (1e-12; observed 2e-15); it recognises the two repair proposals on the tree (canonical representative: identical data, all ratios 1; orientation_sign attribute: prediction times the constants) and reports the literal '(-1)^(2 J_A) for an oppositely written decay' variant as broken (pair factor not constant). Repair proposals (NOT applied): fixes/C02-fix_C02_canonical_orientation.diff (standard_topology sorts the two daughters), fixes/C02-fix_C02_orientation_sign.diff (a chain gets (-1)^(2 j_second) per decay written opposite to the representative; recommended), fixes/C02-rejected_fix_C02_sign_2JA.diff (does not repair). No named kinematic hypothesis is left: RouteToRest is proved from the cascade model under the code's guards (massive, non-degenerate cross_unit, regular boost branch). Validated, not proved: that the cascade model IS the code (correspondence on every run: the Float instance computes the (alpha, beta, omega) of every decay path from the final momenta alone and is compared with what cal_helicity_angle stored / b_matrix encodes, 1e-6, observed 1e-14; topCoords vs a numpy oracle; rule2R(rule2Step) vs the captured rule-2 reference), the guard branches themselves (near-degenerate configurations), 3-body vertices, and the equality of the density ACROSS random_z / center_mass settings (search). The older check of RouteToRest on captured matrices is kept as a tie model <-> code (on the matrices captured from the real cal_angle: (b*r) herm(q) (b*r)^dagger = m*1 per chain / final particle / event with q from an independent numpy oracle, routeL(alpha_i, beta_i, omega_i)(q) = (m,0,0,0), per-vertex product = captured b*r, unitarity of every element handed to get_euler_angle; 1e-9 relative to E*max|M_ij|^2, observed 2e-15). The discrete model is compared exactly with the real aligned_angle_ref_rule1 on seeded chain lists (real DecayChain objects, token payloads) and with the keys of the real cal_angle output; the Float instance of the matrix bookkeeping is compared with the matrices the real cal_angle builds on real events (captured at get_euler_angle). Search = the property itself: pairs of ConfigLoader instances from permuted chain lists / inner alternatives / decay-section key order and re-optioned data sections (align_ref, random_z, center_mass, only_left_angle), parameters by name, same p4 in the parent rest frame and in a boosted frame, rel 1e-6 (the implementation's own acos forward error is 2e-8).",
    "technique": "Lean 4 proof (2x2 complex matrix algebra over real pairs, spinor map SL(2,C) -> Lorentz group, list induction, structural induction over decay trees with a frame/boost invariant, unitary mixing, central-sign gauge of the einsum of DecayChain.get_amp) + differential correspondence (incl. the kinematic hypothesis on captured matrices) + metamorphic search on the implementation",
}
