"""C18, round 2: the rest of tf_pwa/data.py (data_shape, data_cut, data_replace, data_strip, flatten_dict_data, batch_sum,
check_nan, LazyCall as an object, LazyFile, EvalLazy) and the dat_order / side-file plumbing of config_loader/data.py.
Model: lean/TfPwaV/Model/DataX.lean (prefix C18b of the line protocol); theorems: lean/TfPwaV/Props/C18b.lean.
Called from harness/c18.py (correspond / search / replay)."""
import itertools
import os
import random
import shutil
import tempfile

import common as C

NAN_TOKEN = 99999     # stands for NaN in the integer encoding of check_nan cases (TfPwaV.DataX.NAN)
PNAMES = ["B", "C", "D", "E", "F"]


def _np():
    import numpy as np
    return np


def stub_simple_data(order, outs=None):
    """a SimpleData object without the amplitude machinery: only what get_dat_order / savetxt / load_p4 /
    load_weight_file / load_extra_var read (the real methods are run)"""
    from tf_pwa.config_loader.data import SimpleData
    from tf_pwa.particle import BaseParticle

    class _DS:
        pass
    sd = object.__new__(SimpleData)
    ds = _DS()
    ds.outs = [BaseParticle(k) for k in (outs or [])]
    sd.decay_struct = ds
    sd.dic = {} if order is None else {"dat_order": list(order)}
    sd.lazy_file = False
    sd.lazy_call = False
    sd.extra_var = {"weight": {"default": 1}, "charge": {"key": "charge_conjugation", "default": 1}}
    return sd


def paths(t, pre=()):
    """(path, array) for every array; path elements ('k', key) for dict entries, ('i', idx) for list / tuple positions"""
    if isinstance(t, dict):
        for k, v in t.items():
            yield from paths(v, pre + (("k", k),))
    elif isinstance(t, (list, tuple)):
        for i, v in enumerate(t):
            yield from paths(v, pre + (("i", i),))
    else:
        yield pre, t


def float_tree(B, t):
    np = _np()
    return B.tree_map(t, lambda x: np.asarray(x, dtype=float))


def enc_flat(B, ret):
    items = []
    for k, v in ret.items():
        ks = "#%d" % k if isinstance(k, int) else B.keystr(k)
        items.append(ks + " " + B.encs(v))
    return "ok %d ; %s" % (len(items), " ; ".join(items))


CMP = {"gt": ">", "lt": "<", "ge": ">=", "le": "<="}


def np_cmp(np, op, x, c):
    return {"gt": x > c, "lt": x < c, "ge": x >= c, "le": x <= c}[op]


# ----------------------------------------------------------------------------- correspondence
def correspond(ctx, res):
    import c18 as B
    np = _np()
    from tf_pwa import data as D
    from tf_pwa.particle import BaseParticle
    rnd = random.Random(4000 + ctx.seed)
    V = getattr(ctx, "variant", None)
    if V is None:
        V = B.observe_variant()
    LV = B.lazy_variant()
    scale = 1 if ctx.quick else 30
    lines, impl, kinds = [], [], []

    def add(line, got, kind):
        lines.append("C18b " + line)
        impl.append(got)
        kinds.append(kind)

    def rkey(existing=None, p_existing=0.5):
        if existing and rnd.random() < p_existing:
            return rnd.choice(existing)
        k = rnd.choice(B.KEYS + ["zz"])
        return BaseParticle(k) if rnd.random() < 0.2 else k

    # --- data_shape -------------------------------------------------------------------------------
    for _ in range(60 * scale):
        n = rnd.choice(B.SIZES_Q)
        t = B.gen_tree(rnd, n, depth=rnd.choice([1, 2, 3]), p_empty=0.25, nonuniform=0.4 if rnd.random() < 0.4 else 0.0,
                       want_leaf=rnd.random() < 0.85)
        try:
            s = str(int(D.data_shape(t)))
        except Exception:  # noqa: BLE001
            s = "none"
        try:
            al = ",".join(str(int(sh[0])) for sh in D.data_shape(t, all_list=True))
        except Exception as e:  # noqa: BLE001
            al = "raise:" + type(e).__name__
        add("shape " + B.encs(t), s + " | " + al, "shape")
    for t in ({}, [], (), {"e": {}, "l": [(), []]}, [{}, np.zeros((0, 2))], {"a": np.arange(3.0), "b": np.arange(8.0).reshape(4, 2)}):
        try:
            s = str(int(D.data_shape(t)))
        except Exception:  # noqa: BLE001
            s = "none"
        add("shape " + B.encs(t), s + " | " + ",".join(str(int(sh[0])) for sh in D.data_shape(t, all_list=True)), "shape")

    # --- data_strip ---------------------------------------------------------------------------------
    for _ in range(80 * scale):
        t = B.gen_tree(rnd, rnd.choice([1, 2]), depth=rnd.choice([2, 3, 4]), p_empty=0.15)
        present = [k for p, _ in paths(t) for kind, k in p if kind == "k"]
        ks = [rkey(present, 0.7) for _ in range(rnd.randint(1, 3))]
        arg = ks[0] if (len(ks) == 1 and isinstance(ks[0], str) and rnd.random() < 0.5) else ks
        got, _ = B.show_opt(lambda: D.data_strip(t, arg), False)
        add("strip %d %s %s" % (len(ks), " ".join(B.keystr(k) for k in ks), B.encs(t)), got[3:] if got.startswith("ok ") else got, "strip")

    # --- data_replace -----------------------------------------------------------------------------------
    for _ in range(60 * scale):
        n = rnd.choice([1, 2, 3])
        t = B.gen_tree(rnd, n, depth=rnd.choice([1, 2]), p_empty=0.2)
        if rnd.random() < 0.1:
            t = np.arange(float(n))
        k = rkey(list(t.keys()) if isinstance(t, dict) else None, 0.5)
        if isinstance(k, BaseParticle) and rnd.random() < 0.5:
            k = BaseParticle(str(k))      # an equal but not identical key object
        v = B.gen_tree(rnd, n, depth=rnd.choice([0, 1]), p_empty=0.2, top=False)
        got, _ = B.show_opt(lambda: D.data_replace(t, k, v), False)
        add("replace %s %s %s" % (B.keystr(k), B.encs(t), B.encs(v)), got, "replace")

    # --- flatten_dict_data (incl. colliding joined keys, empty containers, int keys of lists) -----------------
    for _ in range(80 * scale):
        t = B.gen_tree(rnd, rnd.choice([1, 2]), depth=rnd.choice([1, 2, 3, 4]), p_empty=0.2)
        if isinstance(t, dict) and rnd.random() < 0.6:
            ps = [p for p, _ in paths(t) if len(p) >= 2]
            if ps:
                p = rnd.choice(ps)
                cut = rnd.randint(2, len(p))
                joined = "/".join(str(k) for _, k in p[:cut])
                t = dict(t)
                if rnd.random() < 0.5:
                    t[joined] = np.array([5.0])
                else:      # the colliding key first
                    t = {joined: np.array([7.0]), **t}
        got = enc_flat(B, D.flatten_dict_data(t))
        add("flatten " + B.encs(t), got, "flatten")

    # --- data_cut ---------------------------------------------------------------------------------------------
    for _ in range(36 * min(scale, 6)):
        n = rnd.choice([1, 2, 3, 7, 16])
        t = B.gen_tree(rnd, n, depth=rnd.choice([1, 2]), p_empty=0.2, nonuniform=0.3 if rnd.random() < 0.15 else 0)
        if not isinstance(t, dict):
            t = {"t": t}
        var = np.array([rnd.randint(-5, 5) for _ in range(n)], dtype=float)
        r = rnd.random()
        if r < 0.5:
            t["m"] = var
            path = ["m"]
        elif r < 0.85:
            t["q"] = {"u": [np.arange(n)], "m": var}
            path = ["q", "m"]
        else:
            t["m"] = var
            path = ["nokey"]
        op = rnd.choice(sorted(CMP))
        c = rnd.randint(-4, 4)
        vm = {"v": path[0] if len(path) == 1 and rnd.random() < 0.5 else tuple(path)}
        got, _ = B.show_opt(lambda: D.data_to_numpy(D.data_cut(t, "v %s %d" % (CMP[op], c), var_map=vm)), False)
        add("cut %s %d %d %s %s" % (op, c, len(path), " ".join(path), B.encs(t)), got, "cut")

    # --- batch_sum --------------------------------------------------------------------------------------------------
    def total(piece):
        return sum(int(np.sum(x)) for x in B.leaves(piece))

    bs_cases = []
    for _ in range(60 * scale):
        n = rnd.choice(B.SIZES_Q)
        bs_cases.append((B.gen_tree(rnd, n, depth=rnd.choice([1, 2, 3]), p_empty=0.2), B.pick_b(rnd, n)))
    bs_cases += [({"a": np.arange(1001.0), "e": {}}, 1), ({"a": np.arange(5.0), "t": ()}, 2), ({}, 1), ((), 1)]
    for t, b in bs_cases:
        try:
            got = "ok %d" % D.batch_sum(total, t, b)
        except Exception:  # noqa: BLE001
            got = "none"
        add("bsum %d %d %s" % (V, b, B.encs(t)), got, "bsum")

    # --- check_nan ---------------------------------------------------------------------------------------------------
    for _ in range(40 * scale):
        n = rnd.choice([1, 2, 3, 7])
        t = float_tree(B, B.gen_tree(rnd, n, depth=rnd.choice([1, 2, 3]), p_empty=0.2))
        p_nan = rnd.choice([0.0, 0.0, 0.1, 0.5])

        def plant(x, tok):
            x = x.copy()
            flat = x.reshape(-1)
            for i in range(flat.size):
                if plant.rnd.random() < p_nan:
                    flat[i] = tok
            return x
        s = rnd.random()
        plant.rnd = random.Random(s)
        t_enc = B.tree_map(t, lambda x: plant(x, float(NAN_TOKEN)))
        plant.rnd = random.Random(s)
        t_real = B.tree_map(t, lambda x: plant(x, float("nan")))
        nr = rnd.random() < 0.5
        got, _ = B.show_opt(lambda: B.tree_map(D.check_nan(t_real, no_raise=nr), lambda ok: np.array([1.0 if ok else 0.0])), False)
        add("checknan %d %s" % (int(nr), B.encs(t_enc)), got, "checknan")

    # --- LazyCall as an object ------------------------------------------------------------------------------------------
    for _ in range(40 * scale):
        n = rnd.choice([1, 2, 3])
        sets = []
        for _s in range(rnd.randint(0, 5)):
            sets.append((rkey([k for k, _ in sets], 0.4), B.gen_tree(rnd, n, depth=rnd.choice([0, 0, 1]), p_empty=0.2, top=False)))
        key = rkey([k for k, _ in sets], 0.6)
        if isinstance(key, BaseParticle) and rnd.random() < 0.5:
            key = BaseParticle(str(key))
        if sets and rnd.random() < 0.25:        # the other spelling of an attached key (str <-> key object): a different key
            k0 = rnd.choice(sets)[0]
            key = str(k0) if isinstance(k0, BaseParticle) else BaseParticle(k0)
        L = D.LazyCall(lambda d: d, {})
        for k, v in sets:
            L[k] = v
        g1 = L[key]
        g2 = L.get(key)
        got = ",".join(B.keystr(k) for k in L.extra) + " | " + ("none" if g1 is None else "ok " + B.encs(g1))
        if (g1 is None) != (g2 is None) or (g1 is not None and g1 is not g2):
            got += " get!=getitem"
        add("lazyget %s %d %s" % (B.keystr(key), len(sets), " ".join(B.keystr(k) + " " + B.encs(v) for k, v in sets)), got, "lazyget")

    def rand_extra(n, keys=("weight", "y", "c", "e")):
        extra = {}
        if rnd.random() < 0.75:
            for k in rnd.sample(list(keys), rnd.randint(1, 3)):
                extra[k] = B.gen_tree(rnd, n, depth=rnd.choice([0, 0, 1]), p_empty=0.3, top=False)
        return extra

    for _ in range(40 * scale):
        n = rnd.choice([1, 2, 3, 7])
        x = B.gen_tree(rnd, n, depth=rnd.choice([1, 2]), p_empty=0.15)
        fid = rnd.choice([1, 3, 1, 3, 2])
        extra = rand_extra(n)
        key = rnd.choice(["y", "weight", "c", "new", "e"])
        val = B.gen_tree(rnd, n, depth=rnd.choice([0, 0, 1]), p_empty=0.2, top=False)

        def mk():
            L = D.LazyCall(B.test_f(fid), x)
            for k, v in extra.items():
                L[k] = v
            return L
        L = mk()
        new, _ = B.show_opt(lambda: D.data_to_numpy(D.data_replace(L, key, val).eval()), True)
        old, _ = B.show_opt(lambda: D.data_to_numpy(L.eval()), True)
        add("lazyreplace %d %s %s %s %s" % (fid, key, B.encs(x), B.encs(extra), B.encs(val)), new + " | " + old, "lazyreplace")

    if V == 1 and LV == 1:
        for _ in range(30 * scale):
            n = rnd.choice([2, 3, 7])
            x = B.gen_tree(rnd, n, depth=rnd.choice([1, 2]), p_empty=0.15)
            fid = rnd.choice([1, 3, 3])
            m = rnd.choice([2, 2, 3])
            xs, es = [], []
            common_keys = rnd.sample(["weight", "c", "s"], rnd.randint(0, 2))
            for i in range(m):
                ni = n if i == 0 else rnd.randint(1, n)
                xi = B.tree_map(x, lambda a: a[:ni] + i)
                e = {k: np.array([rnd.randint(-9, 9) for _ in range(ni)], dtype=float) for k in common_keys}
                if rnd.random() < 0.2:
                    e["only%d" % i] = np.arange(float(ni))     # not in every extra: dropped by the key intersection
                xs.append(xi)
                es.append(e)
            b = B.pick_b(rnd, n)

            def run():
                Ls = []
                for xi, e in zip(xs, es):
                    L = D.LazyCall(B.test_f(fid), xi)
                    for k, v in e.items():
                        L[k] = v
                    Ls.append(L)
                return D.data_merge(*Ls)
            try:
                M = run()
            except Exception:  # noqa: BLE001
                M = None
            if M is None:
                got = "none"
            else:
                ev, _ = B.show_opt(lambda: D.data_to_numpy(M.eval()), True)

                def it():
                    M.as_dataset(b)
                    return D.data_to_numpy(D.data_merge(*[p for p in M]))
                itv, _ = B.show_opt(it, True)
                got = ev + " | " + itv
            add("lazymerge %d %d %d %s" % (fid, b, m, " ".join(B.encs(xi) + " " + B.encs(e) for xi, e in zip(xs, es))), got, "lazymerge")

        for hi in range(10 * min(scale, 4)):
            n = rnd.choice([1, 2, 3, 7])
            x = B.gen_dict_tree(rnd, n)
            gid = rnd.choice([1, 3])
            e2 = {}
            if rnd.random() < 0.7:
                for k in rnd.sample(["weight", "y", "c"], rnd.randint(1, 2)):
                    e2[k] = np.array([rnd.randint(-9, 9) for _ in range(n)], dtype=float)
            b = [1, 2, n + 5, max(1, n - 1)][hi % 4]

            def mkf():
                L = D.LazyCall(B.test_f(gid), D.LazyFile(x))
                for k, v in e2.items():
                    L[k] = v
                return L

            def itf():
                L = mkf()
                L.as_dataset(b)
                return D.data_to_numpy(D.data_merge(*[p for p in L]))
            itv, _ = B.show_opt(itf, True)
            ev, _ = B.show_opt(lambda: D.data_to_numpy(mkf().eval()), True)
            add("lazyfile %d %d %s %s" % (gid, b, B.encs(x), B.encs(e2)), itv + " | " + ev, "lazyfile")
    else:
        res.notes.append("C18b: lazymerge / lazyfile correspondence skipped (model mirrors the fixed generator only)")

    # --- dat_order (SimpleData.get_dat_order / savetxt / load_p4) and side files (load_extra_var) through real files ----
    tmp = tempfile.mkdtemp(prefix="c18x_")
    try:
        for ci in range(40 * scale):
            n = rnd.randint(1, 5)
            N = rnd.choice([1, 2, 3, 5])
            names = PNAMES[:n]
            order = list(names)
            rnd.shuffle(order)
            r = rnd.random()
            if r < 0.15 and n > 1:
                order = order[:rnd.randint(1, n - 1)]           # a sub-list of the particles
            elif r < 0.25:
                order = order + [rnd.choice(order)]            # a repeated name
            elif r < 0.3:
                order = order + ["Z"]                           # a name without momenta
            data = {k: np.array([rnd.randint(-99, 99) for _ in range(4 * N)], dtype=float).reshape(N, 4) for k in names}
            sd = stub_simple_data(order)
            path = os.path.join(tmp, "o%d.%s" % (ci, rnd.choice(["dat", "npy", "txt"])))
            form = rnd.choice(["dict", "particle", "list"])
            try:
                if form == "dict":
                    sd.savetxt(path, data)
                elif form == "particle":
                    sd.savetxt(path, {"particle": {BaseParticle(k): {"p": v} for k, v in data.items()}})
                else:
                    sd.savetxt(path, [data[k] for k in order])
                rows = (np.load(path) if path.endswith("npy") else np.loadtxt(path)).reshape(-1, 4)
            except Exception:  # noqa: BLE001
                rows = None
            if rows is None:
                got = "none"
            else:
                try:
                    back = sd.load_p4([path] if rnd.random() < 0.5 else path)
                    got = B.encs(rows) + " | " + B.encs({str(k): np.asarray(v) for k, v in back.items()})
                except Exception:  # noqa: BLE001
                    got = B.encs(rows) + " | none"
            add("datord %d %s %s" % (len(order), " ".join(order), B.encs(data)), got, "datord")
        for ci in range(40 * scale):
            nd = rnd.randint(1, 8)
            files = []
            for fi in range(rnd.randint(1, 3)):
                a = np.array([rnd.randint(-9, 9) for _ in range(rnd.randint(1, 6))], dtype=float)
                p = os.path.join(tmp, "w%d_%d.%s" % (ci, fi, rnd.choice(["dat", "npy"])))
                if p.endswith("npy"):
                    np.save(p, a)
                else:
                    np.savetxt(p, a)
                files.append((p, a))
            sd = stub_simple_data(["B"])
            arg = [p for p, _ in files] if (len(files) > 1 or rnd.random() < 0.5) else files[0][0]
            which = rnd.choice(["weight", "charge"])
            try:
                ev = sd.load_extra_var(nd, **{which: arg})
                got = B.encs(np.asarray(ev["weight" if which == "weight" else "charge_conjugation"]))
            except Exception as e:  # noqa: BLE001
                got = "raise:" + type(e).__name__
            add("loadw %d %d %s" % (nd, len(files), " ".join(B.encs(a) for _, a in files)), got, "loadw")
    finally:
        shutil.rmtree(tmp, ignore_errors=True)

    model = ctx.model.query(lines)
    dis = [(l, a, b, k) for l, a, b, k in zip(lines, impl, model, kinds) if a.rstrip() != b.rstrip()]
    by_kind = {}
    for k in kinds:
        by_kind[k] = by_kind.get(k, 0) + 1
    res.coverage["c18b_ops_by_kind"] = by_kind
    res.coverage["c18b_disagreements"] = len(dis)
    res.coverage["traces_validated_against_impl"] = res.coverage.get("traces_validated_against_impl", 0) + len(lines)
    res.coverage["evaluations"] = res.coverage.get("evaluations", 0) + len(lines)
    for i in (0, len(lines) // 2, len(lines) - 1):
        res.samples.append({"op": lines[i][:300], "impl": impl[i][:300], "model": model[i][:300]})
    if dis:
        l, a, b, k = dis[0]
        res.broke("correspondence %s (model TfPwaV.DataX vs tf_pwa.data / config_loader.data)" % k,
                  {"op": l[:1500], "impl": a[:1500], "model": b[:1500], "n_disagree": len(dis), "kinds": sorted({d[3] for d in dis})})


# ----------------------------------------------------------------------------- search (model-independent oracles)
def key_order_equal(a, b):
    if isinstance(a, dict):
        if not isinstance(b, dict) or [str(k) for k in a] != [str(k) for k in b]:
            return False
        return all(key_order_equal(x, y) for x, y in zip(a.values(), b.values()))
    if isinstance(a, (list, tuple)):
        return isinstance(b, (list, tuple)) and len(a) == len(b) and all(key_order_equal(x, y) for x, y in zip(a, b))
    return True


def search(ctx, res):
    import c18 as B
    np = _np()
    from tf_pwa import data as D
    from tf_pwa.particle import BaseParticle
    rnd = random.Random(177 + ctx.seed)
    hard = (not ctx.quick) or ctx.suspect
    mult = 15 if not ctx.quick else (3 if ctx.suspect else 1)
    st = {"mask_partition": 0, "cut": 0, "replace": 0, "strip": 0, "flatten": 0, "batch_sum": 0, "check_nan": 0, "shape": 0,
          "lazy_object": 0, "lazy_merge": 0, "lazy_file": 0, "key_order": 0, "dat_order": 0, "side_files": 0, "config": 0}

    def P(**kw):
        d = {"op": "x_search"}
        d.update(kw)
        return d

    # 1. a mask and its complement partition the events of every array; data_cut = numpy boolean indexing
    for _ in range(80 * mult):
        n = rnd.choice(B.SIZES_Q)
        t = B.gen_tree(rnd, n, depth=rnd.choice([1, 2, 3]), p_empty=0.2)
        sel = np.array([rnd.random() < rnd.choice([0.0, 0.3, 0.5, 1.0]) for _ in range(n)], dtype=bool)
        pay = P(what="mask_partition", tree=B.pack(t), sel=sel.tolist())
        try:
            a = D.data_to_numpy(D.data_mask(t, sel))
            c = D.data_to_numpy(D.data_mask(t, ~sel))
        except Exception as e:  # noqa: BLE001
            res.fail("data_mask:raises", "data_mask raises %s" % type(e).__name__, pay)
            continue
        st["mask_partition"] += 1
        la, lc, lt = list(B.leaves(a)), list(B.leaves(c)), list(B.leaves(t))
        ok = len(la) == len(lt) == len(lc)
        if ok:
            for x, xa, xc in zip(lt, la, lc):
                out = np.empty_like(np.asarray(x))
                if xa.shape[0] != int(sel.sum()) or xc.shape[0] != n - int(sel.sum()):
                    ok = False
                    break
                out[sel] = xa
                out[~sel] = xc
                if not np.array_equal(out, x):
                    ok = False
                    break
        if not ok:
            res.fail("data_mask:partition", "data_mask(t, sel) and data_mask(t, ~sel) do not partition the events of every array; sel=%s t=%s" % (
                sel.astype(int).tolist(), B.encs(t)[:200]), pay)
    for _ in range(12 * min(mult, 5)):
        n = rnd.choice([1, 3, 7, 16])
        t = B.gen_tree(rnd, n, depth=rnd.choice([1, 2]), p_empty=0.15)
        t = t if isinstance(t, dict) else {"t": t}
        var = np.array([rnd.randint(-5, 5) for _ in range(n)], dtype=float)
        t["q"] = {"m": var}
        op, c = rnd.choice(sorted(CMP)), rnd.randint(-4, 4)
        cond = np_cmp(np, op, var, c)
        try:
            got = D.data_to_numpy(D.data_cut(t, "v %s %d" % (CMP[op], c), var_map={"v": ("q", "m")}))
        except Exception as e:  # noqa: BLE001
            res.fail("data_cut:raises", "data_cut raises %s" % type(e).__name__, P(what="cut", tree=B.pack(t)))
            continue
        st["cut"] += 1
        if not B.tree_equal(got, B.tree_map(t, lambda x: x[cond])):
            res.fail("data_cut:rows", "data_cut(t, 'v %s %d') is not t[v %s %d] array by array" % (CMP[op], c, CMP[op], c), P(what="cut", tree=B.pack(t)))

    # 2. data_replace / data_strip / flatten_dict_data / data_shape against path oracles
    for _ in range(80 * mult):
        n = rnd.choice([1, 2, 3])
        t = B.gen_tree(rnd, n, depth=rnd.choice([2, 3, 4]), p_empty=0.15)
        pay = P(what="tree_ops", tree=B.pack(t))
        # data_shape
        lt = list(B.leaves(t))
        st["shape"] += 1
        if [tuple(s) for s in D.data_shape(t, all_list=True)] != [x.shape for x in lt] or (lt and D.data_shape(t) != lt[0].shape[0]):
            res.fail("data_shape", "data_shape differs from the shapes of the arrays in data_map order", pay)
        # data_to_tensor / data_to_numpy keep structure, key order and values
        tt = D.data_to_numpy(D.data_to_tensor(t))
        if not B.tree_equal(tt, t) or not key_order_equal(tt, t) or D.split_generator is not D.data_split:
            res.fail("data_to_tensor/data_to_numpy", "data_to_numpy(data_to_tensor(t)) != t", pay)
        # data_strip
        present = [k for p, _ in paths(t) for kind, k in p if kind == "k"]
        ks = [rnd.choice(present)] if present and rnd.random() < 0.8 else ["nokey"]
        if rnd.random() < 0.3 and present:
            ks.append(rnd.choice(present))
        s1 = D.data_strip(t, ks)
        st["strip"] += 1
        want = [(p, x) for p, x in paths(t) if not any(kind == "k" and any(type(k) is type(q) and k == q for q in ks) for kind, k in p)]
        gotp = list(paths(s1))
        if [p for p, _ in gotp] != [p for p, _ in want] or not all(x is y or np.array_equal(x, y) for (_, x), (_, y) in zip(gotp, want)):
            res.fail("data_strip:paths", "data_strip(t, %s) does not keep exactly the arrays whose path avoids the keys; t=%s" % (
                [B.keystr(k) for k in ks], B.encs(t)[:200]), pay)
        elif not B.tree_equal(D.data_strip(s1, ks), s1) or not key_order_equal(D.data_strip(s1, ks), s1):
            res.fail("data_strip:idempotent", "data_strip is not idempotent on %s" % B.encs(t)[:200], pay)
        # data_replace on a dict
        if isinstance(t, dict):
            k = rnd.choice(list(t.keys()) + ["newkey"])
            v = np.arange(float(n))
            before = list(t.items())
            r = D.data_replace(t, k, v)
            st["replace"] += 1
            exp_keys = [kk for kk, _ in before] + ([] if any(kk is k or (type(kk) is type(k) and kk == k) for kk, _ in before) else [k])
            ok = list(r.keys()) == exp_keys and r[k] is v and all(r[kk] is vv for kk, vv in before if not (type(kk) is type(k) and kk == k))
            ok = ok and [(kk, id(vv)) for kk, vv in t.items()] == [(kk, id(vv)) for kk, vv in before]
            if not ok:
                res.fail("data_replace:others", "data_replace(t, %s, v) changes another entry, the key order or its input; t=%s" % (B.keystr(k), B.encs(t)[:200]), pay)
        # flatten_dict_data
        flat = D.flatten_dict_data(t)
        st["flatten"] += 1
        exp = {}
        for p, x in paths(t):
            key = p[0][1] if len(p) == 1 else "/".join(str(k) for _, k in p)
            exp[key] = x
        if list(flat.keys()) != list(exp.keys()) or not all(flat[k] is exp[k] for k in exp):
            res.fail("flatten_dict_data:leaves", "flatten_dict_data(t) is not {joined path: array} in data_map order; t=%s" % B.encs(t)[:200], pay)

    # 3. batch_sum(f) = f(whole sample) for additive f; batch_call_numpy; check_nan
    for _ in range(60 * mult):
        n = rnd.choice(B.SIZES_Q)
        t = B.gen_tree(rnd, n, depth=rnd.choice([1, 2, 3]), p_empty=0.15)
        b = B.pick_b(rnd, n)
        a, c = rnd.randint(-3, 3), rnd.randint(-4, 4)
        mode = rnd.randint(0, 1)

        def f(d):
            ls = list(B.leaves(d))
            if mode == 0:
                return sum(float(np.sum(x)) * a + c * x.shape[0] for x in ls)
            return np.array([np.sum(x) * a + c * x.shape[0] for x in ls])
        pay = P(what="batch_sum", tree=B.pack(t), b=b)
        try:
            got = D.batch_sum(f, t, b)
        except Exception as e:  # noqa: BLE001
            res.fail("batch_sum:raises", "batch_sum raises %s (b=%d) on %s" % (type(e).__name__, b, B.encs(t)[:200]), pay)
            continue
        st["batch_sum"] += 1
        if not np.array_equal(np.asarray(got), np.asarray(f(t))):
            res.fail("batch_sum:whole-sample", "batch_sum(f, t, %d) = %s differs from f(t) = %s for additive f (n=%d); t=%s" % (
                b, got, f(t), n, B.encs(t)[:200]), pay)
        g = lambda d: B.tree_map(d, lambda x: x * a + c)  # noqa: E731
        if not B.tree_equal(D.batch_call_numpy(g, t, b), g(t)):
            res.fail("batch_call_numpy:whole-sample", "batch_call_numpy differs from f(t)", pay)
    for _ in range(40 * mult):
        n = rnd.choice([1, 2, 5])
        t = float_tree(B, B.gen_tree(rnd, n, depth=rnd.choice([1, 2, 3]), p_empty=0.2))
        pn = rnd.choice([0.0, 0.2])
        t = B.tree_map(t, lambda x: np.where(np.array([rnd.random() < pn for _ in range(x.size)]).reshape(x.shape), np.nan, x))
        want = B.tree_map(t, lambda x: not bool(np.isnan(x).any()))
        st["check_nan"] += 1
        anynan = any(np.isnan(x).any() for x in B.leaves(t))
        try:
            r1 = D.check_nan(t, no_raise=True)
            try:
                r2 = D.check_nan(t)
                raised = False
            except ValueError:
                raised = True
        except Exception as e:  # noqa: BLE001
            res.fail("check_nan:raises", "check_nan(no_raise=True) raises %s" % type(e).__name__, P(what="check_nan"))
            continue
        flags = lambda z: [bool(v) for _, v in paths(z)]  # noqa: E731
        if flags(r1) != flags(want) or [p for p, _ in paths(r1)] != [p for p, _ in paths(want)] or raised != anynan or (not raised and flags(r2) != flags(want)):
            res.fail("check_nan:flags", "check_nan does not flag exactly the arrays holding a NaN", P(what="check_nan"))

    # 4. LazyCall as an object
    for _ in range(30 * min(mult, 8)):
        n = rnd.choice([2, 3, 7, 16])
        x = B.gen_tree(rnd, n, depth=rnd.choice([1, 2]), p_empty=0.0)
        if B.has_empty(x, (tuple,)):
            continue
        a = rnd.randint(1, 3)
        f = lambda d: {"y": B.tree_map(d, lambda q: q * a), "s": B.tree_map(d, lambda q: q + 1)}  # noqa: E731
        w = np.array([rnd.randint(-9, 9) for _ in range(n)], dtype=float)
        w2 = w + 100
        pay = P(what="lazy_object", x=B.pack(x))
        L = D.LazyCall(f, x)
        L["weight"] = w
        st["lazy_object"] += 1
        bad = None
        if L["weight"] is not w or L.get("weight") is not w or L["nokey"] is not None or L.get("nokey", 5) != 5 \
                or L[BaseParticle("weight")] is not None or L.get(BaseParticle("weight")) is not None:
            bad = "__getitem__/get do not return the attached value / the default (a key object printing as 'weight' is a different key)"
        L2 = D.data_replace(L, "weight", w2)
        L3 = L.copy()
        L3["z"] = w2
        if bad is None and (L["weight"] is not w or "z" in L.extra or L2["weight"] is not w2 or L2.x is not L.x or L3["weight"] is not w):
            bad = "data_replace / copy share the extra dict with the original (or lose x / items)"
        if bad is None and (D.data_shape(L) != n or len(L) != n):
            bad = "data_shape(L) / len(L) is not the number of events"
        if bad is None:
            ev = D.data_to_numpy(L.eval())
            ev2 = D.data_to_numpy(L2.eval())
            if not np.array_equal(ev["weight"], w) or not np.array_equal(ev2["weight"], w2) or not B.tree_equal(ev["y"], f(x)["y"]) \
                    or not np.array_equal(D.data_to_numpy(D.data_index(L, "weight")), w):
                bad = "eval() / data_index(L, key) do not show the attached value under its key"
        if bad:
            res.fail("LazyCall:object", "LazyCall object protocol: " + bad, pay)
            continue
        # merge of LazyCalls = merge of the eager values
        k = rnd.randint(1, n - 1)
        xa, xb = B.tree_map(x, lambda q: q[:k]), B.tree_map(x, lambda q: q[k:])
        La, Lb = D.LazyCall(f, xa), D.LazyCall(f, xb)
        La["weight"], Lb["weight"] = w[:k], w[k:]
        try:
            M = D.data_merge(La, Lb)
            evm = D.data_to_numpy(M.eval())
            b = B.pick_b(rnd, n)
            M.as_dataset(b)
            itm = D.data_to_numpy(D.data_merge(*[p for p in M]))
        except Exception as e:  # noqa: BLE001
            res.fail("LazyCall.merge:raises", "data_merge of LazyCalls raises %s" % type(e).__name__, pay)
            continue
        st["lazy_merge"] += 1
        want = dict(f(x))
        want["weight"] = w
        if not B.tree_equal(evm, want) or not B.tree_equal(itm, want):
            res.fail("LazyCall.merge:eval", "data_merge(L1, L2) of two halves: eval()/iteration differ from the eager value of the whole sample (weights must follow their events)", pay)
        # EvalLazy
        g = lambda d: B.tree_map(d, lambda q: q * 2)  # noqa: E731
        E = D.EvalLazy(g)
        if not B.tree_equal(D.data_to_numpy(E(L)), g(D.data_to_numpy(L.eval()))) or not B.tree_equal(E(x), g(x)):
            res.fail("EvalLazy", "EvalLazy(g)(L) differs from g(L.eval())", pay)
    for i in range(8 * min(mult, 4)):
        n = rnd.choice([1, 3, 7, 16])
        x = B.gen_dict_tree(rnd, n)
        a = rnd.randint(1, 3)
        f = lambda d: {"y": B.tree_map(d, lambda q: q * a)}  # noqa: E731
        w = np.arange(float(n))
        b = [1, 2, n, n + 5][i % 4]
        try:
            L = D.LazyCall(f, D.LazyFile(x))
            L["weight"] = w
            L.as_dataset(b)
            it = D.data_to_numpy(D.data_merge(*[p for p in L]))
            bc = D.data_to_numpy(D.batch_call(lambda d: d, L, b))
            ev = D.data_to_numpy(L.eval())
        except Exception as e:  # noqa: BLE001
            res.fail("LazyFile:raises", "LazyCall over a LazyFile raises %s: %s" % (type(e).__name__, str(e)[:100]), P(what="lazy_file", x=B.pack(x), b=b))
            continue
        st["lazy_file"] += 1
        want = {"y": f(x)["y"], "weight": w}
        if not (B.tree_equal(it, want) and B.tree_equal(bc, want) and B.tree_equal(ev, want)):
            res.fail("LazyFile:lazy-vs-eager", "LazyCall(f, LazyFile(x)) (batch %d, %d events): batches / batch_call / eval differ from {**f(x), weight}" % (b, n),
                     P(what="lazy_file", x=B.pack(x), b=b))

    # 5. files
    tmp = tempfile.mkdtemp(prefix="c18xs_")
    try:
        # save_data / save_dataz / load_data keep the key order (a pickled dict)
        for ci in range(10 * min(mult, 5)):
            t = B.gen_tree(rnd, rnd.choice([1, 3]), depth=rnd.choice([1, 2, 3]), p_empty=0.2)
            t = t if isinstance(t, dict) else {"t": t}
            f5, f6 = os.path.join(tmp, "k%d.npy" % ci), os.path.join(tmp, "k%d.npz" % ci)
            D.save_data(f5, t)
            D.save_dataz(f6, t)
            st["key_order"] += 2
            for fn in (f5, f6):
                back = D.load_data(fn)
                if not B.tree_equal(t, back) or not key_order_equal(t, back):
                    res.fail("save_data/load_data:key-order", "load_data(%s) does not give the same tree with the same key order" % os.path.basename(fn), P(what="key_order", tree=B.pack(t)))
        # dat_order: every permutation of the final particles, all savetxt forms, text and npy
        for n in ([2, 3] if not hard else [1, 2, 3, 4]):
            names = PNAMES[:n]
            N = rnd.choice([1, 2, 5])
            p4 = {k: np.array([rnd.randint(-99, 99) for _ in range(4 * N)], dtype=float).reshape(N, 4) for k in names}
            perms = list(itertools.permutations(names))
            for pi, order in enumerate(perms):
                sd = stub_simple_data(order, outs=names)
                ext = ["dat", "npy"][pi % 2]
                form = ["dict", "particle", "list"][pi % 3]
                f0 = os.path.join(tmp, "p%d_%d.%s" % (n, pi, ext))
                pay = P(what="dat_order", order=list(order), form=form, ext=ext)
                try:
                    if form == "dict":
                        sd.savetxt(f0, dict(p4))
                    elif form == "particle":
                        sd.savetxt(f0, {"particle": {BaseParticle(k): {"p": v, "m": v[:, 0]} for k, v in p4.items()}})
                    else:
                        sd.savetxt(f0, [p4[k] for k in order])
                    back = sd.load_p4([f0])
                except Exception as e:  # noqa: BLE001
                    res.fail("SimpleData.savetxt/load_p4:raises", "savetxt/load_p4 raises %s for dat_order=%s" % (type(e).__name__, list(order)), pay)
                    continue
                st["dat_order"] += 1
                if [str(k) for k in back] != list(order) or not all(np.array_equal(np.asarray(v), p4[str(k)]) for k, v in back.items()):
                    res.fail("SimpleData.savetxt/load_p4:dat_order", "savetxt(%s form, .%s) + load_p4 with dat_order=%s does not give every particle its own momenta" % (form, ext, list(order)), pay)
            # no dat_order in the configuration: the order of decay_struct.outs
            sd = stub_simple_data(None, outs=names)
            if [str(k) for k in sd.get_dat_order()] != names:
                res.fail("SimpleData.get_dat_order:default", "get_dat_order() without dat_order is not decay_struct.outs", P(what="dat_order_default"))
        # side files: entry i of the weight / charge file belongs to event i, files are concatenated in the given order
        for ci in range(10 * min(mult, 5)):
            nd = rnd.randint(1, 9)
            parts = [np.array([rnd.randint(-9, 9) for _ in range(rnd.randint(1, 6))], dtype=float) for _ in range(rnd.randint(1, 3))]
            fs = []
            for fi, a in enumerate(parts):
                p = os.path.join(tmp, "sw%d_%d.%s" % (ci, fi, ["dat", "npy"][(ci + fi) % 2]))
                np.save(p, a) if p.endswith("npy") else np.savetxt(p, a)
                fs.append(p)
            sd = stub_simple_data(["B"])
            ev = sd.load_extra_var(nd, weight=fs, charge=fs[0])
            st["side_files"] += 1
            if not np.array_equal(ev["weight"], np.concatenate(parts)[:nd]) or not np.array_equal(ev["charge_conjugation"], parts[0][:nd]):
                res.fail("SimpleData.load_extra_var:alignment", "weight/charge read from side files are not the first n_data entries of the concatenated files", P(what="side_files", n_data=nd))
            ev = sd.load_extra_var(nd)
            if not (np.array_equal(ev["weight"], np.ones(nd)) and np.array_equal(ev["charge_conjugation"], np.ones(nd))):
                res.fail("SimpleData.load_extra_var:default", "default weight/charge are not ones(n_data)", P(what="side_files", n_data=nd))
        search_config(ctx, res, rnd, tmp, st, hard)
    finally:
        shutil.rmtree(tmp, ignore_errors=True)
    res.coverage.setdefault("search", {})["c18b"] = st


def search_config(ctx, res, rnd, tmp, st, hard):
    """the real ConfigLoader (MultiData, two data groups): data + weight + charge side files; every event keeps its weight and
    charge through load_data, data_mask, data_split + data_merge; group g gets the side files of group g; get_n_data;
    get_data_index; lazy_call mode equals the eager mode"""
    import c18 as B
    np = _np()
    import copy
    from tf_pwa import data as D
    from tf_pwa.config_loader import ConfigLoader
    from tf_pwa.phasespace import PhaseSpaceGenerator
    modes = [False, True] if hard else [rnd.random() < 0.5]
    for lazy in modes:
        order = list(rnd.choice(list(itertools.permutations(["B", "C", "D"]))))
        cfg = copy.deepcopy(B.CONFIG)
        cfg["data"]["dat_order"] = order
        c0 = ConfigLoader(copy.deepcopy(cfg))
        groups = []
        for g in range(2):
            N = [5, 8][g] if rnd.random() < 0.5 else [9, 4][g]
            p = PhaseSpaceGenerator(5.0, [0.5, 0.4, 0.3]).generate(N)
            p4 = {k: np.asarray(v) for k, v in zip(["B", "C", "D"], p)}
            w = (np.arange(1.0, N + 3.0) + 100 * g) * 0.5          # N + 2 entries; entry i belongs to event i
            ch = np.array([1.0 if (i + g) % 3 else -1.0 for i in range(N + 2)])
            f0 = os.path.join(tmp, "cd_%d_%d.dat" % (int(lazy), g))
            c0.data.savetxt(f0, [p4[k] for k in order])       # the data file holds N events, the side files N + 2 entries
            fw, fc = os.path.join(tmp, "cw_%d_%d.dat" % (int(lazy), g)), os.path.join(tmp, "cc_%d_%d.npy" % (int(lazy), g))
            np.savetxt(fw, w)
            np.save(fc, ch)
            groups.append((N, p4, w, ch, f0, fw, fc))
        cfg["data"].update({"data": [[g[4]] for g in groups], "data_weight": [[g[5]] for g in groups], "data_charge": [[g[6]] for g in groups]})
        if lazy:
            cfg["data"]["lazy_call"] = True
        pay = {"op": "x_search", "what": "config_side_files", "order": order, "lazy_call": lazy}
        try:
            c1 = ConfigLoader(cfg)
            datas = c1.get_data("data")
            n_data = c1.data.get_n_data()
        except Exception as e:  # noqa: BLE001
            res.fail("ConfigLoader:side-files:raises", "get_data with weight/charge side files raises %s: %s" % (type(e).__name__, str(e)[:100]), pay)
            continue
        if len(datas) != 2:
            res.fail("MultiData.get_data:groups", "two data groups configured, %d loaded" % len(datas), pay)
            continue
        for g, (data, (N, p4, w, ch, _f0, _fw, _fc)) in enumerate(zip(datas, groups)):
            try:
                E = {k: np.asarray(D.data_to_numpy(D.data_index(data, ("particle", k, "p"))))[:, 0] for k in order}
                wd = np.asarray(D.data_to_numpy(D.data_index(data, "weight")))
                cd = np.asarray(D.data_to_numpy(D.data_index(data, "charge_conjugation")))
            except Exception as e:  # noqa: BLE001
                res.fail("ConfigLoader:side-files:raises", "data_index on loaded data raises %s: %s" % (type(e).__name__, str(e)[:100]), pay)
                break
            st["config"] += 1
            if not (np.array_equal(wd, w[:N]) and np.array_equal(cd, ch[:N]) and all(np.array_equal(E[k], p4[k][:, 0]) for k in order)):
                res.fail("load_data:weights-follow-rows", "get_data (group %d): weight / charge / energy of event i are not entry i of the files of that group (dat_order=%s, lazy_call=%s)" % (g, order, lazy), pay)
                break
            try:       # get_data_index addresses the same arrays
                for k in order:
                    ip = c1.data.get_data_index("p", k)
                    im = c1.data.get_data_index("mass", k)
                    pk = np.asarray(D.data_to_numpy(D.data_index(data, ip)))
                    mk = np.asarray(D.data_to_numpy(D.data_index(data, im)))
                    # (cp_trans flips the 3-momentum of charge < 0 events: energy and |p| are compared)
                    if not np.array_equal(pk[:, 0], p4[k][:, 0]) or not np.array_equal(np.abs(pk), np.abs(p4[k])) \
                            or np.max(np.abs(mk - {"B": 0.5, "C": 0.4, "D": 0.3}[k])) > 1e-6:
                        res.fail("get_data_index:particle", "get_data_index('p'/'mass', %s) does not address the momenta / mass of %s (dat_order=%s)" % (k, k, order), pay)
                        break
            except Exception as e:  # noqa: BLE001
                res.fail("get_data_index:raises", "get_data_index raises %s: %s" % (type(e).__name__, str(e)[:100]), pay)
            if abs(float(n_data[g]) - float(np.sum(w[:N]))) > 1e-9:
                res.fail("get_n_data", "get_n_data()[%d] = %s is not the sum of the event weights %s" % (g, n_data[g], np.sum(w[:N])), pay)
            ev = data.eval() if isinstance(data, D.LazyCall) else data
            sel = np.array([i % 2 == 0 for i in range(N)])
            m = D.data_to_numpy(D.data_mask(ev, sel))
            pieces = list(D.data_split(ev, 2))
            back = D.data_to_numpy(D.data_merge(*pieces[::-1]))    # batches merged in reverse order: a permutation of the events
            perm = np.concatenate([np.arange(N)[i:i + 2] for i in range(0, N, 2)][::-1])
            okm = np.array_equal(m["weight"], w[:N][sel]) and np.array_equal(D.data_index(m, ("particle", "B", "p"))[:, 0], p4["B"][:, 0][sel])
            okb = np.array_equal(back["weight"], w[:N][perm]) and np.array_equal(D.data_index(back, ("particle", "B", "p"))[:, 0], p4["B"][:, 0][perm]) \
                and np.array_equal(back["charge_conjugation"], ch[:N][perm])
            if not (okm and okb):
                res.fail("load_data:weights-follow-rows", "after data_mask / data_split + data_merge the weight of an event is no longer next to its momenta", pay)


class _Mod:
    search = staticmethod(search)


def replay(ctx, payload):
    return C.rerun_search_replay(_Mod, ctx, payload)
