"""C07 — returned gradients, Hessians and Hessian-vector products are the derivatives of the returned NLL."""
import contextlib
import io
import math
import time

import numpy as np

import common as C

PID = "C07"
DRIVER = [("C07", "TfPwaV.Gen.DerivF", "DerivF.handle"), ("C07d", "TfPwaV.Gen.DerivYF", "DerivYF.handle")]
LEAN_TARGETS = ["TfPwaV.Props.C07", "TfPwaV.Props.C07b", "TfPwaV.Props.C07c", "TfPwaV.Props.C07d", "TfPwaV.Gen.DerivF", "TfPwaV.Gen.DerivYF"]
PROP_MODULES = ["TfPwaV.Props.C07", "TfPwaV.Props.C07b", "TfPwaV.Props.C07c", "TfPwaV.Props.C07d"]
ALL_MODULES = ["TfPwaV.Proofs.Deriv", "TfPwaV.Proofs.DerivY", "TfPwaV.Props.C07", "TfPwaV.Props.C07b", "TfPwaV.Props.C07c", "TfPwaV.Props.C07d",
               "TfPwaV.Proofs.ScalarR"]
ASSUMPTIONS = [
    "TensorFlow autodiff (GradientTape, ForwardAccumulator) is modelled, not verified: the theorems take what the tapes return (sums, gradients, Hessians, Hessian-vector products of ln_data, int_mc, I_sig, I_bg, ll) as HYPOTHESES (HasDerivAt / HasFDerivAt witnesses) and prove that the code's assembly of them is the derivative of the assembled value; the tape itself is covered by finite differences on the implementation (search) and by the tape-level model tapeGrad/tapeHess compared with sum_gradient/sum_hessian on per-event jacobians",
    "directional statements: derivatives along an arbitrary line theta0 + s p (q^T H p for arbitrary p, q determines the Hessian); bound wrappers and cfit use Frechet differentiability of the outer function",
    "clip_log is differentiated where x != eps (the C2 junction itself is C06's clip_log_C2)",
    "cfit Hessian: np.dot(jac.T, np.dot(h_ll, jac)) with jac = [eye; g_sig; g_bg] is transcribed in block form (the products with the identity block are written out)",
    "finite differences: 5-point central stencil on the implementation, step 2e-3 (toy) / 2e-4 (real model), tolerance 2e-6 relative to max(1, |g|_inf) (gradient) and max(1, |H|_inf) (Hessian, Hessian-vector product); a case whose two step sizes disagree by more than a quarter of the tolerance is counted as ill-conditioned and skipped",
    "resolution_size > 1 is exercised by the search only",
    "custom family (C07d): per data batch the tape outputs of eval_nll_part (value, direct gradient, partials w.r.t. the normalisation factors, Hessian blocks) are hypotheses / parameters; eval_nll_part as a function of (line position, factor vector) is required Frechet differentiable; the batch-0 once-only terms enter because every batch has its OWN function A_b",
    "C07d Hessian (custom_hess_is_deriv): the MC-batch loop (SumVar.__add__ of values, gradients, Hessians) is a separate theorem (custom_hess_mc_batches) whose conclusion is the hypothesis of custom_hess_is_deriv; the per-factor Hessians Z_j are assumed SYMMETRIC (the code symmetrises them: 0.5 d^T z d); inject_mc (inmc_grad_is_deriv): the injected-MC weight is FIXED (float_wmc=True: finite differences only); simple_cfit / cfit_constr_frac have no closed-formula theorem (their tape outputs are hypotheses of custom_grad_is_deriv / custom_hess_is_deriv); ConstrainModel's model (cmCs) assumes distinct tf.Variable names and is NOT tied by correspondence (every tf.Variable is named 'Variable:0' on this TensorFlow, the class's lookups collapse)",
    "MixLogLikehoodFCN.get_nll_grad is exercised on an object whose attributes (model, data_merge, weight_phsps, n_datas) are set by hand: its __init__ cannot be run on plain dict data (needs get_weight and type(mcdata)(dict))",
]

KEY_HP_CONSTR = "grad_hessp:gauss-constraint-curvature-missing"
KEY_HP_MODEL = "grad_hessp:likelihood-model-inherits-default-hessp"
KEY_SUMVAR = "nll_grad_hessian:custom-model:normalisation-factors-share-summed-hessian"
KEY_CACHED_VAL = "cfit_cached:value-alongside-gradient-differs-from-call"
KEY_GC_TIED = "gauss_constr:constraint-on-tied-follower-name:term-without-gradient"

TOY_KINDS = ["default", "extended", "cfit", "cfit_extended", "simple", "simple_clip", "simple_cfit", "simple_chi2"]
NAMES = ["toy_a", "toy_b", "toy_c", "toy_d"]
GTOL = 2e-6
CTOL = 1e-9  # assembly-level comparison with the Float instance

_T0 = [None]
_S = {}


def tlog(msg):
    if _T0[0] is None:
        _T0[0] = time.time()
    C.log("[C07 +%.0fs] %s" % (time.time() - _T0[0], msg))


@contextlib.contextmanager
def quiet():
    with contextlib.redirect_stdout(io.StringIO()):
        yield


# --------------------------------------------------------------------------
# synthetic amplitude with the AbsPDF interface: four real parameters
# --------------------------------------------------------------------------

def toy_class():
    if "cls" in _S:
        return _S["cls"]
    import tensorflow as tf
    from tf_pwa.amp.amp import AbsPDF
    from tf_pwa.variable import Variable

    class ToyPDF(AbsPDF):
        """f(x; a, b, c, d) = f0(x) * ((a + b x)^2 + d^2 exp(c x) + 0.05)"""

        def init_params(self, name=""):
            self.a = Variable("toy_a", value=1.0)
            self.b = Variable("toy_b", value=0.2)
            self.c = Variable("toy_c", value=0.5)
            self.d = Variable("toy_d", value=0.3)

        def pdf(self, data):
            a, b, c, d = self.a(), self.b(), self.c(), self.d()
            x = data["x"]
            return data["f0"] * ((a + b * x) ** 2 + tf.exp(c * x) * d * d + 0.05)

    _S["cls"] = ToyPDF
    return ToyPDF


def toy_np(params, d):
    a, b, c, dd = (params[k] for k in NAMES)
    x = np.asarray(d["x"])
    return np.asarray(d["f0"]) * ((a + b * x) ** 2 + np.exp(c * x) * dd * dd + 0.05)


def make_model(kind, amp, wbkg, fb, resolution=1, bgpar=False):
    from tf_pwa.model.model import get_nll_model
    import tf_pwa.model.cfit  # noqa: F401
    import tf_pwa.model.custom  # noqa: F401
    import tf_pwa.model.opt_int  # noqa: F401
    if kind in ("default", "extended"):
        return get_nll_model("default")(amp, wbkg, resolution_size=resolution, extended=(kind == "extended"))
    if kind in ("cfit", "cfit_extended"):
        if bgpar:
            # a background shape with a floating parameter (bg_f may be any callable): I_bg then has a gradient and a Hessian
            import tensorflow as tf

            def bg_f(d):
                return d["bg_value"] * (1.0 + 0.3 * tf.tanh(amp.c() * d["x"]))
            return get_nll_model(kind)(amp, fb, bg_f=bg_f)
        return get_nll_model(kind)(amp, fb)
    if kind == "simple_cfit":
        return get_nll_model(kind)(amp, w_bkg=wbkg, bg_frac=fb)
    return get_nll_model(kind)(amp, w_bkg=wbkg)


def _arr(d):
    return None if d is None else {k: np.array(v, dtype="float64") for k, v in d.items()}


def _lst(d):
    return None if d is None else {k: [float(x) for x in v] for k, v in d.items()}


def build_toy(spec, batch=None):
    """VarsManager + toy amplitude + FCN from a JSON-serialisable spec"""
    from tf_pwa.model.model import FCN
    from tf_pwa.variable import VarsManager
    vm = VarsManager()
    amp = toy_class()(vm=vm)
    amp.set_params(dict(spec["params"]))
    model = make_model(spec["kind"], amp, spec["wbkg"], spec["fb"], spec.get("resolution", 1), spec.get("bgpar", False))
    if spec.get("bounds"):
        vm.set_bound({k: tuple(v) for k, v in spec["bounds"].items()})
    if spec.get("tie"):
        vm.set_same(list(spec["tie"]))
    for k in spec.get("fix", []):
        vm.set_fix(k)
    gc = {k: tuple(v) for k, v in spec.get("gauss", {}).items()}
    with quiet():
        fcn = FCN(model, _arr(spec["data"]), _arr(spec["mc"]), bg=_arr(spec.get("bg")),
                  batch=spec["batch"] if batch is None else batch, gauss_constr=gc)
    return vm, amp, fcn


# --------------------------------------------------------------------------
# case generation (everything derives from the seeded rng)
# --------------------------------------------------------------------------

def _sample(rng, n, wmode, extras=True, fmin=0.1):
    d = {"x": rng.uniform(-1, 1, n), "f0": rng.uniform(fmin, 2.0, n)}
    if wmode != "none":
        w = rng.uniform(0.3, 2.0, n)
        if wmode == "signed":
            w = w * np.where(np.arange(n) % 4 == 3, -0.5, 1.0)
        d["weight"] = w
    if extras:
        d["eff_value"] = rng.uniform(0.4, 1.0, n)
        d["bg_value"] = rng.uniform(0.5, 1.5, n)
    return d


def gen_case(rng, kind, opts=None):
    """opts: dict(bounds=bool, tie=bool, fix=bool, gauss=bool, resolution=int)"""
    opts = opts or {}
    res_size = int(opts.get("resolution", 1))
    nd = int(rng.choice([6, 9, 12, 20]))
    nm = int(rng.choice([8, 13, 24]))
    if res_size > 1:
        nd -= nd % res_size
    cf = kind in ("cfit", "cfit_extended", "simple_cfit")
    has_bg = (not cf) and kind != "simple_chi2" and res_size == 1 and rng.uniform() < 0.5
    nb = int(rng.choice([2, 3, 5])) if has_bg else 0
    n = nd + nb
    wmode = str(rng.choice(["none", "pos", "signed"])) if kind != "simple_chi2" else "pos"
    data = _sample(rng, nd, wmode)
    if kind == "simple_chi2":  # weights are the fitted target values
        data["weight"] = rng.uniform(0.5, 3.0, nd)
    mc = _sample(rng, nm, str(rng.choice(["none", "pos"])))
    bg = _sample(rng, nb, "none") if nb else None
    if bg is not None and rng.uniform() < 0.5:
        bg["weight"] = -rng.uniform(0.05, 0.4, nb)
    params = {"toy_a": float(rng.uniform(0.7, 1.6)), "toy_b": float(rng.uniform(-0.6, 0.6)),
              "toy_c": float(rng.uniform(-0.8, 0.8)), "toy_d": float(rng.uniform(0.3, 0.9))}
    spec = {"kind": kind, "wbkg": float(rng.choice([0.1, 0.25, 0.5])), "fb": float(rng.choice([0.1, 0.2, 0.4])),
            "params": params, "data": _lst(data), "mc": _lst(mc), "bg": _lst(bg), "resolution": res_size,
            "bgpar": bool(kind in ("cfit", "cfit_extended") and rng.uniform() < 0.7)}
    # batch in {3, n, 2n} (cfit_extended: a divisor, the ragged-batch defect is C06's finding)
    if kind == "cfit_extended":
        divs = [b for b in range(2, n + 1) if n % b == 0]
        spec["batch"] = int(rng.choice(divs + [2 * n]))
    elif res_size > 1:
        spec["batch"] = int(rng.choice([res_size * 2, n, 2 * n]))
    else:
        spec["batch"] = int(rng.choice([3, n, 2 * n]))
    if opts.get("tie"):
        spec["tie"] = [str(k) for k in rng.choice(["toy_b", "toy_c", "toy_d"], size=2, replace=False)]
        v = spec["params"][spec["tie"][0]]
        for k in spec["tie"]:
            spec["params"][k] = v
            params[k] = v
    if opts.get("gauss"):
        g = {}
        # (a constraint on the follower name of a tie is a separate, listed finding: see search_constr_tied)
        cand = [k for k in NAMES if k not in spec.get("tie", [])[1:]]
        for k in rng.choice(cand, size=int(rng.integers(1, 3)), replace=False):
            g[str(k)] = [float(params[str(k)] + rng.uniform(-0.3, 0.3)), float(rng.choice([0.01, 0.1, 0.5]))]
        spec["gauss"] = g
    else:
        spec["gauss"] = {}
    if opts.get("bounds"):
        b = {}
        order = [str(k) for k in rng.permutation(NAMES)]
        v = params[order[0]]
        b[order[0]] = [float(v - rng.uniform(0.2, 1.0)), float(v + rng.uniform(0.2, 1.0))]   # two-sided
        b[order[1]] = [float(params[order[1]] - rng.uniform(0.2, 1.0)), None]               # lower
        b[order[2]] = [None, float(params[order[2]] + rng.uniform(0.2, 1.0))]               # upper
        spec["bounds"] = b
    if opts.get("fix"):
        cand = [k for k in NAMES if k not in spec.get("tie", []) and not (spec["bgpar"] and k == "toy_c")]
        spec["fix"] = [str(rng.choice(cand))]
    spec["p"] = [float(x) for x in rng.uniform(-1, 1, 4)]
    return spec


# --------------------------------------------------------------------------
# finite differences
# --------------------------------------------------------------------------

def fd5(f, x, h):
    """5-point central differences of a scalar or vector valued function, one coordinate at a time"""
    x = np.array(x, dtype="float64")
    out = []
    for i in range(len(x)):
        def at(s):
            y = x.copy()
            y[i] += s
            return np.array(f(y), dtype="float64")
        out.append((-at(2 * h) + 8 * at(h) - 8 * at(-h) + at(-2 * h)) / (12 * h))
    return np.array(out)


def fd_checked(f, x, h):
    """(derivative, conditioning ok?) from two step sizes"""
    d1 = fd5(f, x, h)
    d2 = fd5(f, x, h / 2)
    sc = max(1.0, float(np.max(np.abs(d2))) if d2.size else 1.0)
    ok = bool(np.all(np.isfinite(d1)) and np.all(np.isfinite(d2)) and np.max(np.abs(d1 - d2), initial=0.0) <= 0.25 * GTOL * sc)
    return d2, ok


def _dev(a, b):
    a, b = np.array(a, dtype="float64"), np.array(b, dtype="float64")
    if a.shape != b.shape or not (np.all(np.isfinite(a)) and np.all(np.isfinite(b))):
        return float("inf")
    return float(np.max(np.abs(a - b), initial=0.0)) / max(1.0, float(np.max(np.abs(b), initial=0.0)))


def inherits_default_hessp(model):
    """the class replaces the likelihood (nll_grad_batch) but not the Hessian-vector product of the default one"""
    from tf_pwa.model.model import Model
    cls = type(model)
    return cls.nll_grad_batch is not Model.nll_grad_batch and cls.grad_hessp_batch is Model.grad_hessp_batch


def constr_hess(fcn):
    return np.array(fcn.gauss_constr.get_constrain_hessian(), dtype="float64")


# --------------------------------------------------------------------------
# search: the property statement on the implementation (oracle: finite differences)
# --------------------------------------------------------------------------

class Api:
    """the functions under test, in optimiser coordinates x (bound wrappers when the case has bounds)"""

    def __init__(self, vm, fcn, wrapped):
        self.vm, self.fcn, self.wrapped = vm, fcn, wrapped
        if wrapped:
            self.fg = vm.trans_fcn_grad(fcn.nll_grad)
            self.fgh = vm.trans_f_grad_hess(fcn.nll_grad_hessian)
            self.ghp = vm.trans_grad_hessp(fcn.grad_hessp)
            self.x0 = np.array(vm.get_all_val(True), dtype="float64")
        else:
            self.fg = fcn.nll_grad
            self.fgh = fcn.nll_grad_hessian
            self.ghp = fcn.grad_hessp
            self.x0 = np.array(vm.get_all_val(), dtype="float64")

    def value(self, x):
        with quiet():
            if self.wrapped:
                self.vm.set_trans_var(x)
                return float(self.fcn({}))
            return float(self.fcn(np.array(x)))

    def grad(self, x):
        with quiet():
            return np.array(self.fg(np.array(x))[1], dtype="float64")


def check_fcn(label, vm, fcn, spec_replay, res, stats, h, wrapped, p_full, kind, has_constr):
    """all derivative clauses of the property on one likelihood object"""
    api = Api(vm, fcn, wrapped)
    x0 = api.x0
    n = len(x0)
    p = np.array(p_full[:n], dtype="float64")
    with quiet():
        v_call = api.value(x0)
        v_g, g = api.fg(x0.copy())
        v_h, g_h, H = api.fgh(x0.copy())
        try:
            g_p, hp = api.ghp(x0.copy(), p.copy())
            hp_err = None
        except Exception as e:  # noqa: BLE001
            g_p, hp, hp_err = None, None, "%s: %s" % (type(e).__name__, str(e)[:200])
    v_g, v_h = float(v_g), float(v_h)
    g, g_h, H = np.array(g, dtype="float64"), np.array(g_h, dtype="float64"), np.array(H, dtype="float64")
    stats["objects"] += 1
    where = "%s%s" % (label, " through the bound wrappers" if wrapped else "")

    def fail(key, what, extra=None):
        res.fail(key, "%s: %s" % (where, what), dict(spec_replay, clause=key, **(extra or {})))

    # value alongside gradient / Hessian = stand-alone value
    vs = max(1.0, abs(v_call))
    for nm, v in (("nll_grad", v_g), ("nll_grad_hessian", v_h)):
        if not abs(v - v_call) <= 1e-9 * vs:
            fail(KEY_CACHED_VAL if kind == "cfit_cached" and nm == "nll_grad" else "%s:value:%s" % (kind, nm),
                 "value returned by %s is %r, FCN.__call__ gives %r" % (nm, v, v_call))
    # gradient = derivative of the value (for cfit_cached with the known value defect: of the value it returns itself)
    valf = api.value
    if kind == "cfit_cached" and not abs(v_g - v_call) <= 1e-9 * vs:
        def valf(x):
            with quiet():
                return float(api.fg(np.array(x))[0])
    g_fd, ok1 = fd_checked(valf, x0, h)
    H_fd, ok2 = fd_checked(api.grad, x0, h)
    if not (ok1 and ok2):
        stats["ill_conditioned"] += 1
        return
    stats["fd_gradients"] += 1
    for nm, gg in (("nll_grad", g), ("nll_grad_hessian", g_h), ("grad_hessp", g_p)):
        if gg is None:
            continue
        e = _dev(gg, g_fd)
        stats["worst_g"] = max(stats["worst_g"], e if nm != "grad_hessp" or not inherits_default_hessp(fcn.model) else 0.0)
        if not e <= GTOL:
            key = "%s:gradient:%s" % (kind, nm)
            if nm == "grad_hessp" and inherits_default_hessp(fcn.model):
                key = KEY_HP_MODEL
            fail(key, "gradient returned by %s deviates from the 5-point finite difference of the returned value: %r vs %r (rel %.3g)" % (
                nm, list(np.array(gg)), list(g_fd), e))
    # Hessian = derivative of the gradient, symmetric
    e = _dev(H, H_fd)
    stats["worst_H"] = max(stats["worst_H"], e if kind != "simple_cfit" else 0.0)
    if not e <= GTOL:
        key = "%s:hessian" % kind
        if kind in ("simple_cfit",) and _dev(g_h, g_fd) <= GTOL:
            key = KEY_SUMVAR
        fail(key, "Hessian returned by nll_grad_hessian deviates from finite differences of the gradient (rel %.3g): %r vs %r" % (
            e, H.tolist(), H_fd.tolist()))
    if not _dev(H, H.T) <= 1e-9:
        fail("%s:hessian:symmetry" % kind, "Hessian not symmetric: %r" % H.tolist())
    # Hessian-vector product = H_fd . p
    if hp_err is not None:
        fail("%s:grad_hessp:raises" % kind, "grad_hessp raised %s" % hp_err)
    else:
        hp = np.array(hp, dtype="float64")
        want = H_fd @ p
        sc = max(1.0, float(np.max(np.abs(H_fd))))
        e = float(np.max(np.abs(hp - want))) / sc if np.all(np.isfinite(hp)) else float("inf")
        if not e <= GTOL:
            key = "%s:grad_hessp" % kind
            if inherits_default_hessp(fcn.model):
                key = KEY_HP_MODEL
            if has_constr:
                # is the deviation exactly the constraint curvature (in optimiser coordinates)?
                cH = constr_hess(fcn)
                if wrapped:
                    d = np.array([vm.bnd_dic[k].get_dydx(x0[i]) if k in vm.bnd_dic else 1.0 for i, k in enumerate(vm.trainable_vars)])
                    cH = d[:, None] * cH * d[None, :]
                if float(np.max(np.abs(hp + cH @ p - want))) / sc <= GTOL:
                    key = KEY_HP_CONSTR
            fail(key, "grad_hessp(x, p) = %r but (finite-difference Hessian of the returned value) . p = %r (rel %.3g, p = %r)" % (
                list(hp), list(want), e, list(p)))
        else:
            stats["worst_hp"] = max(stats["worst_hp"], e)
    return {"x0": x0, "v": v_call, "g": g, "H": H}


def search_toy(spec, res, stats, label):
    kind = spec["kind"]
    vm, amp, fcn = build_toy(spec)
    wrapped = bool(spec.get("bounds"))
    rep = {"op": "toy", "spec": spec}
    out = check_fcn("%s %s n=%d nmc=%d batch=%d%s%s%s" % (
        label, kind, len(spec["data"]["x"]) + (len(spec["bg"]["x"]) if spec.get("bg") else 0), len(spec["mc"]["x"]), spec["batch"],
        " gauss=%s" % sorted(spec["gauss"]) if spec["gauss"] else "", " tie=%s" % spec["tie"] if spec.get("tie") else "",
        (" fix=%s" % spec["fix"] if spec.get("fix") else "") + (" bg_f with a floating parameter" if spec.get("bgpar") else "")),
        vm, fcn, rep, res, stats, 2e-3, wrapped, spec["p"], kind, bool(spec["gauss"]))
    if out is None:
        return
    # batch size must not matter
    n = len(spec["data"]["x"]) + (len(spec["bg"]["x"]) if spec.get("bg") else 0)
    rs = spec.get("resolution", 1)
    if kind == "cfit_extended":
        cands = [b for b in range(2, n + 1) if n % b == 0][:2] + [2 * n]
    elif rs > 1:
        cands = [2 * rs, n, 2 * n]
    else:
        cands = [3, n, 2 * n]
    for b in cands:
        if b == spec["batch"]:
            continue
        vm2, amp2, fcn2 = build_toy(spec, batch=b)
        y0 = np.array(vm2.get_all_val(), dtype="float64")
        with quiet():
            v2, g2 = fcn2.nll_grad(y0)
            _, _, H2 = fcn2.nll_grad_hessian(y0)
        stats["batch_variants"] += 1
        # compare in physical coordinates: the first object may have been evaluated through the wrappers
        vm1, amp1, fcn1 = (vm, amp, fcn)
        with quiet():
            v1, g1 = fcn1.nll_grad(y0)
            _, _, H1 = fcn1.nll_grad_hessian(y0)
        for nm, a, bb in (("value", v1, v2), ("gradient", g1, g2), ("hessian", H1, H2)):
            if not _dev(a, bb) <= 1e-9:
                res.fail("%s:batch:%s" % (kind, nm), "%s %s depends on the batch size: batch=%d gives %r, batch=%d gives %r" % (
                    kind, nm, spec["batch"], np.array(a).tolist(), b, np.array(bb).tolist()), dict(rep, clause="batch", batch2=b))
    # tied parameters: the tied gradient is the sum of the members' partials of the untied model
    if spec.get("tie") or spec.get("fix"):
        free = dict(spec)
        free.pop("tie", None)
        free.pop("fix", None)
        free.pop("bounds", None)
        free["gauss"] = {}
        vmf, ampf, fcnf = build_toy(free)
        vmt, ampt, fcnt = build_toy(dict(spec, bounds=None, gauss={}))
        with quiet():
            gf = np.array(fcnf.nll_grad(np.array(vmf.get_all_val()))[1], dtype="float64")
            gt = np.array(fcnt.nll_grad(np.array(vmt.get_all_val()))[1], dtype="float64")
        grp = tie_groups(spec, vmt)
        want = np.array([sum(gf[i] for i, g in enumerate(grp) if g == k) for k in range(len(vmt.trainable_vars))])
        stats["tie_checks"] += 1
        if not _dev(gt, want) <= 1e-9:
            res.fail("%s:tie:sum-of-partials" % kind, "gradient with tie=%s fix=%s is %r; the members' partials of the untied model sum to %r" % (
                spec.get("tie"), spec.get("fix"), list(gt), list(want)), dict(rep, clause="tie"))
        _S.setdefault("tie_rows", []).append((grp, len(vmt.trainable_vars), gf, gt))


def tie_groups(spec, vm):
    """for every named toy parameter: index of the trainable variable that carries it, or -1 when fixed"""
    out = []
    for k in NAMES:
        idx = -1
        for j, t in enumerate(vm.trainable_vars):
            if t == k or any(k in grp and t in grp for grp in vm.same_list):
                idx = j
        out.append(idx)
    return out


def combine_case(rng, with_gauss=True):
    specs = [gen_case(rng, str(k)) for k in rng.choice(["default", "extended", "cfit", "simple"], size=2)]
    for s in specs[1:]:
        s["params"] = dict(specs[0]["params"])
    gauss = {}
    if with_gauss:
        k = str(rng.choice(NAMES))
        gauss[k] = [float(specs[0]["params"][k] + rng.uniform(-0.2, 0.2)), float(rng.choice([0.05, 0.3]))]
    return {"specs": specs, "gauss": gauss, "p": [float(x) for x in rng.uniform(-1, 1, 4)]}


def build_combine(ce):
    from tf_pwa.model.model import FCN, CombineFCN
    from tf_pwa.variable import VarsManager
    vm = VarsManager()
    amp = toy_class()(vm=vm)
    amp.set_params(dict(ce["specs"][0]["params"]))
    fcns = []
    with quiet():
        for s in ce["specs"]:
            model = make_model(s["kind"], amp, s["wbkg"], s["fb"], 1, s.get("bgpar", False))
            fcns.append(FCN(model, _arr(s["data"]), _arr(s["mc"]), bg=_arr(s.get("bg")), batch=s["batch"]))
        cf = CombineFCN(fcns=fcns, gauss_constr={k: tuple(v) for k, v in ce["gauss"].items()})
    return vm, amp, cf, fcns


def search_combine(ce, res, stats, label):
    vm, amp, cf, fcns = build_combine(ce)
    kinds = "+".join(s["kind"] for s in ce["specs"])

    class _M:  # CombineFCN has no single model: the Hessian-vector product inherits the parts' behaviour
        pass
    cf.model = fcns[[inherits_default_hessp(f.model) for f in fcns].index(True)].model if any(inherits_default_hessp(f.model) for f in fcns) else fcns[0].model
    _orig = cf.grad_hessp
    cf.grad_hessp = lambda x, p: _orig(x, p, None)
    check_fcn("%s CombineFCN(%s) gauss=%s" % (label, kinds, sorted(ce["gauss"])), vm, cf, {"op": "combine", "ce": ce}, res, stats,
              2e-3, False, ce["p"], "combine", bool(ce["gauss"]))
    # sum of the parts
    x0 = np.array(vm.get_all_val(), dtype="float64")
    with quiet():
        v, g, H = cf.nll_grad_hessian(x0)
        parts = [f.nll_grad_hessian(x0) for f in fcns]
        ct = float(cf.gauss_constr.get_constrain_term())
        cg = np.array(cf.gauss_constr.get_constrain_grad(), dtype="float64")
        cH = constr_hess(cf)
    for nm, tot, want in (("value", v, sum(float(q[0]) for q in parts) + ct), ("gradient", g, sum(np.array(q[1]) for q in parts) + cg),
                          ("hessian", H, sum(np.array(q[2]) for q in parts) + cH)):
        if not _dev(tot, want) <= 1e-9:
            res.fail("combine:sum-of-parts:%s" % nm, "CombineFCN(%s) %s = %r but parts + constraint give %r" % (kinds, nm, np.array(tot).tolist(), np.array(want).tolist()),
                     {"op": "combine", "ce": ce, "clause": "sum"})
    stats["combine"] += 1


# --------------------------------------------------------------------------
# real AmplitudeModel through ConfigLoader
# --------------------------------------------------------------------------

REAL_CONFIGS = {
    "default": {},
    "extended": {"extended": True},
    "cfit": {"model": "cfit", "bg_frac": 0.2},
    "cfit_extended": {"model": "cfit", "bg_frac": 0.2, "extended": True},
    "cfit_cached": {"model": "cfit", "bg_frac": 0.2, "cached_amp": True},
    "cached_int": {"cached_int": True},
    "cached_amp": {"cached_amp": True},
    "simple": {"model": "simple"},
    "simple_cfit": {"model": "simple_cfit", "bg_frac": 0.2},
}
_KEEP = []  # the cached models key their caches by id(data)


def real_config(extra, float_mass):
    par = {
        "$top": {"A": {"J": 0, "P": -1, "mass": 4.6}},
        "$finals": {"B": {"J": 0, "P": -1, "mass": 2.0}, "C": {"J": 0, "P": -1, "mass": 2.0},
                    "D": {"J": 0, "P": -1, "mass": 0.14}},
        "R_BC": {"J": 1, "P": -1, "m0": 4.16, "g0": 0.1},
        "R_BD": {"J": 1, "P": -1, "m0": 2.43, "g0": 0.3},
    }
    if float_mass:
        par["R_BD"]["float"] = ["m", "g"]
    return {
        "data": {"dat_order": ["B", "C", "D"], "center_mass": False, "random_z": False, "r_boost": False, "bg_weight": 0.3, **extra},
        "decay": {"A": [["R_BC", "D"], ["R_BD", "C"]], "R_BC": ["B", "C"], "R_BD": ["B", "D"]},
        "particle": par,
    }


def three_body(rng, n, m0=4.6, m1=2.0, m2=2.0, m3=0.14):
    """seeded three-body events in the rest frame of the parent (any physical events do)"""
    out = [[], [], []]
    while len(out[0]) < n:
        m12 = rng.uniform(m1 + m2, m0 - m3)

        def two(M, ma, mb):
            p = math.sqrt(max((M * M - (ma + mb) ** 2) * (M * M - (ma - mb) ** 2), 0.0)) / (2 * M)
            c, ph = rng.uniform(-1, 1), rng.uniform(-math.pi, math.pi)
            s = math.sqrt(1 - c * c)
            return p, np.array([s * math.cos(ph), s * math.sin(ph), c])

        p, d = two(m0, m12, m3)
        P12 = np.array([math.sqrt(m12 * m12 + p * p), *(p * d)])
        P3 = np.array([math.sqrt(m3 * m3 + p * p), *(-p * d)])
        q, e = two(m12, m1, m2)
        a = np.array([math.sqrt(m1 * m1 + q * q), *(q * e)])
        b = np.array([math.sqrt(m2 * m2 + q * q), *(-q * e)])
        beta = P12[1:] / P12[0]
        gam = 1 / math.sqrt(1 - beta @ beta)

        def boost(x):
            bp = beta @ x[1:]
            g2 = (gam - 1) / (beta @ beta) if beta @ beta > 0 else 0.0
            return np.array([gam * (x[0] + bp), *(x[1:] + g2 * bp * beta + gam * x[0] * beta)])

        out[0].append(boost(a))
        out[1].append(boost(b))
        out[2].append(P3)
    return [np.array(x) for x in out]


def real_fcn(gen):
    """gen: {name, key, nd, nm, nb, batch, float_mass, gauss, bound}"""
    from tf_pwa.config_loader import ConfigLoader
    name = gen["name"]
    rng = np.random.Generator(np.random.Philox(gen["key"]))
    cached = "cach" in name
    with quiet():
        config = ConfigLoader(real_config(dict(REAL_CONFIGS[name]), gen.get("float_mass", False) and not cached))
        amp = config.get_amplitude()

        def sample(n, weighted):
            d = config.data.cal_angle(three_body(rng, n))
            if weighted:
                d["weight"] = rng.uniform(0.3, 2.0, n)
            d["eff_value"] = rng.uniform(0.4, 1.0, n) if not name == "cfit_cached" else np.ones(n)
            d["bg_value"] = rng.uniform(0.5, 1.5, n)
            return d

        data, mc = sample(gen["nd"], True), sample(gen["nm"], True)
        bg = sample(gen["nb"], False) if gen["nb"] and REAL_CONFIGS[name].get("model") != "cfit" else None
        vm = amp.vm
        names = sorted(set(vm.trainable_vars) | {k for k in amp.get_params() if k.endswith("_total_0r")})
        vals = {}
        for k in names:
            if k.endswith("_mass"):
                vals[k] = float(amp.get_params()[k] + rng.uniform(-0.02, 0.02))
            elif k.endswith("_width"):
                vals[k] = float(amp.get_params()[k] * rng.uniform(0.9, 1.2))
            else:
                vals[k] = float(rng.uniform(0.3, 1.5))
        amp.set_params(vals)
        gauss = {}
        tv = list(vm.trainable_vars)
        if gen.get("gauss"):
            k = tv[int(rng.integers(len(tv)))]
            gauss[k] = (float(vals[k] + rng.uniform(-0.1, 0.1)), 0.05)
        if gen.get("bound"):
            k = tv[int(rng.integers(len(tv)))]
            vm.set_bound({k: (vals[k] - 0.7, vals[k] + 0.9)})
        fcn = config.get_fcn([[data], [mc], None if bg is None else [bg], None], batch=gen["batch"])
        if gauss:
            fcn.gauss_constr.update(gauss)
    _KEEP.append((config, fcn, data, mc, bg))
    return config, amp, fcn, gauss


def search_real(gen, res, stats, label):
    config, amp, fcn, gauss = real_fcn(gen)
    name = gen["name"]
    n = len(amp.vm.trainable_vars)
    p = np.random.Generator(np.random.Philox(gen["key"] + 7)).uniform(-1, 1, n)
    check_fcn("%s real AmplitudeModel %s [%s] nd=%d nmc=%d batch=%d npar=%d%s" % (
        label, name, type(fcn.model).__name__, gen["nd"], gen["nm"], gen["batch"], n, " gauss=%s" % sorted(gauss) if gauss else ""),
        amp.vm, fcn, {"op": "real", "gen": gen}, res, stats, 2e-4, bool(gen.get("bound")), list(p), name, bool(gauss))
    stats["real"] += 1


def real_plan(ctx):
    rng = np.random.Generator(np.random.Philox(ctx.seed * 1000 + 707))
    if ctx.quick and not ctx.suspect:
        names = ["default", ["cfit", "cached_int", "extended", "cfit_extended", "cfit_cached"][ctx.seed % 5]]
    elif ctx.quick:
        names = ["default", "cfit", "cached_int", "cfit_cached"]
    else:
        names = list(REAL_CONFIGS) + ["default", "cfit"]
    gens = []
    for i, name in enumerate(names):
        nd = int(rng.choice([6, 8]))
        gens.append({"name": name, "key": int(ctx.seed * 100000 + 70700 + i), "nd": nd, "nm": int(rng.choice([9, 12])),
                     "nb": int(rng.choice([0, 2])) * 0 if name == "cfit_extended" else int(rng.choice([0, 2])),
                     "batch": int(rng.choice([nd // 2, 40])) if name != "cfit_extended" else 40,
                     "float_mass": bool(i == 0 or i >= len(REAL_CONFIGS)), "gauss": bool(i % 2 == 0), "bound": bool(i >= len(REAL_CONFIGS))})
    return gens


def new_stats():
    return {"objects": 0, "fd_gradients": 0, "ill_conditioned": 0, "batch_variants": 0, "tie_checks": 0, "combine": 0, "real": 0,
            "worst_g": 0.0, "worst_H": 0.0, "worst_hp": 0.0}


def toy_plan(ctx):
    """(kind, opts) list; quick: every kind once plain + rotating options"""
    rot = [dict(gauss=True), dict(bounds=True), dict(tie=True), dict(gauss=True, bounds=True), dict(fix=True, gauss=True),
           dict(bounds=True, tie=True), dict(), dict(gauss=True, tie=True, bounds=True)]
    plan = []
    if ctx.quick and not ctx.suspect:
        for i, k in enumerate(TOY_KINDS):
            plan.append((k, rot[(i + ctx.seed) % len(rot)]))
        plan += [("default", dict(gauss=True, bounds=True)), ("extended", dict(bounds=True)), ("default", dict(resolution=2))]
    else:
        reps = 1 if ctx.quick else 2
        for r in range(reps):
            for i, k in enumerate(TOY_KINDS):
                for o in (rot if not ctx.quick else rot[::3] + [dict(gauss=True, bounds=True)]):
                    plan.append((k, o))
        plan += [("default", dict(resolution=2)), ("extended", dict(resolution=2, gauss=True))]
    return plan


def search(ctx, res):
    tlog("search start")
    rng = np.random.Generator(np.random.Philox(ctx.seed * 1000 + 777))
    stats = new_stats()
    plan = toy_plan(ctx)
    for i, (kind, opts) in enumerate(plan):
        spec = gen_case(rng, kind, opts)
        search_toy(spec, res, stats, "search#%d" % i)
    tlog("search: %d toy objects" % len(plan))
    for i in range(2 if ctx.quick and not ctx.suspect else (4 if ctx.quick else 12)):
        search_combine(combine_case(rng, with_gauss=(i % 2 == 0)), res, stats, "combine#%d" % i)
    tlog("search: combine done")
    for i, gen in enumerate(real_plan(ctx)):
        search_real(gen, res, stats, "real#%d" % i)
        tlog("search: real %s done" % gen["name"])
    search_constrain_model(res, stats)
    search_constr_tied(res, stats)
    import c07_y
    c07_y.search_y(ctx, rng, res, stats)
    tlog("search: custom family / constr_frac / inject_mc / parametrised cfit background / MixLogLikehoodFCN done")
    res.coverage["search_cases"] = stats
    res.coverage["search_rule"] = ("5-point finite differences of the returned value / gradient vs nll_grad, nll_grad_hessian, grad_hessp "
                                   "(raw and through trans_fcn_grad / trans_f_grad_hess / trans_grad_hessp), value paths, batch in {3,n,2n}, "
                                   "ties = sum of partials, CombineFCN = parts + constraint, real AmplitudeModel via ConfigLoader")
    tlog("search done")


def observe_constr_term_variant():
    """does GaussianConstr.get_constrain_term include constraints on names that are not trainable?"""
    if "term_variant" in _S:
        return _S["term_variant"]
    from tf_pwa.model.model import GaussianConstr
    from tf_pwa.variable import VarsManager
    vm = VarsManager()
    amp = toy_class()(vm=vm)
    amp.set_params({"toy_a": 1.0, "toy_b": 0.5, "toy_c": 0.1, "toy_d": 0.6})
    vm.set_fix("toy_b")
    import warnings
    with warnings.catch_warnings():
        warnings.simplefilter("ignore")
        gc = GaussianConstr(vm, {"toy_b": (0.0, 1.0)})
    t = float(gc.get_constrain_term())
    _S["term_variant"] = "all" if abs(t - 0.125) < 1e-12 else ("trainable" if abs(t) < 1e-12 else "other")
    return _S["term_variant"]


def search_constr_tied(res, stats):
    """a Gaussian constraint given under the follower name of a tie: the term moves with the shared variable; is it differentiated?"""
    spec = gen_case(np.random.Generator(np.random.Philox(7071)), "default", dict(tie=True))
    head, fol = spec["tie"][0], spec["tie"][1]
    spec["gauss"] = {fol: [float(spec["params"][fol] + 0.2), 0.1]}
    spec["batch"] = 50
    vm, amp, fcn = build_toy(spec)
    x0 = np.array(vm.get_all_val(), dtype="float64")
    with quiet():
        g = np.array(fcn.nll_grad(x0)[1], dtype="float64")
        g_fd = fd5(lambda y: float(fcn(np.array(y))), x0, 1e-3)
    stats["constr_tied_probe"] = 1
    if not _dev(g, g_fd) <= GTOL:
        k = list(vm.trainable_vars).index(head)
        mean, sigma = spec["gauss"][fol]
        fix = g.copy()
        fix[k] += (x0[k] - mean) / sigma ** 2
        key = KEY_GC_TIED if _dev(fix, g_fd) <= GTOL else "default:gradient:constraint-on-tied-name"
        res.fail(key, "tie=%s with gauss_constr on the follower name %r: FCN.nll_grad gradient %r but finite differences of FCN.__call__ give %r "
                 "(the constraint term follows the shared variable, its gradient entry is dropped because %r is not in trainable_vars)" % (
                     spec["tie"], fol, list(g), list(g_fd), fol), {"op": "constr_tied"})


def search_constrain_model(res, stats):
    """legacy ConstrainModel: value / gradient / Hessian of its constraint term must be mutually consistent"""
    from tf_pwa.model.model import ConstrainModel
    from tf_pwa.variable import VarsManager
    vm = VarsManager()
    amp = toy_class()(vm=vm)
    amp.set_params({"toy_a": 1.2, "toy_b": 0.3, "toy_c": -0.2, "toy_d": 0.6})
    vm.set_fix("toy_b")
    cm = ConstrainModel(amp, 0.5, constrain={"toy_a": (1.0, 0.2), "toy_c": (0.1, 0.3), "toy_b": (0.0, 0.1), "toy_d": (0.5, 0.05)})
    x0 = np.array(vm.get_all_val(), dtype="float64")

    def term(x):
        vm.set_all(list(x))
        return float(cm.get_constrain_term())

    def grad(x):
        vm.set_all(list(x))
        return np.array([float(v) for v in cm.get_constrain_grad()])

    g = grad(x0)
    Hd = np.array(cm.get_constrain_hessian(), dtype="float64")
    g_fd = fd5(term, x0, 1e-3)
    H_fd = fd5(grad, x0, 1e-3)
    vm.set_all(list(x0))
    if not (_dev(g, g_fd) <= GTOL and _dev(Hd, H_fd) <= GTOL):
        res.fail("ConstrainModel:constraint-derivatives", "ConstrainModel.get_constrain_grad/hessian %r / %r are not the derivatives of get_constrain_term (fd %r / %r)" % (
            list(g), Hd.tolist(), list(g_fd), H_fd.tolist()), {"op": "constrain_model"})
    dropped = [k for k, v in zip(vm.trainable_vars, g) if k in cm.constrain and v == 0.0]
    tfnames = sorted({v.name for v in amp.trainable_variables})
    res.notes.append("observation: ConstrainModel.get_constrain_* look the constrained names up among tf.Variable.name (here %r) and `break` at the "
                     "first name that is missing: with constraints on %s the constraints on %s are silently dropped from value, gradient and Hessian "
                     "alike (term = %r): mutually consistent, hence no C07 violation; the class is not reachable from FCN / ConfigLoader" % (
                         tfnames, list(cm.constrain), dropped, term(x0)))
    stats["constrain_model"] = 1


# --------------------------------------------------------------------------
# correspondence: the code's assembly vs the Float instance of templates/Deriv.lean.in fed with the tapes' own pieces
# --------------------------------------------------------------------------

def L(*parts):
    out = []
    for q in parts:
        q = np.array(q, dtype="float64").ravel()
        out += [C.f2h(x) for x in q]
    return " ".join(out)


def observe_hessp_variant():
    """does FCN.grad_hessp add the constraint curvature? (probe on a toy object)"""
    if "hp_variant" in _S:
        return _S["hp_variant"]
    rng = np.random.Generator(np.random.Philox(4242))
    spec = gen_case(rng, "default")
    spec["gauss"] = {"toy_a": [1.0, 0.5]}
    vm, amp, fcn = build_toy(spec)
    x0 = np.array(vm.get_all_val())
    p = np.array([1.0, 0.5, -0.5, 0.25])
    with quiet():
        _, hp = fcn.grad_hessp(x0, p)
        _, hp0 = fcn.get_grad_hessp(x0, p, fcn.batch)
    d = np.array(hp, dtype="float64") - np.array(hp0, dtype="float64")
    want = constr_hess(fcn) @ p
    if np.max(np.abs(d - want)) <= 1e-9:
        v = "fixed"
    elif np.max(np.abs(d)) <= 1e-12:
        v = "legacy"
    else:
        v = "other"
    _S["hp_variant"] = v
    return v


def pieces_default(fcn, p):
    """what the tapes return for the default / extended model, obtained with the library's own sum_* functions"""
    import tensorflow as tf
    from tf_pwa.data import data_split, split_generator
    from tf_pwa.model.model import clip_log, sum_grad_hessp, sum_gradient, sum_hessian
    base = fcn.model.model
    var = base.signal.trainable_variables
    wl = list(data_split(fcn.weight, fcn.batch))
    ln, gln = sum_gradient(base.signal, fcn.batch_data, var, weight=wl, trans=clip_log, resolution_size=base.resolution_size)
    im, gim = sum_gradient(base.signal, fcn.batch_mcdata, var, weight=fcn.batch_mc_weight)
    sw = tf.reduce_sum([tf.reduce_sum(i) for i in wl])
    out = {"sw": float(sw), "ln": float(ln), "im": float(im), "gln": np.array(gln), "gim": np.array(gim)}
    pv = [tf.Variable(i) for i in p]
    _, _, hpln = sum_grad_hessp(base.signal, pv, fcn.batch_data, var, weight=wl, trans=clip_log, resolution_size=base.resolution_size)
    _, _, hpim = sum_grad_hessp(base.signal, pv, fcn.batch_mcdata, var, weight=fcn.batch_mc_weight)
    out["hpln"], out["hpim"] = np.array(hpln), np.array(hpim)
    # Hessian path: Model.nll_grad_hessian re-applies alpha (factor 1) and normalises the MC weights
    data, weight = fcn.model.get_weight_data(fcn.data, fcn.weight)
    wr = tf.reduce_sum(tf.reshape(weight, (-1, base.resolution_size)), axis=-1)
    weight = tf.reduce_sum(wr) / tf.reduce_sum(wr ** 2) * weight
    mcw = fcn.mc_weight / tf.reduce_sum(fcn.mc_weight)
    lnH, glnH, hln = sum_hessian(base.signal, split_generator(data, fcn.batch), var, weight=split_generator(weight, fcn.batch),
                                 trans=clip_log, resolution_size=base.resolution_size)
    imH, gimH, him = sum_hessian(base.signal, split_generator(fcn.mcdata, fcn.batch), var, weight=split_generator(mcw, fcn.batch))
    out.update(swH=float(tf.reduce_sum(weight)), lnH=float(lnH), imH=float(imH), glnH=np.array(glnH), gimH=np.array(gimH),
               hln=np.array(hln), him=np.array(him))
    return out


def pieces_cfit(fcn):
    import tensorflow as tf
    from tf_pwa.data import data_split, split_generator
    from tf_pwa.model.model import clip_log, sum_gradient, sum_hessian
    m = fcn.model
    var = m.vm.trainable_variables
    wl = list(data_split(fcn.weight, fcn.batch))
    mcd, mcw = list(fcn.batch_mcdata), list(fcn.batch_mc_weight)
    isg, gsg = sum_gradient(m.sig, mcd, var, mcw)
    ibg, gbg = sum_gradient(m.bg, mcd, var, mcw)
    vs, vb = tf.Variable(isg, dtype="float64"), tf.Variable(ibg, dtype="float64")

    def prob(x):
        return (1 - m.w_bkg) * m.sig(x) / vs + m.w_bkg * m.bg(x) / vb

    kw = {"resolution_size": m.resolution_size} if type(m).__name__ == "Model_cfit" else {}
    ll, gll = sum_gradient(prob, fcn.batch_data, var + [vs, vb], wl, trans=clip_log, **kw)
    out = {"sw": float(tf.reduce_sum(fcn.weight)), "w": float(m.w_bkg), "ll": float(ll), "isg": float(isg), "gll": np.array(gll),
           "gsg": np.array(gsg), "gbg": np.array(gbg)}
    # Hessian path
    data, weight = m.get_weight_data(fcn.data, fcn.weight)
    mw = fcn.mc_weight
    b = fcn.batch
    isg2, gsg2, hsg = sum_hessian(m.sig, split_generator(fcn.mcdata, b), var, weight=split_generator(mw, b))
    ibg2, gbg2, hbg = sum_hessian(m.bg, split_generator(fcn.mcdata, b), var, weight=split_generator(mw, b))
    vs.assign(isg2)
    vb.assign(ibg2)
    ll2, gll2, hll = sum_hessian(prob, split_generator(data, b), var + [vs, vb], weight=split_generator(weight, b), trans=clip_log, **kw)
    out.update(swH=float(tf.reduce_sum(weight)), llH=float(ll2), isgH=float(isg2), gllH=np.array(gll2), gsgH=np.array(gsg2), gbgH=np.array(gbg2),
               hll=np.array(hll), hsg=np.array(hsg), hbg=np.array(hbg))
    return out


def per_event(amp, data):
    """f_i, df_i/dtheta_k, d2f_i/dtheta_k dtheta_l of the toy amplitude by TensorFlow jacobians"""
    import tensorflow as tf
    var = amp.trainable_variables
    with tf.GradientTape(persistent=True) as t0:
        with tf.GradientTape(persistent=True) as t1:
            f = amp.pdf(data)
        J = t1.jacobian(f, var, unconnected_gradients="zero", experimental_use_pfor=False)
    H = [t0.jacobian(Jk, var, unconnected_gradients="zero", experimental_use_pfor=False) for Jk in J]
    del t0
    return np.array(f), np.array([np.array(j) for j in J]), np.array([[np.array(h) for h in row] for row in H])


class Corr:
    def __init__(self):
        self.lines, self.want, self.labels, self.replays = [], [], [], []

    def add(self, line, want, label, rep):
        self.lines.append(line)
        self.want.append(np.array(want, dtype="float64").ravel())
        self.labels.append(label)
        self.replays.append(rep)


def corr_toy(spec, cor, variant):
    import tensorflow as tf
    from tf_pwa.data import data_split
    kind = spec["kind"]
    vm, amp, fcn = build_toy(spec)
    n = len(vm.trainable_vars)
    y0 = np.array(vm.get_all_val(), dtype="float64")
    p = np.array(spec["p"][:n])
    rep = {"op": "toy", "spec": spec}
    lab = "%s batch=%d" % (kind, spec["batch"])
    wl = list(data_split(fcn.weight, fcn.batch))
    with quiet():
        fcn.model.set_params(y0)
        if kind in ("default", "extended"):
            ext = "1" if kind == "extended" else "0"
            pc = pieces_default(fcn, p)
            v, g = fcn.model.nll_grad_batch(fcn.batch_data, fcn.batch_mcdata, weight=wl, mc_weight=fcn.batch_mc_weight)
            cor.add("C07 default %s %d %s" % (ext, n, L([pc["sw"], pc["ln"], pc["im"]], pc["gln"], pc["gim"])), [float(v)] + [float(x) for x in g],
                    lab + " BaseModel.nll_grad_batch", rep)
            g2, hp = fcn.model.grad_hessp_batch(p, fcn.batch_data, fcn.batch_mcdata, weight=wl, mc_weight=fcn.batch_mc_weight)
            cor.add("C07 hessp %s %d %s" % (ext, n, L([pc["sw"], pc["im"]], p, pc["gln"], pc["gim"], pc["hpln"], pc["hpim"])),
                    [float(x) for x in g2] + list(np.array(hp)), lab + " BaseModel.grad_hessp_batch", rep)
            v3, g3, H3 = fcn.model.nll_grad_hessian(fcn.data, fcn.mcdata, weight=fcn.weight, batch=fcn.batch, mc_weight=fcn.mc_weight)
            cor.add("C07 defaultH %s %d %s" % (ext, n, L([pc["swH"], pc["lnH"], pc["imH"]], pc["glnH"], pc["gimH"], pc["hln"], pc["him"])),
                    [float(v3)] + list(np.array(g3)) + list(np.array(H3).ravel()), lab + " BaseModel.nll_grad_hessian", rep)
        elif kind in ("cfit", "cfit_extended"):
            ext = "1" if kind == "cfit_extended" else "0"
            pc = pieces_cfit(fcn)
            v, g = fcn.model.nll_grad_batch(fcn.batch_data, fcn.batch_mcdata, weight=wl if kind == "cfit" else fcn.weight, mc_weight=fcn.batch_mc_weight) \
                if kind == "cfit" else fcn.model.nll_grad_batch(fcn.batch_data, fcn.batch_mcdata, weight=wl, mc_weight=fcn.batch_mc_weight)
            cor.add("C07 cfit %s %d %s" % (ext, n, L([pc["sw"], pc["w"], pc["ll"], pc["isg"]], pc["gll"], pc["gsg"], pc["gbg"])),
                    [float(v)] + [float(x) for x in g], lab + " nll_grad_batch", rep)
            v3, g3, H3 = fcn.model.nll_grad_hessian(fcn.data, fcn.mcdata, weight=fcn.weight, batch=fcn.batch, mc_weight=fcn.mc_weight)
            cor.add("C07 cfitH %s %d %s" % (ext, n, L([pc["swH"], pc["w"], pc["llH"], pc["isgH"]], pc["gllH"], pc["gsgH"], pc["gbgH"], pc["hll"], pc["hsg"], pc["hbg"])),
                    [float(v3)] + [float(x) for x in g3] + list(np.array(H3).ravel()), lab + " nll_grad_hessian", rep)
        # FCN level: constraints
        tv = list(vm.trainable_vars)
        gc = fcn.gauss_constr.constraint
        fl = [1.0 if k in gc else 0.0 for k in tv]
        ms = [gc[k][0] if k in gc else 0.0 for k in tv]
        ss = [gc[k][1] if k in gc else 1.0 for k in tv]
        if kind in ("default", "extended", "cfit", "cfit_extended", "simple"):
            fcn.model.set_params(y0)
            ct = float(fcn.gauss_constr.get_constrain_term())
            cg = np.array(fcn.gauss_constr.get_constrain_grad(), dtype="float64")
            cH = constr_hess(fcn)
            allv = vm.get_all_dic()
            fx = [[float(allv[k]), float(gc[k][0]), float(gc[k][1])] for k in gc if k not in tv] if observe_constr_term_variant() == "all" else []
            cfix = sum((a - b) ** 2 / (c * c) / 2 for a, b, c in fx)
            cor.add("C07 gauss %d %d %s" % (n, len(fx), L(fl, ms, ss, y0, *fx)), [ct] + list(cg) + list(cH.ravel()), lab + " GaussianConstr term/grad/hessian", rep)
            v0, g0, H0 = fcn.get_nll_grad_hessian(y0)
            v1, g1, H1 = fcn.nll_grad_hessian(y0)
            cor.add("C07 fcnH %d %s" % (n, L(fl, ms, ss, y0, [float(v0) + cfix], np.array(g0), np.array(H0))),
                    [float(v1)] + list(np.array(g1)) + list(np.array(H1).ravel()), lab + " FCN.nll_grad_hessian", rep)
            if variant in ("fixed", "legacy"):
                gq, hq = fcn.get_grad_hessp(y0, p, fcn.batch)
                gq2, hq2 = fcn.grad_hessp(y0, p)
                cor.add("C07 fcnP %s %d %s" % (variant, n, L(fl, ms, ss, y0, np.array([float(x) for x in gq]), np.array(hq), p)),
                        list(np.array(gq2, dtype="float64")) + list(np.array(hq2, dtype="float64")), lab + " FCN.grad_hessp (%s variant)" % variant, rep)
        # bound wrappers: fed with what the wrapped function returns
        if spec.get("bounds"):
            x0 = np.array(vm.get_all_val(True), dtype="float64")
            d = [vm.bnd_dic[k].get_dydx(x0[i]) if k in vm.bnd_dic else 1.0 for i, k in enumerate(tv)]
            d2 = [vm.bnd_dic[k].get_d2ydx2(x0[i]) if k in vm.bnd_dic else 0.0 for i, k in enumerate(tv)]
            yv = [vm.bnd_dic[k].get_x2y(x0[i]) if k in vm.bnd_dic else x0[i] for i, k in enumerate(tv)]
            seen = {}

            def rec_fg(y):
                r = fcn.nll_grad(y)
                seen["fg"] = r
                return r

            def rec_fgh(y):
                r = fcn.nll_grad_hessian(y)
                seen["fgh"] = r
                return r

            def rec_ghp(y, q):
                r = fcn.grad_hessp(y, q)
                seen["ghp"] = (r, np.array(q))
                return r

            v1, g1 = vm.trans_fcn_grad(rec_fg)(x0.copy())
            cor.add("C07 transG %d %s" % (n, L(np.array(seen["fg"][1]), d)), list(g1), lab + " trans_fcn_grad", rep)
            v2, g2, H2 = vm.trans_f_grad_hess(rec_fgh)(x0.copy())
            cor.add("C07 transH %d %s" % (n, L(d, d2, np.array(seen["fgh"][1]), np.array(seen["fgh"][2]))), list(g2) + list(np.array(H2).ravel()),
                    lab + " trans_f_grad_hess", rep)
            g3, hp3 = vm.trans_grad_hessp(rec_ghp)(x0.copy(), p.copy())
            (gy, hpy), q = seen["ghp"]
            cor.add("C07 transP %d %s" % (n, L(p, d, d2, np.array(gy, dtype="float64"), np.array(hpy, dtype="float64"))),
                    list(q) + list(g3) + list(hp3), lab + " trans_grad_hessp", rep)
            vm.set_all(list(yv))
        # tape level (toy amplitude only): TensorFlow's sums vs the per-event chain rule
        if kind in ("default", "simple") and not spec.get("tie") and not spec.get("fix") and spec.get("resolution", 1) == 1:
            from tf_pwa.model.model import clip_log, sum_hessian
            from tf_pwa.data import split_generator
            fcn.model.set_params(y0)
            data = {k: tf.constant(v) for k, v in fcn.data.items() if k != "weight"}
            f, J, H2 = per_event(amp, data)
            m = len(f)
            w = np.array(fcn.weight)
            yy, gg, hh = sum_hessian(amp, split_generator(fcn.data, fcn.batch), amp.trainable_variables, weight=split_generator(fcn.weight, fcn.batch), trans=clip_log)
            cor.add("C07 tapeH clip %d %d %s" % (n, m, L(w, f, J, H2)), [float(yy)] + list(np.array(gg)) + list(np.array(hh).ravel()),
                    lab + " sum_hessian(trans=clip_log) vs per-event chain rule", rep)
            mc = {k: tf.constant(v) for k, v in fcn.mcdata.items() if k != "weight"}
            f, J, H2 = per_event(amp, mc)
            yy, gg, hh = sum_hessian(amp, split_generator(fcn.mcdata, fcn.batch), amp.trainable_variables, weight=split_generator(fcn.mc_weight, fcn.batch))
            cor.add("C07 tapeH id %d %d %s" % (n, len(f), L(np.array(fcn.mc_weight), f, J, H2)), [float(yy)] + list(np.array(gg)) + list(np.array(hh).ravel()),
                    lab + " sum_hessian(identity) vs per-event chain rule", rep)


def corr_real_cached(gen, cor):
    """assembly of the cached models (need a real decay group)"""
    import tensorflow as tf
    from tf_pwa.data import data_split, split_generator
    from tf_pwa.model.model import clip_log, sum_hessian
    from tf_pwa.model.opt_int import sum_grad_hessp_data2, sum_gradient_data2
    config, amp, fcn, gauss = real_fcn(gen)
    name = gen["name"]
    m = fcn.model
    var = amp.trainable_variables
    n = len(var)
    rep = {"op": "real", "gen": gen}
    wl = list(data_split(fcn.weight, fcn.batch))
    p = np.random.Generator(np.random.Philox(gen["key"] + 7)).uniform(-1, 1, n)
    with quiet():
        if name == "cached_amp":
            v, g = m.nll_grad_batch(fcn.batch_data, fcn.batch_mcdata, weight=wl, mc_weight=fcn.batch_mc_weight)
            cd, cm = m.cached_data[id(fcn.batch_data)], m.cached_data[id(fcn.batch_mcdata)]
            ln, gln = sum_gradient_data2(m.cached_amp, var, list(fcn.batch_data), cd, weight=wl, trans=clip_log)
            im, gim = sum_gradient_data2(m.cached_amp, var, list(fcn.batch_mcdata), cm, weight=fcn.batch_mc_weight)
            sw = float(tf.reduce_sum([tf.reduce_sum(i) for i in wl]))
            cor.add("C07 cachedG %d %s" % (n, L([sw, float(ln), float(im)], np.array(gln), np.array(gim))), [float(v)] + [float(x) for x in g],
                    "real cached_amp nll_grad_batch", rep)
            g2, hp = m.grad_hessp_batch(p, fcn.batch_data, fcn.batch_mcdata, weight=wl, mc_weight=fcn.batch_mc_weight)
            pv = [tf.Variable(i) for i in p]
            _, _, hpln = sum_grad_hessp_data2(m.cached_amp, pv, var, list(fcn.batch_data), cd, weight=wl, trans=clip_log)
            _, _, hpim = sum_grad_hessp_data2(m.cached_amp, pv, var, list(fcn.batch_mcdata), cm, weight=fcn.batch_mc_weight)
            cor.add("C07 cachedAmpP %d %s" % (n, L([sw, float(im)], p, np.array(gln), np.array(gim), np.array(hpln), np.array(hpim))),
                    [float(x) for x in g2] + list(np.array(hp)), "real cached_amp grad_hessp_batch", rep)
        if name == "cached_int":
            v3, g3, H3 = m.nll_grad_hessian(fcn.data, fcn.mcdata, weight=fcn.weight, batch=fcn.batch, mc_weight=fcn.mc_weight)
            data, weight = m.get_weight_data(fcn.data, fcn.weight)
            ln, gln, hln = sum_hessian(m.Amp, split_generator(data, fcn.batch), var, weight=split_generator(weight, fcn.batch), trans=clip_log)
            mc_id = id(fcn.mcdata)
            with tf.GradientTape(persistent=True) as t0:
                with tf.GradientTape() as t1:
                    y = m.get_cached_int(mc_id)
                gi = t1.gradient(y, var, unconnected_gradients="zero")
            hi = [t0.gradient(q, var, unconnected_gradients="zero") for q in gi]
            del t0
            cor.add("C07 cachedIntH %d %s" % (n, L([float(tf.reduce_sum(weight)), float(ln), float(y), float(tf.reduce_sum(fcn.mc_weight))],
                                                  np.array(gln), np.array(gi), np.array(hln), np.array(hi))),
                    [float(v3)] + list(np.array(g3)) + list(np.array(H3).ravel()), "real cached_int nll_grad_hessian", rep)


def corr_combine(ce, cor):
    vm, amp, cf, fcns = build_combine(ce)
    x0 = np.array(vm.get_all_val(), dtype="float64")
    n = len(x0)
    with quiet():
        parts = [f.get_nll_grad(x0) for f in fcns]
        v, g = cf.get_nll_grad(x0)
    cor.add("C07 combine %d %d %s" % (len(parts), n, L(*[[float(q[0])] + [float(x) for x in q[1]] for q in parts])), [float(v)] + list(np.array(g)),
            "CombineFCN.get_nll_grad", {"op": "combine", "ce": ce})


def correspond(ctx, res):
    tlog("correspondence start")
    variant = observe_hessp_variant()
    res.notes.append("FCN.grad_hessp variant observed on this tree: %s" % variant)
    if variant == "other":
        res.broke("FCN.grad_hessp adds neither 0 nor constraint_hessian . p to the model's Hessian-vector product", None)
    rng = np.random.Generator(np.random.Philox(ctx.seed * 1000 + 717))
    cor = Corr()
    kinds = ["default", "extended", "cfit", "cfit_extended", "simple"]
    optsl = [dict(gauss=True, bounds=True), dict(gauss=True), dict(bounds=True, tie=True), dict(gauss=True, fix=True), dict()]
    reps = 1 if ctx.quick else 6
    for r in range(reps):
        for i, k in enumerate(kinds):
            spec = gen_case(rng, k, optsl[(i + r + ctx.seed) % len(optsl)])
            if k in ("cfit", "cfit_extended"):
                spec["bgpar"] = True
            corr_toy(spec, cor, variant)
    corr_toy(gen_case(rng, "default", dict(gauss=True, bounds=True)), cor, variant)
    for i in range(1 if ctx.quick else 4):
        corr_combine(combine_case(rng), cor)
    tlog("correspondence: toy pieces collected (%d ops)" % len(cor.lines))
    # (ModelCachedAmp.grad_hessp_batch needs ~100 s of tf.function tracing: thorough tier only)
    names = ["cached_int"] if ctx.quick else ["cached_amp", "cached_int", "cached_int"]
    for i, nm in enumerate(names):
        corr_real_cached({"name": nm, "key": int(ctx.seed * 100000 + 71700 + i), "nd": 7, "nm": 10, "nb": 0, "batch": 40, "float_mass": False}, cor)
    tlog("correspondence: cached pieces collected")
    # tie rows collected by the search of a previous call are not available yet: generate a few here
    for i in range(2 if ctx.quick else 8):
        spec = gen_case(rng, "default", dict(tie=True, fix=(i % 2 == 0)))
        free = dict(spec, gauss={})
        free.pop("tie")
        free.pop("fix", None)
        vmf, _, fcnf = build_toy(free)
        vmt, _, fcnt = build_toy(dict(spec, gauss={}))
        with quiet():
            gf = np.array(fcnf.nll_grad(np.array(vmf.get_all_val()))[1], dtype="float64")
            gt = np.array(fcnt.nll_grad(np.array(vmt.get_all_val()))[1], dtype="float64")
        grp = tie_groups(spec, vmt)
        cor.add("C07 tie %d %d %s %s" % (len(vmt.trainable_vars), len(grp), " ".join(str(g) for g in grp), L(gf)), gt,
                "tied gradient vs tieGrad of the untied gradient (tie=%s fix=%s)" % (spec.get("tie"), spec.get("fix")), {"op": "toy", "spec": spec})
    import c07_y
    c07_y.correspond_y(ctx, rng, cor, res)
    tlog("correspondence: custom family pieces collected (%d ops)" % len(cor.lines))
    out = ctx.model.query(cor.lines)
    bad, worst = 0, 0.0
    for line, o, want, label, rep in zip(cor.lines, out, cor.want, cor.labels, cor.replays):
        if o == "bad-op":
            res.broke("correspondence: Lean driver rejected an op", line[:200])
            bad += 1
            continue
        got = np.array([C.h2f(s) for s in o.split()])
        e = _dev(got, want) if got.shape == want.shape else float("inf")
        worst = max(worst, e if np.isfinite(e) else 0.0)
        if not e <= CTOL:
            bad += 1
            if bad <= 5:
                res.broke("correspondence %s" % label, {"op": " ".join(line.split()[:2]), "rel": e, "model": got.tolist()[:12], "impl": want.tolist()[:12], "replay": rep})
    res.coverage.update({
        "traces_validated_against_impl": len(cor.lines),
        "evaluations": int(sum(len(w) for w in cor.want)),
        "distinct_nontrivial": len({l.split()[1] + l.split()[2] for l in cor.lines}),
        "rule": "assembly-level: the library's own sum_gradient / sum_hessian / sum_grad_hessp results (what the tapes return) are fed to the Float instance of "
                "templates/Deriv.lean.in and compared with nll_grad_batch / grad_hessp_batch / nll_grad_hessian of Model, Model_cfit, ModelCfitExtended, "
                "ModelCachedInt, ModelCachedAmp, the three bound wrappers, GaussianConstr, FCN and CombineFCN sums; tape-level: sum_hessian vs per-event "
                "jacobians through tapeVal/tapeGrad/tapeHess; ties vs tieGrad; rel %.0e of max(1, |result|_inf)" % CTOL,
        "exhaustive": False,
        "worst_assembly_rel": worst,
        "ops": sorted({l.split()[1] if l.split()[0] == "C07" else "Y:" + l.split()[1] for l in cor.lines}),
    })
    res.samples += [{"op": cor.lines[i].split()[1], "label": cor.labels[i], "impl": cor.want[i][:4].tolist()} for i in range(0, len(cor.lines), max(1, len(cor.lines) // 6))][:8]
    tlog("correspondence done: %d ops, %d bad, worst rel %.2e" % (len(cor.lines), bad, worst))


# --------------------------------------------------------------------------
# replay
# --------------------------------------------------------------------------

def replay(ctx, payload):
    C.setup_tf()
    r = payload.get("replay", payload)
    key = payload.get("key", r.get("clause"))
    res = C.Result()
    stats = new_stats()
    if r.get("op") == "toy":
        search_toy(r["spec"], res, stats, "replay")
    elif r.get("op") == "combine":
        search_combine(r["ce"], res, stats, "replay")
    elif r.get("op") == "real":
        search_real(r["gen"], res, stats, "replay")
    elif r.get("op") == "constrain_model":
        search_constrain_model(res, stats)
    elif r.get("op") == "constr_tied":
        search_constr_tied(res, stats)
    elif r.get("op") == "toyY":
        import c07_y
        c07_y.search_toy_y(r["spec"], res, stats, "replay")
    elif r.get("op") == "mix":
        import c07_y
        c07_y.search_mix(np.random.Generator(np.random.Philox(ctx.seed * 1000 + 777)), res, stats)
    else:
        print("replay file names a broken obligation, not a failing input:", str(payload.get("broken"))[:3000])
        return 1
    same = [f for f in res.failures if key is None or f.key == key]
    for f in res.failures[:6]:
        print("failing:", f.key, "|", f.what[:600])
    print("REPLAY: property C07 key %s %s" % (key, "still violated" if same else "not reproduced on this tree"))
    return 1 if same else 0


MANIFEST = {
    "text": "Lean theorems over the reals (Mathlib HasDerivAt / HasFDerivAt, derivatives are unique) for ALL parameter points, directions p, q and all numbers the tapes may return: IF ln_data, int_mc (I_sig, I_bg, ll) have the gradients / Hessians / Hessian-vector products handed to the assembly code THEN the assembled gradient is the derivative of the assembled value -ln_data + sw int_f(int_mc) along every line (grad_is_deriv), q^T H p of the assembled Hessian is the derivative of q.g (hess_is_deriv), grad_hessp_batch returns exactly H.p (hessp_eq_hess_mul, hessp_is_deriv), extended and normalised; the differently written cached_int / cached_amp formulas are the same numbers (cached_eq_default); cfit and cfit-extended gradient and Hessian J^T H_ll J + dll/dI_sig H_Isig + dll/dI_bg H_Ibg (+ sw(H_I/I - g g^T/I^2) - H_I/(1-w)) are the derivatives of -ll(theta, I_sig(theta), I_bg(theta)) (+ extended terms) (cfit_grad_is_deriv, cfit_hess_is_deriv); the three bound wrappers implement d/dx F(y(x)) = F'y', H_x = y'H_y y' + diag(F'y''), and trans_grad_hessp = H_x.p (bound_chain_rule, bound_hess_chain_rule, trans_hessp_eq_hess_mul); Gaussian-constraint term / gradient / Hessian are derivatives of each other for every sigma (gauss_terms_deriv); FCN value+term, gradient+grad, Hessian+Hessian and (after fix_grad_hessp.diff) hessp + H_c.p belong to one function (fcn_is_deriv), while the unpatched grad_hessp text is REFUTED on a witness (fcn_hessp_legacy_violates); CombineFCN sums (combine_is_deriv); a tied group receives the sum of its members' partials and fixed names drop out (shared_fixed); and from per-event derivative data to the NLL: tape_grad_is_deriv, tape_hess_is_deriv, clipLog_hasDerivAt, nll_grad_from_events (the gradient the code assembles is the gradient of -sum w clip_log f + sw int_f(sum v f), which above eps is -sum w ln f + sw ln sum v f). C07d (templates/DerivY.lean.in), all for ANY number of MC batches, data batches, normalisation factors, events and parameters: custom_grad_is_deriv — the SumVar sum carries the summed factors, the value returned by BaseCustomModel.nll_grad_batch is the sum of the batch values (every batch once, batch 0 with its once-only terms) and the returned gradient (direct part + sum_j da/dnorm_j * grad_j per batch) is the derivative of s -> sum_b A_b(s, sum_c N_c(s)); custom_hess_is_deriv — the Hessian assembled by nll_grad_hessian (A + B.Y + Y^T.R + Y^T.C.Y + sum_j da/dnorm_j * sym(Z_j) per batch, summed) is the derivative of the returned gradient (q^T H p for all p, q), custom_hess_mc_batches — the SumVar.from_call_with_hess / __add__ loop over the MC batches carries the sums and they satisfy the hypotheses of custom_hess_is_deriv; constr_frac_grad_is_deriv — the constr_frac model END TO END from the closed formulas of eval_nll_part (fraction constraints in batch 0 only, quotient rule constr_frac_term_is_deriv through norm[i+1]/norm[0]), simple = the case without constraints (simple_is_constr_frac_nil), simple_clip_grad_is_deriv (clip_log on the normalisation factor) end to end; cfit_bg_param_grad_is_deriv — Model_cfit with a PARAMETRISED background from per-event derivative data of sig AND bg with both integrals moving (tape on ll composed with the assembly), cfit_bg_param_hess_is_deriv (the assembly-level Hessian statement with both integrals, gradient tables and Hessians non-trivial); inmc_grad_is_deriv — inject_mc (sum_gradient_new) from per-event data, fixed injected weight; mix_fcn_grad_is_deriv — MixLogLikehoodFCN.get_nll_grad for any number of normalised / extended models; constrain_model_terms_deriv (+ break witness); refutations cfit_swapped_outer_violates (seed C07-04: g_int_bg*g_ll_sig is not the derivative on a witness, the unswapped text is) and custom_lost_idx_counts_twice (seed C06-04: the once-only term is counted per batch).",
    "note": "Model = templates/Deriv.lean.in (assembly formulas over lists, per-tape data as parameters) instantiated at R (proofs) and Float (execution). Tie to the code, every run: the library's own sum_gradient / sum_hessian / sum_grad_hessp results are fed to the Float instance and compared (1e-9, observed 1e-15) with nll_grad_batch / grad_hessp_batch / nll_grad_hessian of Model (default, extended), Model_cfit, ModelCfitExtended, ModelCachedInt (ModelCachedAmp in the thorough tier), the three bound wrappers, GaussianConstr, FCN.nll_grad_hessian / grad_hessp (fixed or legacy variant as observed on the tree), CombineFCN sums, ties vs tieGrad, and sum_hessian vs the per-event chain rule (tapeHess) on TensorFlow jacobians of a toy amplitude. TensorFlow autodiff itself is NOT verified: the search differentiates the implementation numerically (5-point stencil, two step sizes, 2e-6; observed 1e-11): returned gradient vs FD of the returned value, Hessian vs FD of the gradient, grad_hessp vs H_fd.p, raw and through trans_fcn_grad / trans_f_grad_hess / trans_grad_hessp with two-sided / lower / upper bounds, tied and fixed parameters, Gaussian constraints, batch in {3, n, 2n}, value alongside = stand-alone value, for 8 toy model kinds (+ resolution_size 2), CombineFCN, and a real AmplitudeModel through ConfigLoader (floating couplings, mass, width; cached and cfit variants rotating / thorough). Three listed findings are reported through search with stable keys and are silent on the patched tree: grad_hessp omits the constraint curvature; cfit / custom models inherit the default model's grad_hessp_batch; SumVar gives every normalisation factor the summed Hessian (simple_cfit Hessian wrong). C07d tie, every run: the library's own _fast_int_mc_grad outputs per MC batch and the TensorFlow tape on the library's eval_nll_part per data batch (normalisation factors as independent variables) are fed to DerivYF and compared (1e-9) with BaseCustomModel.nll_grad_batch and nll_grad_hessian (SumVar.from_call_with_hess pieces, Hessian blocks A/B/R/C) of simple, simple_clip, simple_cfit, simple_chi2, constr_frac, cfit_constr_frac with >= 2 MC and data batches of NON-DIVIDING size; the closed formulas of eval_nll_part in the factors (simple, simple_clip, constr_frac incl. idx 0 / idx 1, cfit_constr_frac) vs the tape; sum_gradient(prob) of cfit with a floating-parameter bg_f vs per-event jacobians of sig and bg (cfitTape); inject_mc vs per-event chain rule (inmc); MixLogLikehoodFCN.get_nll_grad vs mixVal/mixGrad. Search additionally: constr_frac / cfit_constr_frac (two switchable toy resonances) / inject_mc (floating weight_injectMC) with non-dividing batches, one-batch comparison, through the bound wrappers; cfit with a floating-parameter bg_f through the bound wrappers every run; MixLogLikehoodFCN gradient vs FD. Validated only (no theorem): that TensorFlow's tape through SumVar.__call__ (custom first / second order expansion) returns partGrad / partHess, the closed formulas of simple_cfit / cfit_constr_frac inside a derivative statement, a FLOATING injected-MC weight; ConstrainModel only by the consistency probe (its model is untied); Float rounding.",
    "technique": "Lean 4 proof over the reals (HasDerivAt/HasFDerivAt chain rules, uniqueness of derivatives) of one template instantiated at Float for assembly-level differential correspondence with the implementation's own tape outputs, a refutation theorem for the unpatched Hessian-vector product, and finite-difference search on the implementation",
}
