#!/usr/bin/env python3
"""Validate MANIFEST.json and every evidence file against the schemas (run with python3-vt, which has jsonschema)."""
import glob, json, sys
import jsonschema
m = json.load(open('/verif/MANIFEST.json'))
jsonschema.validate(m, json.load(open('/root/.vp/MANIFEST.schema.json')))
es = json.load(open('/root/.vp/EVIDENCE.schema.json'))
claimed = {c["property_id"] for c in m["checks"]}
na = {c["property_id"] for c in m.get("not_applicable", [])}
allp = {json.loads(l)["id"] for l in open('/verif/properties.jsonl')}
assert claimed | na == allp and not (claimed & na), (claimed, na)
for c in m["checks"]:
    ev = json.load(open('/verif/' + c["evidence_file"]))
    jsonschema.validate(ev, es)
    cov = ev["coverage"]
    assert ev["level"] == c["level_claimed"]["category"], c["property_id"]
    if ev["level"] == "proof":
        assert cov["obligations"] == cov["discharged"] >= 1, (c["property_id"], cov["obligations"], cov["discharged"])
    print(c["property_id"], ev["tier"], "violations", ev.get("violations"), "obligations", cov.get("obligations"), "traces", cov.get("traces_validated_against_impl"), "wall", ev["wall_s"])
print("valid; claimed", sorted(claimed), "not claimed", sorted(na))
