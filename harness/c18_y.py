"""C18, round 4: the data plumbing of tf_pwa/config_loader/data.py (get_dat_order incl. standard=True, re_map, get_data_index,
load_extra_var, load_data, MultiData.get_data per-sample lists, get_n_data), data_cut expressions as an AST, LazyCall objects
with identities (copy / data_replace aliasing) and data_merge of ARBITRARY LazyCalls vs data_merge of their eager values.
Model: lean/TfPwaV/Model/DataY.lean (prefix C18c of the line protocol); theorems: lean/TfPwaV/Props/C18c.lean.
Called from harness/c18.py (correspond / search / replay)."""
import os
import random
import shutil
import tempfile

import common as C

PNAMES = ["B", "C", "D", "E", "F"]
XNAMES = ["weight", "charge", "bg_value", "eff_value", "aux"]
XKEYS = ["charge_conjugation", "weight", "w2", "aux"]


def _np():
    import numpy as np
    return np


# ----------------------------------------------------------------------------- stubs (the real methods are run)
class _DS:
    """stands for decay_struct: only .outs, .get_chains_map(), .topology_structure()"""

    def __init__(self, outs, chain_maps=None):
        from tf_pwa.particle import BaseParticle
        self.outs = [BaseParticle(k) for k in outs]
        self._maps = chain_maps or []

    def get_chains_map(self):
        return self._maps

    def topology_structure(self):
        return []


def stub_pre(x):
    np = _np()
    return {"particle": {str(k): {"p": np.asarray(v)} for k, v in x["p4"].items()},
            "n_extra": np.array([float(len(x["extra"]))])}


def stub_data(cls_name, dic, outs, extra_var=None, chain_maps=None, via_init=False):
    """a SimpleData / MultiData object without the amplitude machinery.  via_init: the real __init__ is run with
    create_preprocessor replaced by the stub (so that re_map, extra_var, scale_list are built by the library)"""
    import tf_pwa.config_loader.data as M
    cls = getattr(M, cls_name)
    ds = _DS(outs, chain_maps)
    if via_init:
        old = M.create_preprocessor
        M.create_preprocessor = lambda *a, **k: stub_pre
        try:
            sd = cls(dic, ds, config=None)
        finally:
            M.create_preprocessor = old
        return sd
    sd = object.__new__(cls)
    sd.decay_struct = ds
    sd.dic = dic
    sd.root_config = None
    sd.lazy_file = False
    sd.lazy_call = False
    sd.cached_data = None
    sd.scale_list = ["bg"]
    sd.preprocessor = stub_pre
    sd.extra_var = extra_var if extra_var is not None else {"weight": {"default": 1}, "charge": {"key": "charge_conjugation", "default": 1}}
    sd.re_map = {}
    if cls_name == "MultiData":
        sd._Ngroup = 0
    return sd


# ----------------------------------------------------------------------------- expressions (data_cut)
CMPS = {"lt": "<", "le": "<=", "gt": ">", "ge": ">="}


def gen_aexp(rnd, vs, depth):
    r = rnd.random()
    if depth == 0 or r < 0.35:
        if rnd.random() < 0.7:
            return ("v", rnd.choice(vs))
        return ("c", rnd.randint(-4, 4))
    if r < 0.55:
        return ("+", gen_aexp(rnd, vs, depth - 1), gen_aexp(rnd, vs, depth - 1))
    if r < 0.75:
        return ("-", gen_aexp(rnd, vs, depth - 1), gen_aexp(rnd, vs, depth - 1))
    if r < 0.92:
        return ("*", gen_aexp(rnd, vs, depth - 1), gen_aexp(rnd, vs, depth - 1))
    return ("n", gen_aexp(rnd, vs, depth - 1))


def gen_bexp(rnd, vs, depth):
    r = rnd.random()
    if depth == 0 or r < 0.4:
        return (rnd.choice(sorted(CMPS)), gen_aexp(rnd, vs, 2), gen_aexp(rnd, vs, 2))
    if r < 0.62:
        return ("and", gen_bexp(rnd, vs, depth - 1), gen_bexp(rnd, vs, depth - 1))
    if r < 0.84:
        return ("or", gen_bexp(rnd, vs, depth - 1), gen_bexp(rnd, vs, depth - 1))
    return ("not", gen_bexp(rnd, vs, depth - 1))


def expr_str(e):
    """the Python / sympy spelling (fully parenthesised: & | ~ bind tighter than comparisons)"""
    t = e[0]
    if t == "v":
        return e[1]
    if t == "c":
        return "(%d)" % e[1]
    if t in "+-*":
        return "(%s %s %s)" % (expr_str(e[1]), t, expr_str(e[2]))
    if t == "n":
        return "(-%s)" % expr_str(e[1])
    if t in CMPS:
        return "(%s %s %s)" % (expr_str(e[1]), CMPS[t], expr_str(e[2]))
    if t == "and":
        return "(%s & %s)" % (expr_str(e[1]), expr_str(e[2]))
    if t == "or":
        return "(%s | %s)" % (expr_str(e[1]), expr_str(e[2]))
    return "(~%s)" % expr_str(e[1])


def expr_tokens(e):
    t = e[0]
    if t in ("v", "c"):
        return [t, str(e[1])]
    out = [t]
    for a in e[1:]:
        out += expr_tokens(a)
    return out


def expr_vars(e):
    if e[0] == "v":
        return {e[1]}
    if e[0] == "c":
        return set()
    s = set()
    for a in e[1:]:
        s |= expr_vars(a)
    return s


def expr_eval(e, env):
    """independent oracle: the value of the expression for ONE event"""
    t = e[0]
    if t == "v":
        return env[e[1]]
    if t == "c":
        return e[1]
    if t == "+":
        return expr_eval(e[1], env) + expr_eval(e[2], env)
    if t == "-":
        return expr_eval(e[1], env) - expr_eval(e[2], env)
    if t == "*":
        return expr_eval(e[1], env) * expr_eval(e[2], env)
    if t == "n":
        return -expr_eval(e[1], env)
    if t == "lt":
        return expr_eval(e[1], env) < expr_eval(e[2], env)
    if t == "le":
        return expr_eval(e[1], env) <= expr_eval(e[2], env)
    if t == "gt":
        return expr_eval(e[1], env) > expr_eval(e[2], env)
    if t == "ge":
        return expr_eval(e[1], env) >= expr_eval(e[2], env)
    if t == "and":
        return expr_eval(e[1], env) and expr_eval(e[2], env)
    if t == "or":
        return expr_eval(e[1], env) or expr_eval(e[2], env)
    return not expr_eval(e[1], env)


def sympy_keeps(expr, e):
    """sympify must leave a relational / boolean expression over exactly the syntactic variables (data_cut takes
    free_symbols of the SIMPLIFIED expression but lambdifies the string: a variable that sympy eliminates is a NameError)"""
    import sympy as sym
    s = sym.sympify(expr)
    if s in (sym.true, sym.false) or isinstance(s, bool):
        return False
    return {x.name for x in s.free_symbols} == expr_vars(e)


def cut_case(rnd, B, n=None, broken=True):
    """(tree, var_map, expr AST, var locations) for data_cut"""
    np = _np()
    n = n if n is not None else rnd.choice([1, 2, 3, 7, 16])
    t = B.gen_tree(rnd, n, depth=rnd.choice([1, 2]), p_empty=0.2, nonuniform=0.3 if (broken and rnd.random() < 0.1) else 0)
    if not isinstance(t, dict):
        t = {"t": t}
    vs = rnd.sample(["m", "u", "z"], rnd.randint(1, 3))
    vm, cols = {}, {}
    for v in vs:
        col = np.array([rnd.randint(-5, 5) for _ in range(n)], dtype=float)
        cols[v] = col
        r = rnd.random()
        if r < 0.5:
            t[v] = col
        elif r < 0.8:
            t.setdefault("q", {})
            if not isinstance(t["q"], dict):
                t["q"] = {}
            t["q"]["c" + v] = col
            vm[v] = ("q", "c" + v)
        else:
            t["k" + v] = col
            vm[v] = "k" + v if rnd.random() < 0.5 else ["k" + v]
    e = gen_bexp(rnd, vs, rnd.choice([0, 1, 2, 3]))
    if broken and rnd.random() < 0.06:      # a variable that is not in the data
        e = ("and", e, ("gt", ("v", "nokey"), ("c", 0)))
    return t, vm, e, cols


def vm_tokens(vm):
    out = [str(len(vm))]
    for k, p in vm.items():
        p = [p] if isinstance(p, str) else list(p)
        out += [k, str(len(p))] + p
    return out


# ----------------------------------------------------------------------------- helpers for the plumbing cases
def arg_tokens(B, a):
    np = _np()
    if a is None:
        return ["A"]
    if isinstance(a, (int, float)):
        return ["N", str(int(a))]
    if isinstance(a, tuple):      # ("F", array)  one file name
        return ["F"] + B.enc(a[1])
    out = ["G", str(len(a))]
    for _, arr in a:
        out += B.enc(arr)
    return out


def gen_arg(rnd, tmp, tag, p_none=0.3, allow_empty_list=True):
    """a kwargs value of load_extra_var: None / number / file name / list of file names; returns (python value, description)"""
    np = _np()
    r = rnd.random()
    if r < p_none:
        return None, None
    if r < p_none + 0.2:
        c = rnd.randint(-3, 3)
        return (c if rnd.random() < 0.5 else float(c)), c

    def mkfile(i):
        a = np.array([rnd.randint(-9, 9) for _ in range(rnd.randint(1, 7))], dtype=float)
        p = os.path.join(tmp, "%s_%d_%d.%s" % (tag, i, rnd.randint(0, 10 ** 9), rnd.choice(["dat", "npy"])))
        np.save(p, a) if p.endswith("npy") else np.savetxt(p, a)
        return p, a
    if r < p_none + 0.5:
        p, a = mkfile(0)
        return p, ("F", a)
    k = rnd.randint(0 if allow_empty_list else 1, 3)
    fs = [mkfile(i) for i in range(k)]
    return [p for p, _ in fs], [("f", a) for _, a in fs]


def spec_tokens(specs):
    out = [str(len(specs))]
    for name, sp in specs.items():
        out += [name, sp.get("key", "-"), str(sp["default"]) if "default" in sp else "-"]
    return out


def gen_specs(rnd):
    specs = {}
    for name in rnd.sample(XNAMES, rnd.randint(1, 4)):
        sp = {}
        if rnd.random() < 0.5:
            sp["key"] = rnd.choice(XKEYS)
        if rnd.random() < 0.7:
            sp["default"] = rnd.randint(-2, 3)
        specs[name] = sp
    return specs


# ----------------------------------------------------------------------------- correspondence
def correspond(ctx, res):
    import c18 as B
    np = _np()
    from tf_pwa import data as D
    from tf_pwa.particle import BaseParticle
    rnd = random.Random(9000 + ctx.seed)
    scale = 1 if ctx.quick else 20
    lines, impl, kinds = [], [], []
    skipped = {"cut_sympy_simplifies": 0}

    def add(line, got, kind):
        lines.append("C18c " + line)
        impl.append(got)
        kinds.append(kind)

    tmp = tempfile.mkdtemp(prefix="c18y_")
    try:
        # --- get_dat_order() and the column -> particle assignment of load_p4 (through a real file) ---------------------
        for ci in range(40 * scale):
            n = rnd.randint(1, 5)
            outs = rnd.sample(PNAMES, n)
            r = rnd.random()
            if r < 0.3:
                card = None
            else:
                card = list(outs)
                rnd.shuffle(card)
                if r < 0.4 and n > 1:
                    card = card[:rnd.randint(1, n - 1)]
                elif r < 0.5:
                    card = card + ["Z"]
            sd = stub_data("SimpleData", {} if card is None else {"dat_order": list(card)}, outs)
            order = sd.get_dat_order()
            names = [str(k) for k in order]
            pos = [sd.decay_struct.outs.index(k) if k in sd.decay_struct.outs else len(outs) for k in order]
            # a file whose column idx holds the number idx: which particle receives which column
            N = rnd.choice([1, 3])
            rows = np.array([[c, 0, 0, 0] for _ in range(N) for c in range(len(names))], dtype=float)
            p = os.path.join(tmp, "do%d.%s" % (ci, rnd.choice(["dat", "npy"])))
            np.save(p, rows) if p.endswith("npy") else np.savetxt(p, rows)
            back = sd.load_p4(p)
            got_cols = sorted((int(np.asarray(v)[0, 0]), str(k)) for k, v in back.items())
            if [k for _, k in got_cols] != names or [c for c, _ in got_cols] != list(range(len(names))):
                names = ["file-columns:%s" % got_cols]
            lst = sd.cal_angle([np.full((N, 4), float(c)) for c in range(len(names))]) if names and not names[0].startswith("file") else None
            if lst is not None and [(k, int(v["p"][0, 0])) for k, v in lst["particle"].items()] != [(k, c) for c, k in enumerate(names)]:
                names = ["cal_angle-list:%s" % [(k, int(v["p"][0, 0])) for k, v in lst["particle"].items()]]
            add("datord %d %s %d %d %s" % (n, " ".join(outs), int(card is not None), len(card or []), " ".join(card or [])),
                ",".join(names) + " | " + ",".join(str(i) for i in pos), "datord")

        # --- get_dat_order(standard=True), re_map (built by the real __init__), get_data_index("p"/"mass") --------------
        for ci in range(40 * scale):
            n = rnd.randint(1, 4)
            outs = rnd.sample(PNAMES, n)
            names_l = outs + ["R1", "R2"]
            maps, items = [], []
            for _t in range(rnd.randint(0, 2)):
                tmpd = {}
                for ch in range(rnd.randint(0, 2)):
                    cm = {}
                    for l in rnd.sample(names_l, rnd.randint(0, len(names_l))):
                        s = l if rnd.random() < 0.6 else rnd.choice(["s" + l, "S1", "S2", rnd.choice(names_l)])
                        cm[BaseParticle(s)] = BaseParticle(l)
                    tmpd["chain%d" % ch] = cm
                    items += [(str(s), str(l)) for s, l in cm.items()]
                maps.append(tmpd)
            card = list(outs)
            rnd.shuffle(card)
            if rnd.random() < 0.2:
                card.append("Z")
            sd = stub_data("SimpleData", {"dat_order": card}, outs, chain_maps=maps, via_init=True)
            std = [str(k) for k in sd.get_dat_order(standard=True)]
            rm = [str(sd.re_map.get(BaseParticle(k), BaseParticle(k))) for k in card]
            add("stdord %d %s %s" % (len(items), " ".join(s + " " + l for s, l in items), " ".join(card)),
                ",".join(std) + " | " + ",".join(rm), "stdord")
            name = rnd.choice(card)
            sub = rnd.choice(["p", "mass", "p", "nosub"])
            try:
                idx = sd.get_data_index(sub, name)
                got = ",".join(B.keystr(k) for k in idx)
            except ValueError:
                got = "none"
            add("dindex %s %s %d %s" % (sub, name, len(items), " ".join(s + " " + l for s, l in items)), got, "dindex")

        # --- load_extra_var: extra_var specs (key / default), kwargs None / number / file / list of files -----------------
        for ci in range(40 * scale):
            specs = gen_specs(rnd)
            nd = rnd.randint(1, 8)
            kw, kwd = {}, []
            for name in rnd.sample(XNAMES, rnd.randint(0, 4)):
                v, d = gen_arg(rnd, tmp, "ev%d" % ci)
                kw[name] = v
                kwd.append((name, d))
            sd = stub_data("SimpleData", {}, ["B"], extra_var=specs)
            try:
                ev = sd.load_extra_var(nd, **kw)
                got = "ok " + B.encs({k: np.asarray(v) for k, v in ev.items()})
            except ValueError:
                got = "none"
            toks = []
            for name, d in kwd:
                toks += [name] + arg_tokens(B, d)
            add("extravar %d %s %d %s" % (nd, " ".join(spec_tokens(specs)), len(kwd), " ".join(toks)), got, "extravar")

        # --- MultiData.get_data: per-sample file lists, per-sample side files, weight sign, get_n_data --------------------
        for ci in range(30 * scale):
            n = rnd.randint(1, 3)
            outs = PNAMES[:n]
            order = list(outs)
            rnd.shuffle(order)
            specs = {"weight": {"default": rnd.choice([1, 1, 2])}, "charge": {"key": "charge_conjugation", "default": 1}}
            if rnd.random() < 0.3:
                specs["aux"] = {"default": rnd.randint(0, 3)} if rnd.random() < 0.5 else {"key": "w2"}
            if rnd.random() < 0.08:
                specs = {"charge": {"key": "charge_conjugation", "default": 1}}          # nothing writes "weight": KeyError
            form = "S" if rnd.random() < 0.35 else "M"
            nsm = 1 if form == "S" else rnd.randint(1, 3)
            samples, sample_tok = [], []
            for si in range(nsm):
                N = rnd.choice([1, 2, 4])
                nf = 1 if rnd.random() < 0.7 else rnd.randint(1, n)
                cuts = sorted(rnd.sample(range(1, n), nf - 1)) if nf > 1 else []
                groups = [b - a for a, b in zip([0] + cuts, cuts + [n])]
                fs, tk = [], [str(len(groups))]
                for gi, g in enumerate(groups):
                    rows = np.array([rnd.randint(-99, 99) for _ in range(N * g * 4)], dtype=float).reshape(-1, 4)
                    p = os.path.join(tmp, "md%d_%d_%d.%s" % (ci, si, gi, rnd.choice(["dat", "npy"])))
                    np.save(p, rows) if p.endswith("npy") else np.savetxt(p, rows)
                    fs.append(p)
                    tk += B.enc(rows)
                samples.append(fs)
                sample_tok += tk
            dic = {"dat_order": order, "data": samples[0] if form == "S" else samples}
            card_tok, ncard = [], 0
            for name in specs:
                r = rnd.random()
                if r < 0.3:
                    continue
                ncard += 1
                if r < 0.55:
                    v, d = gen_arg(rnd, tmp, "mo%d" % ci, p_none=0.0, allow_empty_list=False)
                    if isinstance(v, list):          # a list in the card is per-sample, not "one value"
                        v, d = v[0], ("F", d[0][1])
                    dic["data_" + name] = v
                    card_tok += [name, "O"] + arg_tokens(B, d)
                else:
                    k = nsm + rnd.choice([0, 0, 0, 1, -1])
                    vs, toks = [], []
                    for j in range(max(k, 0)):
                        v, d = gen_arg(rnd, tmp, "mp%d_%d" % (ci, j), p_none=0.2)
                        vs.append(v)
                        toks += arg_tokens(B, d)
                    dic["data_" + name] = vs
                    card_tok += [name, "P", str(len(vs))] + toks
            if rnd.random() < 0.25:
                dic["negtive_idx"] = ["dat.*"]
            sd = stub_data("MultiData", dic, outs, extra_var=specs)
            sign = sd.get_weight_sign("data")
            try:
                ds = sd.get_data("data")
                nd = sd.get_n_data()
                got = "ok %d ; %s" % (len(ds), " ; ".join(B.encs(D.data_to_numpy(d)) + " # %d" % int(round(float(x))) for d, x in zip(ds, nd)))
            except (ValueError, KeyError, IndexError, ZeroDivisionError):
                got = "none"
            add("multi %d %d %s %s %d %s %s %d %s" % (sign, len(order), " ".join(order), " ".join(spec_tokens(specs)), ncard, " ".join(card_tok),
                                                     form, nsm, " ".join(sample_tok)), got, "multi")

        # --- data_cut with compound expressions: the real sympy parsing / lambdify against the AST model ------------------
        for ci in range(60 * min(scale, 8)):
            t, vm, e, _cols = cut_case(rnd, B)
            expr = expr_str(e)
            if not sympy_keeps(expr, e):
                skipped["cut_sympy_simplifies"] += 1
                continue
            got, _ = B.show_opt(lambda: D.data_to_numpy(D.data_cut(t, expr, var_map=vm)), False)
            add("cute %s %s %s" % (" ".join(vm_tokens(vm)), " ".join(expr_tokens(e)), B.encs(t)), got, "cute")
    finally:
        shutil.rmtree(tmp, ignore_errors=True)

    # --- LazyCall objects with identities: every history of LazyCall(...) / L[k] = v / L.copy() / data_replace ---------------
    for ci in range(60 * scale):
        xs = [{"a": np.arange(2.0)} for _ in range(3)]
        vals = [np.arange(2.0) + i for i in range(6)]
        objs, toks = [], []
        for _s in range(rnd.randint(1, 10)):
            r = rnd.random()
            if not objs or r < 0.2:
                xi = rnd.randrange(3)
                objs.append(D.LazyCall(B.test_f(3), xs[xi]))
                toks += ["new", str(xi)]
            elif r < 0.6:
                o, k, v = rnd.randrange(len(objs)), rnd.choice(["w", "c", "y"]), rnd.randrange(6)
                objs[o][k] = vals[v]
                toks += ["set", str(o), k, str(v)]
            elif r < 0.8:
                o = rnd.randrange(len(objs))
                objs.append(objs[o].copy())
                toks += ["copy", str(o)]
            else:
                o, k, v = rnd.randrange(len(objs)), rnd.choice(["w", "c", "y"]), rnd.randrange(6)
                objs.append(D.data_replace(objs[o], k, vals[v]))
                toks += ["replace", str(o), k, str(v)]
        add("heap " + " ".join(toks), show_heap(objs, xs, vals), "heap")

    # --- data_merge of ARBITRARY LazyCalls (not pieces of one sample): eval of the merged object | merge of the eager values ---
    for ci in range(50 * scale):
        fid, xs, es = merge_case(rnd, B)
        got = run_lmerge(D, B, fid, xs, es)
        add("lmerge %d %d %s" % (fid, len(xs), " ".join(B.encs(x) + " " + B.encs(e) for x, e in zip(xs, es))), got[0] + " | " + got[1], "lmerge")

    model = ctx.model.query(lines)
    dis = [(l, a, b, k) for l, a, b, k in zip(lines, impl, model, kinds) if a.rstrip() != b.rstrip()]
    by_kind = {}
    for k in kinds:
        by_kind[k] = by_kind.get(k, 0) + 1
    res.coverage["c18c_ops_by_kind"] = by_kind
    nones = {}
    for k, a in zip(kinds, impl):
        if a.startswith("none") or a.endswith("| none"):
            nones[k] = nones.get(k, 0) + 1
    res.coverage["c18c_raising_cases_by_kind"] = nones
    res.coverage["c18c_disagreements"] = len(dis)
    res.coverage["c18c_skipped"] = skipped
    res.coverage["traces_validated_against_impl"] = res.coverage.get("traces_validated_against_impl", 0) + len(lines)
    res.coverage["evaluations"] = res.coverage.get("evaluations", 0) + len(lines)
    for i in (0, len(lines) // 2, len(lines) - 1):
        res.samples.append({"op": lines[i][:300], "impl": impl[i][:300], "model": model[i][:300]})
    if dis:
        l, a, b, k = dis[0]
        res.broke("correspondence %s (model TfPwaV.DataY vs tf_pwa.data / config_loader.data)" % k,
                  {"op": l[:1500], "impl": a[:1500], "model": b[:1500], "n_disagree": len(dis), "kinds": sorted({d[3] for d in dis})})


def show_heap(objs, xs, vals):
    """per object: index of its x, canonical number of its extra dict (first object holding the same dict), items with value identities"""
    def ident(pool, v):
        for i, p in enumerate(pool):
            if p is v:
                return str(i)
        return "?"
    first = {}
    out = []
    for i, L in enumerate(objs):
        a = first.setdefault(id(L.extra), i)
        out.append("%s %d %s" % (ident(xs, L.x), a, ",".join("%s=%s" % (k, ident(vals, v)) for k, v in L.extra.items())))
    return " ; ".join(out)


def merge_case(rnd, B):
    """operands of data_merge(L0, L1, ...): related but different trees, extras with different key sets"""
    np = _np()
    n = rnd.choice([1, 2, 3])
    x = B.gen_tree(rnd, n, depth=rnd.choice([1, 2]), p_empty=0.15)
    fid = rnd.choice([1, 3, 3, 2])
    m = rnd.choice([1, 2, 2, 3])

    def perturb(t):
        r = rnd.random()
        if isinstance(t, dict) and t:
            if r < 0.2:
                drop = rnd.choice(list(t.keys()))
                return {k: v for k, v in t.items() if k is not drop}
            if r < 0.3:
                ks = list(t.keys())
                rnd.shuffle(ks)
                return {k: t[k] for k in ks}
            return {k: perturb(v) for k, v in t.items()}
        if isinstance(t, (list, tuple)) and len(t) > 0:
            if r < 0.15:
                return type(t)(list(t)[:-1])
            return type(t)([perturb(v) for v in t])
        if isinstance(t, (dict, list, tuple)):
            return t
        k = rnd.randint(1, 3)
        return np.concatenate([t] * 2)[:k] + 1
    xs, es = [], []
    pool = rnd.sample(["weight", "y", "c", "e"], rnd.randint(0, 3))
    # one template per key: the operands hold pieces of different sizes with the same inner shapes (tf.concat needs them)
    tmpl = {k: B.gen_tree(rnd, 2, depth=rnd.choice([0, 0, 1]), p_empty=0.2, top=False) for k in pool}
    for i in range(m):
        xs.append(x if i == 0 else (perturb(x) if rnd.random() < 0.7 else x))
        e = {}
        for k in pool:
            if rnd.random() < 0.75:
                ni = rnd.choice([1, 2])
                e[k] = B.tree_map(tmpl[k], lambda a: a[:ni] + i)
                if rnd.random() < 0.15:
                    e[k] = perturb(e[k])
        es.append(e)
    # an attached item that has the name of an output of f and is attached to some operands only (the case excluded by
    # lazy_merge_eq_eager_merge) is merged, on the eager side, with the OUTPUT of f of the other operands: give it the
    # structure and inner shapes of that output (tf.concat needs them); "e" of test_f(1) is [] (no array): dropped
    for k in {1: ["y", "e"], 3: ["y"]}.get(fid, []):
        if 0 < sum(k in e for e in es) < len(es):
            for x_i, e in zip(xs, es):
                if k in e:
                    if k == "e":
                        e.pop(k)
                    else:
                        e[k] = B.tree_map(B.test_f(fid)(x_i)[k], lambda a: a + 100)
    return fid, xs, es


def run_lmerge(D, B, fid, xs, es):
    def mk():
        Ls = []
        for x, e in zip(xs, es):
            L = D.LazyCall(B.test_f(fid), x)
            for k, v in e.items():
                L[k] = v
            Ls.append(L)
        return Ls
    lazy, _ = B.show_opt(lambda: D.data_to_numpy(D.data_merge(*mk()).eval()), True)
    eager, _ = B.show_opt(lambda: D.data_to_numpy(D.data_merge(*[L.eval() for L in mk()])), True)
    return lazy, eager


# ----------------------------------------------------------------------------- search (model-independent oracles)
def search(ctx, res):
    import c18 as B
    np = _np()
    from tf_pwa import data as D
    rnd = random.Random(577 + ctx.seed)
    hard = (not ctx.quick) or ctx.suspect
    mult = 10 if not ctx.quick else (3 if ctx.suspect else 1)
    st = {"cut_expr": 0, "cut_complement": 0, "cut_skipped": 0, "assign": 0, "multi_alignment": 0, "copy_independent": 0,
          "lazy_merge_vs_eager": 0, "lazy_merge_excluded_differs": 0, "lazy_merge_excluded": 0}

    def P(**kw):
        d = {"op": "y_search"}
        d.update(kw)
        return d

    # 1. data_cut(expr) keeps exactly the events for which the expression, evaluated event by event, is true;
    #    cut(expr) and cut(~expr) partition the events
    for _ in range(40 * min(mult, 6)):
        t, vm, e, cols = cut_case(rnd, B, broken=False)
        expr = expr_str(e)
        if not sympy_keeps(expr, e) or not sympy_keeps("(~%s)" % expr, ("not", e)):
            st["cut_skipped"] += 1
            continue
        n = len(next(iter(cols.values())))
        want = np.array([bool(expr_eval(e, {v: int(c[i]) for v, c in cols.items()})) for i in range(n)], dtype=bool)
        pay = P(what="cut_expr", expr=expr, tree=B.pack(t), var_map={k: list(v) if not isinstance(v, str) else v for k, v in vm.items()})
        try:
            a = D.data_to_numpy(D.data_cut(t, expr, var_map=vm))
            c = D.data_to_numpy(D.data_cut(t, "(~%s)" % expr, var_map=vm))
        except Exception as ex:  # noqa: BLE001
            res.fail("data_cut:expr:raises", "data_cut(t, %r) raises %s: %s" % (expr, type(ex).__name__, str(ex)[:80]), pay)
            continue
        st["cut_expr"] += 1
        if not B.tree_equal(a, B.tree_map(t, lambda x: x[want])):
            res.fail("data_cut:expr:rows", "data_cut(t, %r) does not keep exactly the events for which the expression holds (event-wise evaluation: %s)" % (
                expr, want.astype(int).tolist()), pay)
            continue
        st["cut_complement"] += 1
        if not B.tree_equal(c, B.tree_map(t, lambda x: x[~want])):
            res.fail("data_cut:expr:complement", "data_cut(t, ~(%s)) is not the complement of data_cut(t, %s)" % (expr, expr), pay)
            continue
        back = D.data_to_numpy(D.data_merge(a, c))
        perm = np.concatenate([np.arange(n)[want], np.arange(n)[~want]])
        if not B.tree_equal(back, B.tree_map(t, lambda x: x[perm])):
            res.fail("data_cut:expr:merge", "data_merge(cut(e), cut(~e)) is not the data with the events permuted (selected first)", pay)

    tmp = tempfile.mkdtemp(prefix="c18ys_")
    try:
        # 2. column idx of the file goes to dat_order[idx]: every card that is a permutation of the final particles
        import itertools
        for n in ([2, 3] if not hard else [1, 2, 3, 4]):
            outs = PNAMES[:n]
            for pi, card in enumerate([None] + list(itertools.permutations(outs))):
                sd = stub_data("SimpleData", {} if card is None else {"dat_order": list(card)}, outs)
                N = 2
                rows = np.array([[10 * ev + c, c, ev, 0] for ev in range(N) for c in range(n)], dtype=float)
                p = os.path.join(tmp, "as%d_%d.dat" % (n, pi))
                np.savetxt(p, rows)
                back = sd.load_p4([p])
                st["assign"] += 1
                cols = {str(k): int(np.asarray(v)[0, 1]) for k, v in back.items()}
                want = {k: i for i, k in enumerate(card if card is not None else outs)}
                pos = sorted(outs.index(k) for k in cols)
                lst = sd.cal_angle([np.full((N, 4), float(c)) for c in range(n)])
                if {k: int(v["p"][0, 0]) for k, v in lst["particle"].items()} != want:
                    res.fail("cal_angle:list-assignment", "dat_order=%s: cal_angle(list of momenta) gives entry -> particle %s, expected %s" % (
                        card, {k: int(v["p"][0, 0]) for k, v in lst["particle"].items()}, want), P(what="assign", card=card))
                if cols != want or pos != list(range(n)):
                    res.fail("load_p4:column-assignment", "dat_order=%s: file column -> particle is %s, expected %s (a permutation of the final particles; the identity without dat_order)" % (
                        card, cols, want), P(what="assign", card=card))
        # 3. MultiData: sample i gets data file i, weight file i, charge entry i; events keep their weights; get_n_data
        for ci in range(6 * min(mult, 5)):
            nsm = rnd.randint(1, 3)
            outs = PNAMES[:2]
            files, wfiles, want = [], [], []
            for si in range(nsm):
                N = rnd.choice([2, 3, 5])
                rows = np.array([rnd.randint(-99, 99) for _ in range(N * 2 * 4)], dtype=float).reshape(-1, 4)
                w = np.array([rnd.randint(1, 9) for _ in range(N + rnd.randint(0, 2))], dtype=float)
                p, pw = os.path.join(tmp, "ms%d_%d.dat" % (ci, si)), os.path.join(tmp, "mw%d_%d.npy" % (ci, si))
                np.savetxt(p, rows)
                np.save(pw, w)
                files.append([p])
                wfiles.append(pw if rnd.random() < 0.5 else [pw])
                want.append((rows.reshape(N, 2, 4), w[:N], float(si + 2)))
            dic = {"dat_order": ["C", "B"], "data": files, "data_weight": wfiles, "data_charge": [c for _, _, c in want]}
            sd = stub_data("MultiData", dic, outs)
            pay = P(what="multi_alignment", nsamples=nsm)
            try:
                ds = sd.get_data("data")
                nd = sd.get_n_data()
            except Exception as ex:  # noqa: BLE001
                res.fail("MultiData.get_data:raises", "MultiData.get_data raises %s: %s" % (type(ex).__name__, str(ex)[:80]), pay)
                continue
            st["multi_alignment"] += 1
            ok = len(ds) == nsm
            for d, (r3, w, c), x in zip(ds, want, nd):
                ok = ok and np.array_equal(d["particle"]["C"]["p"], r3[:, 0]) and np.array_equal(d["particle"]["B"]["p"], r3[:, 1]) \
                    and np.array_equal(d["weight"], w) and np.array_equal(d["charge_conjugation"], np.full(len(w), c)) and float(x) == float(w.sum())
            if not ok:
                res.fail("MultiData.get_data:per-sample", "MultiData.get_data: sample i does not hold data file i with weight file i / charge entry i (or get_n_data is not the sum of its weights)", pay)
    finally:
        shutil.rmtree(tmp, ignore_errors=True)

    # 4. copy / data_replace give an independent object: no later L[k] = v on one is visible through the other
    #    (oracle: the same history replayed on two plain dicts; values compared by identity)
    def same(a, b):
        return list(a) == list(b) and all(a[k] is b[k] for k in a)

    for _ in range(30 * mult):
        x = {"a": np.arange(3.0)}
        L = D.LazyCall(B.test_f(3), x)
        vals = [np.arange(3.0) + i for i in range(5)]
        for k in rnd.sample(["w", "c", "y"], rnd.randint(0, 3)):
            L[k] = vals[rnd.randrange(5)]
        eL = dict(L.extra)
        eC = dict(eL)
        if rnd.random() < 0.5:
            Cp = L.copy()
        else:
            Cp = D.data_replace(L, "r", vals[0])
            eC["r"] = vals[0]
        for _s in range(rnd.randint(1, 4)):
            k, v = rnd.choice(["w", "c", "y", "new"]), vals[rnd.randrange(5)]
            if rnd.random() < 0.5:
                Cp[k] = v
                eC[k] = v
            else:
                L[k] = v
                eL[k] = v
        st["copy_independent"] += 1
        if Cp.x is not L.x or not same(L.extra, eL) or not same(Cp.extra, eC):
            res.fail("LazyCall.copy:aliasing", "after L2 = L.copy() / data_replace(L, ...) an assignment L2[k] = v (or L[k] = v) is visible through the other object, or x is not shared: L items %s, copy items %s" % (
                sorted(L.extra), sorted(Cp.extra)), P(what="copy_independent"))

    # 5. data_merge of arbitrary LazyCalls, then eval == data_merge of the eager values, when every attached item that has the
    #    name of an output of the function is attached to all operands or to none (hypothesis of lazy_merge_eq_eager_merge)
    out_keys = {1: {"y", "e"}, 3: {"y"}}
    for _ in range(60 * mult):
        fid, xs, es = merge_case(rnd, B)
        if fid == 2:
            continue
        lazy, eager = run_lmerge(D, B, fid, xs, es)
        coll = [k for k in out_keys[fid] if 0 < sum(k in e for e in es) < len(es)]
        if coll:
            st["lazy_merge_excluded"] += 1
            st["lazy_merge_excluded_differs"] += int(lazy != eager)
            continue
        st["lazy_merge_vs_eager"] += 1
        if lazy != eager:
            res.fail("LazyCall.merge:arbitrary-operands", "data_merge(L0, L1, ...).eval() differs from data_merge(L0.eval(), L1.eval(), ...) (f = test_f(%d), %d operands, extra keys %s)" % (
                fid, len(xs), [sorted(e) for e in es]), P(what="lazy_merge", fid=fid, xs=[B.pack(x) for x in xs], es=[B.pack(e) for e in es]))
    res.coverage.setdefault("search", {})["c18c"] = st


class _Mod:
    search = staticmethod(search)


def replay(ctx, payload):
    return C.rerun_search_replay(_Mod, ctx, payload)
