"""C06 — the negative log-likelihood equals its defining formula."""
import contextlib
import io
import math

import numpy as np

import common as C

PID = "C06"
DRIVER = [("C06", "TfPwaV.Gen.NLLF", "NLLF.handle")]
LEAN_TARGETS = ["TfPwaV.Props.C06", "TfPwaV.Props.C06b", "TfPwaV.Gen.NLLF"]
PROP_MODULES = ["TfPwaV.Props.C06", "TfPwaV.Props.C06b"]
ALL_MODULES = ["TfPwaV.Proofs.NLL", "TfPwaV.Proofs.NLLRes", "TfPwaV.Props.C06", "TfPwaV.Props.C06b", "TfPwaV.Proofs.ScalarR"]
ASSUMPTIONS = [
    "the density / efficiency / background values f(x_i), f(y_j) are inputs of the model (lists of numbers read from the implementation's own amplitude call); the amplitude itself is C01-C05's business",
    "resolution_size = r > 1 is modelled for Model/BaseModel (model.py) with batch sizes that are multiples of r (the code asserts that on the Hessian path and fails in tf.reshape on the gradient path otherwise); the resolution_size option of Model_cfit (cfit.py) is not modelled",
    "MixLogLikehoodFCN is driven with CalAngleData inputs (the dict subclass ConfigLoader's cal_angle returns; it is the only data class of the tree its constructor accepts) and with resolution sizes dividing the default batch 65000 of its inner FCNs; the partial amplitudes A_c of the constr_frac models (Amp.temp_used_res) are inputs read from the implementation (their definition is C03's business); legacy inject_mc (Model_new) is modelled as it is: the data sample's own weights are not read",
    "Float instance vs TensorFlow: agreement to 1e-10 relative to the forward-error scale sum|w_i L_i| + |sum w|(|ln I| + kappa) (kappa = cancellation factors of sum w, sum v, sum v g); cases with kappa > 1e4 are counted as ill-conditioned and skipped",
    "theorems hold over the reals; the exact formula is proved on the region f_i > eps = 1e-6 (clip_log = log there), the region below eps is described by clipLog's own theorems (C2 continuation), not by the defining formula",
    "cached models (cached_int, cached_amp, cfit_cached) are compared using the plain amplitude values amp(data) as inputs: equality of the cached evaluation strategies with amp(data) is C05's claim and is only validated here to 1e-10",
]

EPS = 1e-6
TOY_KINDS = ["default", "extended", "cfit", "cfit_extended", "simple", "simple_clip", "simple_cfit", "simple_chi2"]
KIND_CODE = {"default": 0, "extended": 0, "cfit": 1, "cfit_extended": 2, "simple": 3, "simple_clip": 4,
             "simple_cfit": 5, "simple_chi2": 6, "cached_int": 7, "cached_amp": 8, "cfit_cached": 9}
CFIT_LIKE = ("cfit", "cfit_extended", "simple_cfit", "cfit_cached")
PATHS = ("call", "nll_grad", "nll_grad_hessian")
KEY_EFF = "simple_cfit:data-efficiency-read-from-err_value"
KEY_RAGGED = "cfit_extended:nll_grad:batch-not-dividing-sample"
KEY_CACHED = "cfit_cached:nll_grad:mc-efficiency-missing-in-normalisation"


_T0 = [None]


def tlog(msg):
    import time
    if _T0[0] is None:
        _T0[0] = time.time()
    C.log("[C06 +%.0fs] %s" % (time.time() - _T0[0], msg))


@contextlib.contextmanager
def quiet():
    with contextlib.redirect_stdout(io.StringIO()):
        yield


# --------------------------------------------------------------------------
# synthetic amplitude with the AbsPDF interface
# --------------------------------------------------------------------------

_TOY = {}


def toy_class():
    if "cls" in _TOY:
        return _TOY["cls"]
    from tf_pwa.amp.amp import AbsPDF
    from tf_pwa.variable import Variable

    class ToyPDF(AbsPDF):
        """f(x; a, b) = f0(x) * a^2 * (1 + b x)^2 : two trainable parameters, common scale a."""

        def init_params(self, name=""):
            self.a = Variable("toy_a", value=1.0)
            self.b = Variable("toy_b", value=0.0)

        def pdf(self, data):
            a = self.a()
            b = self.b()
            return data["f0"] * (a * a) * (1.0 + b * data["x"]) ** 2

    _TOY["cls"] = ToyPDF
    return ToyPDF


def new_toy_amp(params):
    from tf_pwa.variable import VarsManager
    vm = VarsManager()
    amp = toy_class()(vm=vm)
    amp.set_params(dict(params))
    return amp


def make_model(kind, amp, wbkg, fb):
    from tf_pwa.model.model import get_nll_model
    import tf_pwa.model.cfit  # noqa: F401  (registers the models)
    import tf_pwa.model.custom  # noqa: F401
    import tf_pwa.model.opt_int  # noqa: F401
    if kind in ("default", "extended"):
        return get_nll_model("default")(amp, wbkg, extended=(kind == "extended"))
    if kind in ("cfit", "cfit_extended"):
        return get_nll_model(kind)(amp, fb)
    if kind == "simple_cfit":
        return get_nll_model(kind)(amp, w_bkg=wbkg, bg_frac=fb)
    return get_nll_model(kind)(amp, w_bkg=wbkg)


def observe_eff_key():
    """Which key of the event dictionary does SimpleCFitModel.eval_nll_part read as the efficiency?"""
    if "effkey" in _TOY:
        return _TOY["effkey"]
    import tensorflow as tf
    amp = new_toy_amp({"toy_a": 1.0, "toy_b": 0.0})
    m = make_model("simple_cfit", amp, 0.0, 0.0)
    m.bg_frac = 0.0
    probe = {"x": tf.constant([0.0], dtype="float64"), "f0": tf.constant([1.0], dtype="float64"),
             "err_value": tf.constant([2.0], dtype="float64"), "eff_value": tf.constant([3.0], dtype="float64"),
             "bg_value": tf.constant([1.0], dtype="float64")}
    v = float(m.eval_nll_part(probe, tf.constant([1.0], dtype="float64"), [1.0, 1.0]))
    e = math.exp(-v)
    key = "err_value" if abs(e - 2.0) < 1e-9 else ("eff_value" if abs(e - 3.0) < 1e-9 else None)
    _TOY["effkey"] = key
    return key


# --------------------------------------------------------------------------
# case generation (everything derives from the seeded rng)
# --------------------------------------------------------------------------

def _weights(rng, n, mode, allow_zero=False):
    if mode == "none":
        return None
    w = rng.uniform(0.2, 2.0, n)
    if mode == "signed":
        sg = np.where(rng.uniform(size=n) < 0.3, -1.0, 1.0)
        w = w * sg
        if abs(w.sum()) < 0.2 * np.abs(w).sum():
            w = np.abs(w) * np.where(np.arange(n) % 5 == 4, -1.0, 1.0)
        if abs(w.sum()) < 0.2 * np.abs(w).sum():
            w = np.abs(w)
    if allow_zero and n > 2:
        w[int(rng.integers(n))] = 0.0
    return w


def _sample(rng, n, wmode, fmode, extras, allow_zero=False):
    d = {"x": rng.uniform(-1, 1, n), "f0": rng.uniform(0.05, 3.0, n)}
    if fmode == "small":  # small but > eps after scaling: exercises ln of small numbers
        d["f0"] = rng.uniform(2e-5, 1e-3, n)
    if fmode == "clip" and n > 0:  # some events at / below eps (and zero / negative densities)
        k = max(1, n // 4)
        idx = rng.choice(n, size=k, replace=False)
        d["f0"][idx] = rng.choice([0.0, 1e-9, 3e-7, 9.9e-7, 1e-6, 1.01e-6, 2e-6, -1e-7], size=k)
    w = _weights(rng, n, wmode, allow_zero)
    if w is not None:
        d["weight"] = w
    if extras:
        d["eff_value"] = rng.uniform(0.4, 1.0, n)
        d["bg_value"] = rng.uniform(0.5, 1.5, n)
    return d


def batch_candidates(n):
    return sorted({1, 3, max(1, n - 1), n, 2 * n, n // 3 + 1})


def n_batches(n, nm, b):
    return -(-n // b) + -(-nm // b)


def pick_batch(rng, n, nm, cap):
    """batch in {1, 3, n-1, n, 2n, n//3+1}; eager TF costs ~50 ms per batch, so the number of batches is capped"""
    c = [b for b in batch_candidates(n) if n_batches(n, nm, b) <= cap]
    if not c:
        c = [max(n, nm), max(n, nm) // 2 + 1]
    return int(rng.choice(c))


def gen_case(rng, kind, sizes, allow_clip=True, cap=12):
    nd = int(rng.choice(sizes))
    nm = int(rng.choice(sizes))
    cf = kind in CFIT_LIKE
    has_bg = (not cf or kind == "simple_cfit") and rng.uniform() < 0.6
    nb = int(rng.choice([1, 2, 5, 17])) if has_bg else 0
    n = nd + nb
    wmode = str(rng.choice(["none", "pos", "signed"]))
    clip_ok = allow_clip and kind in ("default", "extended", "simple_clip")
    fmode = str(rng.choice(["normal", "normal", "small", "clip"] if clip_ok else ["normal", "normal", "small"]))
    extras = cf or rng.uniform() < 0.3
    allow_zero = kind in ("default", "extended") and rng.uniform() < 0.2
    data = _sample(rng, nd, wmode, fmode, extras, allow_zero)
    mcw = str(rng.choice(["none", "pos", "pos", "signed"]))
    mc = _sample(rng, nm, mcw, "normal", extras)
    if mcw == "signed":
        # keep the normalisation integral positive and well conditioned
        w = mc["weight"]
        neg = w < 0
        w[neg] *= 0.2
        if w.sum() < 0.3 * np.abs(w).sum():
            w = np.abs(w)
        mc["weight"] = w
    bg = None
    if nb:
        bg = _sample(rng, nb, "none", "normal" if fmode != "clip" else "clip", extras)
        if rng.uniform() < 0.5:
            bg["weight"] = -rng.uniform(0.05, 0.6, nb)
    wbkg = float(rng.choice([0.1, 0.25, 0.7, 1.0]))
    # keep the total weight away from 0 (alpha = sum w / sum w^2 is 0/0 there: degenerate, excluded by hypothesis)
    wd = data.get("weight", np.ones(nd))
    for _ in range(6):
        wb = np.zeros(0) if bg is None else bg.get("weight", -wbkg * np.ones(nb))
        tot, ab = wd.sum() + wb.sum(), np.abs(wd).sum() + np.abs(wb).sum()
        if abs(tot) >= 0.15 * ab:
            break
        wbkg *= 0.3
        if bg is not None and "weight" in bg:
            bg["weight"] = bg["weight"] * 0.3
    batch = pick_batch(rng, n, nm, cap)
    a = float(rng.uniform(0.6, 1.8))
    b = float(rng.uniform(-0.8, 0.8))
    gauss = {}
    if rng.uniform() < 0.3:
        gauss["toy_a"] = [float(rng.uniform(0.5, 1.5)), float(rng.uniform(0.05, 0.5))]
        if rng.uniform() < 0.5:
            gauss["toy_b"] = [float(rng.uniform(-0.5, 0.5)), float(rng.uniform(0.05, 0.5))]
    if "weight" in mc:
        # the normalisation integrals (sum v g, sum v eff g, sum v bg) must stay positive and well conditioned
        gm = mc["f0"] * a * a * (1.0 + b * mc["x"]) ** 2
        for col in (gm, gm * mc.get("eff_value", 1.0), mc.get("bg_value", np.ones(nm))):
            if (mc["weight"] * col).sum() < 0.2 * np.abs(mc["weight"] * col).sum():
                mc["weight"] = np.abs(mc["weight"])
    return {
        "kind": kind, "wbkg": wbkg, "fb": float(rng.choice([0.05, 0.2, 0.6])),
        "batch": batch, "params": {"toy_a": a, "toy_b": b}, "gauss": gauss,
        "data": _tolist(data), "mc": _tolist(mc), "bg": _tolist(bg),
    }


def _tolist(d):
    if d is None:
        return None
    return {k: [float(x) for x in v] for k, v in d.items()}


def _toarr(d):
    if d is None:
        return None
    return {k: np.array(v, dtype="float64") for k, v in d.items()}


# --------------------------------------------------------------------------
# running the implementation
# --------------------------------------------------------------------------

def _try(f):
    try:
        return float(f())
    except Exception as e:  # recorded, classified by the caller
        return "ERR %s: %s" % (type(e).__name__, str(e).replace("\n", " ")[:160])


def eval_fcn(fcn, params=None):
    params = {} if params is None else params
    with quiet():
        return {
            "call": _try(lambda: fcn(params)),
            "nll_grad": _try(lambda: fcn.nll_grad(params)[0]),
            "nll_grad_hessian": _try(lambda: fcn.nll_grad_hessian(params)[0]),
        }


def build_toy_fcn(spec, amp=None, batch=None, params=None):
    from tf_pwa.model.model import FCN
    p = dict(spec["params"]) if params is None else params
    if amp is None:
        amp = new_toy_amp(p)
    else:
        amp.set_params(p)
    model = make_model(spec["kind"], amp, spec["wbkg"], spec["fb"])
    gc = {k: tuple(v) for k, v in spec["gauss"].items()}
    with quiet():
        fcn = FCN(model, _toarr(spec["data"]), _toarr(spec["mc"]), bg=_toarr(spec["bg"]),
                  batch=spec["batch"] if batch is None else batch, gauss_constr=gc)
    return amp, fcn


def observe_inputs(spec, amp, fcn, effkey):
    """The lists of numbers the model takes: raw weights and the implementation's own density values."""
    data, mc, bg = _toarr(spec["data"]), _toarr(spec["mc"]), _toarr(spec["bg"])
    nd = len(data["x"])
    w = data.get("weight", np.ones(nd))
    if bg is None:
        bgmode, nb, bgx = 0, 0, []
    elif "weight" in bg:
        bgmode, nb, bgx = 2, len(bg["x"]), list(bg["weight"])
    else:
        bgmode, nb, bgx = 1, len(bg["x"]), [spec["wbkg"]]
    merged = fcn.data
    f = np.array(amp(merged))
    g = np.array(amp(fcn.mcdata))
    n, nm = len(f), len(g)

    def col(d, key, k):
        v = d.get(key, None) if key is not None else None
        return np.ones(k) if v is None else np.array(v, dtype="float64")

    kind = spec["kind"]
    if kind == "simple_cfit":
        s = f * col(merged, effkey, n)
    else:
        s = f * col(merged, "eff_value", n)
    ms = g * col(fcn.mcdata, "eff_value", nm)
    b = col(merged, "bg_value", n)
    mb = col(fcn.mcdata, "bg_value", nm)
    v = mc.get("weight", None)
    gv = []
    vals = fcn.get_params()
    for k, (mean, sigma) in spec["gauss"].items():
        gv += [float(vals[k]), float(mean), float(sigma)]
    return {"kind": kind, "ext": kind == "extended", "batch": int(fcn.batch), "fb": spec["fb"],
            "w": list(map(float, w)), "bgmode": bgmode, "nb": nb, "bgx": list(map(float, bgx)),
            "f": f, "s": s, "b": b, "v": None if v is None else np.array(v), "g": g, "ms": ms, "mb": mb, "cs": gv,
            "eff_true": col(merged, "eff_value", n)}


def lean_line(o):
    kind = o["kind"]
    cf = kind in CFIT_LIKE
    fl = o["s"] if cf else o["f"]
    gl = o["ms"] if cf else o["g"]

    def L(xs):
        xs = list(xs)
        return "%d %s" % (len(xs), " ".join(C.f2h(x) for x in xs)) if xs else "0"

    v = o["v"]
    return "C06 nll %d %d %d %d %d %d %s %s %s %s %s %s %s %s %s %s" % (
        KIND_CODE[kind], 1 if o["ext"] else 0, o["batch"], o["bgmode"], o["nb"], 0 if v is None else 1,
        L([o["fb"]]), L(o["w"]), L(o["bgx"]), L(fl), L(o["b"]), L([] if v is None else v), L(gl), L(o["mb"]), L(o["cs"]),
        L(o.get("ga", gl) if kind == "cfit_cached" else []))


# --------------------------------------------------------------------------
# independent numpy evaluation of the DEFINING FORMULA (search oracle) + forward-error scale
# --------------------------------------------------------------------------

def clip_log_np(x):
    x = np.asarray(x, dtype="float64")
    d = (x - EPS) / EPS
    with np.errstate(all="ignore"):
        return np.where(x > EPS, np.log(np.where(x > EPS, x, 1.0)), math.log(EPS) + d - d * d / 2)


def formula(o, use_true_eff=True):
    """Property statement evaluated with numpy. Returns (value, scale, kappa, regular) ; regular = all densities > eps."""
    kind = o["kind"]
    w = np.array(o["w"], dtype="float64")
    if o["bgmode"] == 1:
        w = np.concatenate([w, -o["bgx"][0] * np.ones(o["nb"])])
    elif o["bgmode"] == 2:
        w = np.concatenate([w, np.array(o["bgx"])])
    g = o["g"]
    v = np.ones(len(g)) if o["v"] is None else o["v"]
    alpha = w.sum() / (w * w).sum()
    sw = w.sum()
    kw = np.abs(w).sum() / max(abs(sw), 1e-300)
    kv = np.abs(v).sum() / max(abs(v.sum()), 1e-300)
    gauss = 0.0
    cs = o["cs"]
    for i in range(0, len(cs), 3):
        gauss += (cs[i] - cs[i + 1]) ** 2 / (2 * cs[i + 2] ** 2)
    with np.errstate(all="ignore"):
        if kind in CFIT_LIKE:
            eff = o["eff_true"] if (use_true_eff and kind == "simple_cfit") else None
            s = o["f"] * eff if eff is not None else o["s"]
            isig = (v * o["ms"]).sum() / v.sum()
            ibg = (v * o["mb"]).sum() / v.sum()
            ki = np.abs(v * o["ms"]).sum() / max(abs((v * o["ms"]).sum()), 1e-300) + np.abs(v * o["mb"]).sum() / max(abs((v * o["mb"]).sum()), 1e-300)
            fb = o["fb"]
            p = (1 - fb) * s / isig + fb * o["b"] / ibg
            lp = np.log(p)
            val = -alpha * (w * lp).sum()
            scale = abs(alpha) * (np.abs(w) * (np.abs(lp) + ki * kv)).sum()
            regular = bool(np.all(p > EPS)) and isig > 0 and ibg > 0
            if kind == "cfit_extended":
                nexp = isig / (1 - fb)
                lne = float(np.log(nexp))
                val = val - alpha * sw * lne + nexp
                scale += abs(alpha * sw) * (abs(lne) + ki * kv) + abs(nexp) * ki * kv
            kappa = kw * ki * kv
        elif kind == "simple_chi2":
            f = o["f"]
            val = 0.5 * ((alpha * w - f) ** 2).sum()
            scale = 0.5 * ((np.abs(alpha * w) * kw + np.abs(f)) ** 2).sum()
            regular, kappa = True, kw
        else:
            f = o["f"]
            integ = (v * g).sum() / v.sum()
            ki = np.abs(v * g).sum() / max(abs((v * g).sum()), 1e-300)
            lf = np.log(f)
            regular = bool(np.all(f > EPS)) and integ > EPS
            if kind == "extended":
                val = -alpha * ((w * lf).sum() - sw * integ)
                scale = abs(alpha) * ((np.abs(w) * np.abs(lf)).sum() + abs(sw) * abs(integ) * ki * kv)
            else:
                val = -alpha * ((w * lf).sum() - sw * math.log(integ)) if integ > 0 else float("nan")
                scale = abs(alpha) * ((np.abs(w) * np.abs(lf)).sum() + abs(sw) * (abs(math.log(integ)) + ki * kv)) if integ > 0 else float("nan")
            kappa = kw * ki * kv
    scale = scale * (1 + kw) + abs(gauss) + 1e-300
    return float(val + gauss), float(scale), float(kappa), regular


def model_scale(o):
    """forward-error scale also valid in the clip region (uses |clip_log|)"""
    kind = o["kind"]
    val, scale, kappa, regular = formula(o, use_true_eff=False)
    if regular and np.isfinite(scale):
        return scale, kappa
    w = np.array(o["w"], dtype="float64")
    if o["bgmode"] == 1:
        w = np.concatenate([w, -o["bgx"][0] * np.ones(o["nb"])])
    elif o["bgmode"] == 2:
        w = np.concatenate([w, np.array(o["bgx"])])
    g = o["g"]
    v = np.ones(len(g)) if o["v"] is None else o["v"]
    alpha = w.sum() / (w * w).sum()
    kw = np.abs(w).sum() / max(abs(w.sum()), 1e-300)
    kv = np.abs(v).sum() / max(abs(v.sum()), 1e-300)
    ki = np.abs(v * g).sum() / max(abs((v * g).sum()), 1e-300)
    integ = (v * g).sum() / v.sum()
    li = abs(integ) if kind == "extended" else abs(float(clip_log_np(integ)))
    # below eps clip_log has slope up to 2/eps: an input rounding error u*f is amplified to 2 u f/eps <= 2u there
    scale = abs(alpha) * ((np.abs(w) * (np.abs(clip_log_np(o["f"])) + 2)).sum() + abs(w.sum()) * (li + ki * kv))
    return float(scale * (1 + kw) + 1e-300), float(kw * ki * kv)


# --------------------------------------------------------------------------
# correspondence
# --------------------------------------------------------------------------

TOL = 1e-10


def _is_ragged_known(o, path, val):
    n = len(o["f"])
    return (o["kind"] == "cfit_extended" and path == "nll_grad" and isinstance(val, str)
            and n > o["batch"] and n % o["batch"] != 0 and ("InvalidArgument" in val or "ValueError" in val))


def compare(entries, out, res, what):
    """entries: list of (label, obs, impl dict) ; out: model answer lines."""
    nbad, nskip, nragged, worst, first = 0, 0, 0, 0.0, None
    for (label, o, impl), line in zip(entries, out):
        if line == "bad-op":
            res.broke("model driver bad-op (%s)" % what, label)
            return 0, 0, 0, 0.0
        mv = [C.h2f(x) for x in line.split()]
        scale, kappa = model_scale(o)
        if not np.isfinite(scale) or kappa > 1e4:
            nskip += 1
            continue
        for path, m in zip(PATHS, mv):
            iv = impl[path]
            if _is_ragged_known(o, path, iv):
                nragged += 1
                continue
            if isinstance(iv, str):
                err = float("inf")
            elif not (np.isfinite(iv) and np.isfinite(m)):
                # both sides non-finite in the same way (log of a non-positive density) is agreement
                err = 0.0 if (str(iv) == str(m)) else float("inf")
            else:
                err = abs(iv - m) / scale
                worst = max(worst, err)
            if not (err < TOL):
                nbad += 1
                if first is None:
                    first = {"case": label, "path": path, "impl": iv, "model": m, "rel_err": err, "scale": scale}
    if nbad:
        res.broke("correspondence NLLF vs tf_pwa.model (%s)" % what, {"n": nbad, "first": first})
    return nbad, nskip, nragged, worst


def toy_cases(ctx, n, salt):
    rng = np.random.Generator(np.random.Philox(ctx.seed * 1000 + salt))
    sizes_small = [1, 2, 3, 4, 5, 7, 8, 13, 21]
    sizes_mid = [30, 50, 77, 120]
    sizes_big = [200, 400]
    cases = []
    for i in range(n):
        kind = TOY_KINDS[i % len(TOY_KINDS)]
        r = (i // len(TOY_KINDS)) % 10
        sizes = sizes_small if r < 6 else (sizes_mid if r < 9 else sizes_big)
        cases.append(gen_case(rng, kind, sizes, cap=40 if i % 25 == 7 else 10))
    return cases


def correspond(ctx, res):
    tlog("correspondence starts")
    effkey = observe_eff_key()
    res.notes.append("SimpleCFitModel.eval_nll_part reads the data efficiency from key %r" % effkey)
    if effkey is None:
        res.broke("SimpleCFitModel.eval_nll_part: efficiency key not recognised", None)
        effkey = "eff_value"
    ntoy = 240 if ctx.quick else 2000
    cases = toy_cases(ctx, ntoy, 6)
    entries, lines = [], []
    kinds_seen, nclip, nbatches = {}, 0, {}
    for i, spec in enumerate(cases):
        amp, fcn = build_toy_fcn(spec)
        o = observe_inputs(spec, amp, fcn, effkey)
        impl = eval_fcn(fcn)
        entries.append(("toy#%d %s n=%d nmc=%d batch=%d" % (i, spec["kind"], len(o["f"]), len(o["g"]), o["batch"]), o, impl))
        lines.append(lean_line(o))
        kinds_seen[spec["kind"]] = kinds_seen.get(spec["kind"], 0) + 1
        n = len(o["f"])
        bclass = "1" if o["batch"] == 1 else "3" if o["batch"] == 3 else "n-1" if o["batch"] == n - 1 else "n" if o["batch"] == n else "2n" if o["batch"] == 2 * n else "other"
        nbatches[bclass] = nbatches.get(bclass, 0) + 1
        if np.any(o["f"] <= EPS):
            nclip += 1
    tlog("%d toy cases evaluated" % len(entries))
    # simultaneous fits: CombineFCN over 1..3 toy parts sharing one amplitude
    comb_entries = []
    rng = np.random.Generator(np.random.Philox(ctx.seed * 1000 + 66))
    ncomb = 32 if ctx.quick else 300
    for i in range(ncomb):
        comb_entries.append(run_combine(rng, effkey, [1, 2, 3, 5, 8, 13, 40]))
    for ce in comb_entries:
        for o in ce["obs"]:
            lines.append(lean_line(o))
    tlog("%d CombineFCN cases evaluated" % len(comb_entries))
    # real AmplitudeModel through ConfigLoader
    real_entries = real_cases(ctx, res, effkey)
    _TOY["real_entries"] = real_entries
    tlog("%d real-amplitude cases evaluated" % len(real_entries))
    for (label, o, impl) in real_entries:
        lines.append(lean_line(o))
    out = ctx.model.query(lines)
    tlog("model answered %d lines" % len(out))
    k0 = len(entries)
    nbad, nskip, nragged, worst = compare(entries, out[:k0], res, "toy AbsPDF")
    # combine: second query with the part values of the model
    k1 = k0 + sum(len(ce["obs"]) for ce in comb_entries)
    part_lines = out[k0:k1]
    lines2, pos = [], 0
    for ce in comb_entries:
        vals = [[C.h2f(x) for x in part_lines[pos + j].split()] for j in range(len(ce["obs"]))]
        pos += len(ce["obs"])
        ce["model_parts"] = vals
        for p in range(3):
            xs = [v[p] for v in vals]
            lines2.append("C06 combine %d %s %s" % (len(xs), " ".join(C.f2h(x) for x in xs),
                                                  ("%d %s" % (len(ce["cs"]), " ".join(C.f2h(x) for x in ce["cs"]))) if ce["cs"] else "0"))
    out2 = ctx.model.query(lines2)
    cbad, cworst, cfirst = 0, 0.0, None
    for i, ce in enumerate(comb_entries):
        scale = sum(model_scale(o)[0] for o in ce["obs"]) + 1e-300
        if any(model_scale(o)[1] > 1e4 for o in ce["obs"]):
            nskip += 1
            continue
        for p, path in enumerate(PATHS):
            m = C.h2f(out2[3 * i + p])
            iv = ce["impl"][path]
            if isinstance(iv, str) and any(_is_ragged_known(o, path, iv) for o in ce["obs"]):
                nragged += 1
                continue
            if isinstance(iv, str):
                err = float("inf")
            elif not (np.isfinite(iv) and np.isfinite(m)):
                err = 0.0 if str(iv) == str(m) else float("inf")  # both non-finite in the same way is agreement
            else:
                err = abs(iv - m) / scale
            if np.isfinite(err):
                cworst = max(cworst, err)
            if not (err < TOL):
                cbad += 1
                cfirst = cfirst or {"case": "combine#%d kinds=%s" % (i, [o["kind"] for o in ce["obs"]]), "path": path, "impl": iv, "model": m, "rel_err": err}
    if cbad:
        res.broke("correspondence NLLF.combineFcn vs CombineFCN", {"n": cbad, "first": cfirst})
    rbad, rskip, rragged, rworst = compare(real_entries, out[k1:], res, "real AmplitudeModel via ConfigLoader")
    res.coverage.update({
        "traces_validated_against_impl": 3 * (len(entries) + len(comb_entries) + len(real_entries)) - 3 * (nskip + rskip) - nragged - rragged,
        "evaluations": 3 * (len(entries) + len(comb_entries) + len(real_entries)),
        "distinct_nontrivial": int(sum(1 for (_, o, _) in entries if len(o["f"]) > 1 and len(o["g"]) > 1)),
        "rule": "seeded toy AbsPDF cases (8 model classes x sizes 1..400 x weights none/positive/signed (+zero weights) x bg none/default(-w_bkg)/own weights x mc weights none/positive/signed x batch in {1,3,n-1,n,2n} x density regime normal/small/clip x Gaussian constraints) + CombineFCN of 1..3 parts + real AmplitudeModel (ConfigLoader dict config) for every selectable model name; each case compares FCN.__call__, nll_grad[0], nll_grad_hessian[0] with the Float instance; non-trivial = more than one event in data and MC",
        "toy_cases_by_model": kinds_seen,
        "batch_classes": nbatches,
        "cases_with_density_at_or_below_eps": nclip,
        "combine_cases": len(comb_entries),
        "real_model_cases": [e[0] for e in real_entries],
        "ill_conditioned_skipped": nskip + rskip,
        "known_ragged_batch_crashes_not_compared": nragged + rragged,
        "worst_rel_err": max(worst, cworst, rworst),
        "disagreements": nbad + cbad + rbad,
        "simple_cfit_efficiency_key_observed": effkey,
    })
    # part b: resolution_size > 1, clip region, MixLogLikehoodFCN, constr_frac, inject_mc, gauss_constr via ConfigLoader
    import c06_ext
    st = c06_ext.correspond(ctx, res)
    res.coverage["traces_validated_against_impl"] += st["compared"]
    res.coverage["evaluations"] += st["compared"] + 3 * st["skipped"]
    res.coverage["disagreements"] += st["disagreements"]
    res.coverage["worst_rel_err"] = max(res.coverage["worst_rel_err"], st["worst"])
    for k in (0, 1, len(entries) // 2):
        if k < len(entries):
            res.samples.append({"case": entries[k][0], "impl": entries[k][2], "model": [C.h2f(x) for x in out[k].split()]})
    for e, line in zip(real_entries[:3], out[k1:]):
        res.samples.append({"case": e[0], "impl": e[2], "model": [C.h2f(x) for x in line.split()]})


def run_combine(rng, effkey, sizes):
    from tf_pwa.model.model import CombineFCN
    k = int(rng.choice([1, 2, 2, 3]))
    params = {"toy_a": float(rng.uniform(0.6, 1.8)), "toy_b": float(rng.uniform(-0.8, 0.8))}
    amp = new_toy_amp(params)
    gauss = {"toy_b": [float(rng.uniform(-0.5, 0.5)), float(rng.uniform(0.05, 0.5))]} if rng.uniform() < 0.5 else {}
    # ConfigLoader.get_fcn / MultiConfig.get_fcn hand the SAME gauss_constr dictionary to every sub-FCN and to the
    # CombineFCN: the combined value must count the term once
    shared = bool(gauss) and rng.uniform() < 0.7
    specs, fcns, obs = [], [], []
    for j in range(k):
        kind = str(rng.choice(TOY_KINDS))
        spec = gen_case(rng, kind, sizes, allow_clip=False)
        spec["params"] = params
        spec["gauss"] = {k_: list(v) for k_, v in gauss.items()} if shared else {}
        _, fcn = build_toy_fcn(spec, amp=amp)
        specs.append(spec)
        fcns.append(fcn)
        obs.append(observe_inputs(dict(spec, gauss={}), amp, fcn, effkey))
    with quiet():
        comb = CombineFCN(fcns=fcns, gauss_constr={k_: tuple(v) for k_, v in gauss.items()})
    impl = eval_fcn(comb)
    cs = []
    for k_, (mean, sigma) in gauss.items():
        cs += [params[k_], mean, sigma]
    return {"specs": specs, "gauss": gauss, "obs": obs, "impl": impl, "cs": cs, "fcns": fcns, "shared": shared, "comb": comb}


# --------------------------------------------------------------------------
# real AmplitudeModel through ConfigLoader
# --------------------------------------------------------------------------

REAL_CONFIGS = {
    "default": {},
    "extended": {"extended": True},
    "cfit": {"model": "cfit", "bg_frac": 0.2},
    "cfit_extended": {"model": "cfit", "bg_frac": 0.2, "extended": True},
    "cfit_cached": {"model": "cfit", "bg_frac": 0.2, "cached_amp": True},
    "cached_int": {"cached_int": True},
    "cached_amp": {"cached_amp": True},
    "simple": {"model": "simple"},
    "simple_clip": {"model": "simple_clip"},
    "simple_cfit": {"model": "simple_cfit", "bg_frac": 0.2},
    "simple_chi2": {"model": "simple_chi2", "extended": True},
}
REAL_CLASS = {"default": "Model", "extended": "Model", "cfit": "Model_cfit", "cfit_extended": "ModelCfitExtended",
              "cfit_cached": "Model_cfit_cached", "cached_int": "ModelCachedInt", "cached_amp": "ModelCachedAmp",
              "simple": "SimpleNllModel", "simple_clip": "SimpleClipNllModel", "simple_cfit": "SimpleCFitModel",
              "simple_chi2": "SimpleChi2Model"}
_KEEP = []  # keep every FCN alive: the cached models key their caches by id(data)


def real_config(extra, bg_weight=0.3):
    return {
        "data": {"dat_order": ["B", "C", "D"], "center_mass": False, "random_z": False, "r_boost": False,
                 "bg_weight": bg_weight, **extra},
        "decay": {"A": [["R_BC", "D"], ["R_BD", "C"]], "R_BC": ["B", "C"], "R_BD": ["B", "D"]},
        "particle": {
            "$top": {"A": {"J": 0, "P": -1, "mass": 4.6}},
            "$finals": {"B": {"J": 0, "P": -1, "mass": 2.0}, "C": {"J": 0, "P": -1, "mass": 2.0},
                        "D": {"J": 0, "P": -1, "mass": 0.14}},
            "R_BC": {"J": 1, "P": -1, "m0": 4.16, "g0": 0.1},
            "R_BD": {"J": 1, "P": -1, "m0": 2.43, "g0": 0.3},
        },
    }


def three_body(rng, n, m0=4.6, m1=2.0, m2=2.0, m3=0.14):
    """Seeded three-body events in the rest frame of the parent (not flat in phase space; any physical events do)."""
    out = [[], [], []]
    while len(out[0]) < n:
        m12 = rng.uniform(m1 + m2, m0 - m3)

        def two(M, ma, mb):
            p = math.sqrt(max((M * M - (ma + mb) ** 2) * (M * M - (ma - mb) ** 2), 0.0)) / (2 * M)
            c, ph = rng.uniform(-1, 1), rng.uniform(-math.pi, math.pi)
            s = math.sqrt(1 - c * c)
            d = np.array([s * math.cos(ph), s * math.sin(ph), c])
            return p, d

        p, d = two(m0, m12, m3)
        P12 = np.array([math.sqrt(m12 * m12 + p * p), *(p * d)])
        P3 = np.array([math.sqrt(m3 * m3 + p * p), *(-p * d)])
        q, e = two(m12, m1, m2)
        a = np.array([math.sqrt(m1 * m1 + q * q), *(q * e)])
        b = np.array([math.sqrt(m2 * m2 + q * q), *(-q * e)])
        beta = P12[1:] / P12[0]
        gam = 1 / math.sqrt(1 - beta @ beta)

        def boost(x):
            bp = beta @ x[1:]
            g2 = (gam - 1) / (beta @ beta) if beta @ beta > 0 else 0.0
            return np.array([gam * (x[0] + bp), *(x[1:] + g2 * bp * beta + gam * x[0] * beta)])

        out[0].append(boost(a))
        out[1].append(boost(b))
        out[2].append(P3)
    return [np.array(x) for x in out]


def real_fcn(name, rng, nd, nm, nb, batch, wmode="pos", extras=None):
    from tf_pwa.config_loader import ConfigLoader
    extra = dict(REAL_CONFIGS[name]) if extras is None else extras
    wbkg = 0.3
    with quiet():
        config = ConfigLoader(real_config(extra, wbkg))
        amp = config.get_amplitude()

        def sample(n, mode):
            d = config.data.cal_angle(three_body(rng, n))
            w = _weights(rng, n, mode)
            if w is not None:
                d["weight"] = w
            d["eff_value"] = rng.uniform(0.4, 1.0, n)
            d["bg_value"] = rng.uniform(0.5, 1.5, n)
            return d

        data, mc = sample(nd, wmode), sample(nm, "pos")
        cf = extra.get("model") == "cfit"
        bg = None
        if nb and not cf:
            bg = sample(nb, "none")
        # move away from the initial point (all couplings random at construction: reseed for replayability)
        # (the fixed chain's magnitude is random at construction too: set it as well)
        names = sorted(set(amp.vm.trainable_vars) | {k for k in amp.get_params() if k.endswith("_total_0r")})
        amp.set_params({k: float(rng.uniform(0.3, 1.5)) for k in names})
        fcn = config.get_fcn([[data], [mc], None if bg is None else [bg], None], batch=batch)
    _KEEP.append((config, fcn, data, mc, bg))
    info = {"wbkg": wbkg, "fb": extra.get("bg_frac", 0.0), "data": data, "mc": mc, "bg": bg}
    if name == "cfit_cached":
        info["cached_mc_eff"] = observe_cached_mc_eff(config, fcn, data, mc, batch)
    return config, amp, fcn, info


def observe_cached_mc_eff(config, fcn, data, mc, batch):
    """Does Model_cfit_cached.nll_grad_batch include the MC efficiency in the signal normalisation?
    Probe: double eff_value of the MC sample; the value moves iff the efficiency enters the integral."""
    if "cached_mc_eff" in _TOY:
        return _TOY["cached_mc_eff"]
    mc2 = dict(mc)
    mc2["eff_value"] = np.array(mc["eff_value"]) * 2.0
    with quiet():
        fcn2 = config.get_fcn([[data], [mc2], None, None], batch=batch)
        v1 = _try(lambda: fcn.nll_grad({})[0])
        v2 = _try(lambda: fcn2.nll_grad({})[0])
    _KEEP.append((fcn2, mc2))
    used = isinstance(v1, str) or isinstance(v2, str) or abs(v1 - v2) > 1e-9 * (abs(v1) + 1)
    _TOY["cached_mc_eff"] = bool(used)
    return _TOY["cached_mc_eff"]


def observe_real(name, amp, fcn, info, effkey):
    data, mc, bg = info["data"], info["mc"], info["bg"]
    nd = len(data["eff_value"])
    w = np.array(data.get("weight", np.ones(nd)), dtype="float64")
    if bg is None:
        bgmode, nb, bgx = 0, 0, []
    elif bg.get("weight", None) is not None:
        bgmode, nb, bgx = 2, len(bg["eff_value"]), list(np.array(bg["weight"]))
    else:
        bgmode, nb, bgx = 1, len(bg["eff_value"]), [info["wbkg"]]
    merged = fcn.data
    with quiet():
        f = np.array(amp(merged))
        g = np.array(amp(fcn.mcdata))
    n, nm = len(f), len(g)

    def col(d, key, k):
        v = d.get(key, None) if key is not None else None
        return np.ones(k) if v is None else np.array(v, dtype="float64")

    s = f * col(merged, effkey if name == "simple_cfit" else "eff_value", n)
    v = mc.get("weight", None)
    return {"kind": name, "ext": name == "extended", "batch": int(fcn.batch), "fb": info["fb"],
            "w": list(map(float, w)), "bgmode": bgmode, "nb": nb, "bgx": list(map(float, bgx)),
            "f": f, "s": s, "b": col(merged, "bg_value", n), "v": None if v is None else np.array(v, dtype="float64"),
            "g": g, "ms": g * col(fcn.mcdata, "eff_value", nm), "mb": col(fcn.mcdata, "bg_value", nm), "cs": [],
            "eff_true": col(merged, "eff_value", n),
            # what Model_cfit_cached.nll_grad_batch integrates for the signal normalisation (observed by a probe)
            "ga": (g * col(fcn.mcdata, "eff_value", nm)) if info.get("cached_mc_eff", True) else g}


def real_plan(ctx):
    names = list(REAL_CONFIGS)
    if ctx.quick:
        drop = ["cached_int", "cached_amp"][ctx.seed % 2]  # (tracing the cached tf.functions costs ~15 s each)
        names = [n for n in names if n != drop]
        reps = 1
    else:
        reps = 3
    return names, reps


def real_one(gen, effkey, res=None):
    """one real-amplitude case from its generation record (replayable)"""
    name = gen["name"]
    rng = np.random.Generator(np.random.Philox(gen["key"]))
    config, amp, fcn, info = real_fcn(name, rng, gen["nd"], gen["nm"], gen["nb"], gen["batch"], gen["wmode"])
    cls = type(fcn.model).__name__
    if cls != REAL_CLASS[name] and res is not None:
        res.broke("ConfigLoader selected %s for configuration %s (expected %s)" % (cls, name, REAL_CLASS[name]), REAL_CONFIGS[name])
    o = observe_real(name, amp, fcn, info, effkey)
    o["gen"] = gen
    impl = eval_fcn(fcn)
    return ("real %s [%s] n=%d nmc=%d batch=%d" % (name, cls, len(o["f"]), len(o["g"]), gen["batch"]), o, impl)


def real_cases(ctx, res, effkey):
    rng = np.random.Generator(np.random.Philox(ctx.seed * 1000 + 606))
    names, reps = real_plan(ctx)
    entries = []
    for rep in range(reps):
        for name in names:
            nd = int(rng.choice([6, 9, 14]))
            nm = int(rng.choice([11, 20]))
            nb = int(rng.choice([0, 3, 4]))
            n = nd + (nb if REAL_CONFIGS[name].get("model") != "cfit" else 0)
            batch = int(rng.choice([3, n - 1, n, 2 * n])) if "cach" not in name else int(rng.choice([n - 1, n, 2 * n]))
            if name == "cfit_extended" and rep == 0:
                batch = n  # one comparable gradient-path value on either tree
            wmode = str(rng.choice(["none", "pos", "signed"]))
            gen = {"name": name, "key": int(ctx.seed * 100000 + 606 * 100 + len(entries)), "nd": nd, "nm": nm, "nb": nb,
                   "batch": batch, "wmode": wmode}
            entries.append(real_one(gen, effkey, res))
    return entries


# --------------------------------------------------------------------------
# search: the property statement itself on the implementation, oracle independent of the Lean model
# --------------------------------------------------------------------------

STOL = 1e-9


def _rel(a, b, scale):
    if isinstance(a, str) or isinstance(b, str):
        return float("inf")
    if not (np.isfinite(a) and np.isfinite(b)):
        return float("inf")
    return abs(a - b) / scale


def search_case(spec, effkey, res, stats, label):
    kind = spec["kind"]
    amp, fcn = build_toy_fcn(spec)
    o = observe_inputs(spec, amp, fcn, effkey)
    val, scale, kappa, regular = formula(o, use_true_eff=True)
    if not (regular and np.isfinite(val) and kappa < 1e4):
        stats["skipped"] += 1
        return
    impl = eval_fcn(fcn)
    n = len(o["f"])
    stats["formula"] += 1
    for path in PATHS:
        iv = impl[path]
        if _is_ragged_known(o, path, iv):
            res.fail(KEY_RAGGED, "ModelCfitExtended.nll_grad_batch raises for n=%d events, batch=%d (tf.reduce_sum over a ragged list of weight batches): %s" % (n, o["batch"], iv),
                     {"op": "toy", "spec": spec, "path": path})
            continue
        e = _rel(iv, val, scale)
        if not (e < STOL):
            key = "%s:%s:formula" % (kind, path)
            if kind == "simple_cfit" and effkey != "eff_value" and np.any(o["eff_true"] != 1.0):
                # is the deviation explained by the efficiency being read from the wrong key?
                val2, scale2, _, _ = formula(o, use_true_eff=False)
                if _rel(iv, val2, scale2) < STOL:
                    key = KEY_EFF
            res.fail(key, "%s %s = %r but the defining formula gives %r (rel %.3g; n=%d, nmc=%d, batch=%d)" % (
                kind, path, iv, val, e, n, len(o["g"]), o["batch"]), {"op": "toy", "spec": spec, "path": path})
    # batch-size variation
    bs = [b for b in batch_candidates(n) if n_batches(n, len(o["g"]), b) <= stats["cap"]] or [max(n, len(o["g"]))]
    if stats.get("nvar") and len(bs) > stats["nvar"]:  # quick tier: a seeded subset of the batch sizes
        k0 = (n + len(o["g"])) % len(bs)
        bs = sorted({bs[(k0 + j * max(1, len(bs) // stats["nvar"])) % len(bs)] for j in range(stats["nvar"])})
    ref = None
    for b in bs:
        _, fb_ = build_toy_fcn(spec, amp=amp, batch=b)
        iv = eval_fcn(fb_)
        stats["batch"] += 1
        for path in PATHS:
            x = iv[path]
            ob = dict(o, batch=b)
            if _is_ragged_known(ob, path, x):
                res.fail(KEY_RAGGED, "ModelCfitExtended.nll_grad_batch raises for n=%d events, batch=%d: %s" % (n, b, x),
                         {"op": "toy", "spec": dict(spec, batch=b), "path": path})
                continue
            if ref is None and not isinstance(x, str):
                ref = x
            if ref is None or not (_rel(x, ref, scale) < STOL):
                res.fail("%s:%s:batch" % (kind, path), "%s %s depends on the batch size: batch=%d gives %r, reference %r (n=%d)" % (kind, path, b, x, ref, n),
                         {"op": "toy", "spec": dict(spec, batch=b), "path": path})
    # common rescaling of all amplitudes (toy_a -> c toy_a scales every density by c^2), non-extended only
    if kind in ("default", "cfit", "simple", "simple_clip", "simple_cfit"):
        c = 1.7
        p2 = dict(spec["params"], toy_a=spec["params"]["toy_a"] * c)
        gsh = 0.0
        if "toy_a" in spec["gauss"]:
            mean, sigma = spec["gauss"]["toy_a"]
            gsh = ((p2["toy_a"] - mean) ** 2 - (spec["params"]["toy_a"] - mean) ** 2) / (2 * sigma ** 2)
        _, f2 = build_toy_fcn(spec, amp=amp, params=p2)
        iv = eval_fcn(f2)
        stats["rescale"] += 1
        for path in PATHS:
            if not (_rel(iv[path], impl[path] + gsh if not isinstance(impl[path], str) else impl[path], scale + abs(gsh)) < STOL):
                res.fail("%s:%s:rescale" % (kind, path), "%s %s changes under a common rescaling of all amplitudes by %g: %r -> %r" % (kind, path, c * c, impl[path], iv[path]),
                         {"op": "toy", "spec": spec, "path": path, "rescale": c})
        amp.set_params(spec["params"])


def search_clip_log(res, stats):
    """clip_log itself, against its specification (independent of the Lean model): log above eps, and below eps a
    continuation that matches value, first and second derivative at eps (TensorFlow autodiff on both sides)."""
    import tensorflow as tf
    from tf_pwa.model.model import clip_log
    xs = np.array([1.0000001e-6, 2e-6, 1e-5, 1e-3, 0.5, 1.0, 7.0, 1e4])
    got = np.array(clip_log(tf.constant(xs)))
    bad = np.where(~(np.abs(got - np.log(xs)) <= 1e-13 * (1 + np.abs(np.log(xs)))))[0]
    for i in bad[:2]:
        res.fail("clip_log:above-eps", "clip_log(%r) = %r, log = %r" % (xs[i], got[i], math.log(xs[i])), {"op": "clip_log", "x": float(xs[i])})

    def d012(x):
        t = tf.constant(x, dtype="float64")
        with tf.GradientTape() as t2:
            t2.watch(t)
            with tf.GradientTape() as t1:
                t1.watch(t)
                y = clip_log(t)
            g = t1.gradient(y, t)
        h = t2.gradient(g, t)
        return float(y), float(g), float(h if h is not None else 0.0)

    lo, hi = d012(EPS * (1 - 1e-9)), d012(EPS * (1 + 1e-9))
    want = (math.log(EPS), 1 / EPS, -1 / EPS ** 2)
    for k, nm in enumerate(["value", "first derivative", "second derivative"]):
        for side, v in (("below", lo[k]), ("above", hi[k])):
            if not (abs(v - want[k]) <= 1e-6 * abs(want[k])):
                res.fail("clip_log:C2-at-eps", "clip_log %s just %s eps is %r, expected %r (continuation must match log to second order)" % (nm, side, v, want[k]),
                         {"op": "clip_log", "side": side, "order": k})
    # below eps the continuation is the second-order Taylor polynomial: third difference vanishes, stays finite at 0 and below
    ys = np.array(clip_log(tf.constant(np.array([0.0, -1e-6, 2.5e-7, 5e-7, 7.5e-7]))))
    if not np.all(np.isfinite(ys)):
        res.fail("clip_log:finite-below-eps", "clip_log not finite below eps: %r" % list(ys), {"op": "clip_log"})
    stats["clip_log_points"] = len(xs) + 6 + 5


def search(ctx, res):
    effkey = observe_eff_key()
    hard = ctx.suspect or not ctx.quick
    ntoy = 24 if ctx.quick and not ctx.suspect else (120 if ctx.quick else 200)
    rng = np.random.Generator(np.random.Philox(ctx.seed * 1000 + 666))
    stats = {"formula": 0, "batch": 0, "rescale": 0, "skipped": 0, "combine": 0, "real": 0, "cap": 10 if ctx.quick else 16, "nvar": 3 if ctx.quick and not ctx.suspect else 0}
    sizes = [1, 2, 3, 5, 8, 13, 21, 50] + ([120, 400] if hard else [120])
    for i in range(ntoy):
        kind = TOY_KINDS[i % len(TOY_KINDS)]
        spec = gen_case(rng, kind, sizes, allow_clip=False)
        search_case(spec, effkey, res, stats, "search#%d" % i)
    tlog("search: %d toy cases done" % ntoy)
    # simultaneous fit = sum of its parts (+ one constraint term)
    for i in range(8 if ctx.quick and not ctx.suspect else (24 if ctx.quick else 60)):
        ce = run_combine(rng, effkey, [1, 2, 5, 13, 40])
        parts = [eval_fcn(f) for f in ce["fcns"]]
        gauss = sum((ce["cs"][j] - ce["cs"][j + 1]) ** 2 / (2 * ce["cs"][j + 2] ** 2) for j in range(0, len(ce["cs"]), 3))
        scale = sum(model_scale(o)[0] for o in ce["obs"]) + abs(gauss) + 1e-300
        stats["combine"] += 1
        for path in PATHS:
            xs = [p[path] for p in parts]
            if any(isinstance(x, str) for x in xs):
                if all(_is_ragged_known(o, path, x) or not isinstance(x, str) for o, x in zip(ce["obs"], xs)):
                    continue
                tot = "ERR"
            else:
                # a sub-FCN built with the shared constraint reports its own copy of the term: take it off, add the term once
                tot = sum(x - (gauss if ce["shared"] else 0.0) for x in xs) + gauss
            if not (_rel(ce["impl"][path], tot, scale) < STOL):
                res.fail("combine:%s:sum-of-parts" % path, "CombineFCN %s = %r but the parts (without their own copies of the constraint) sum to %r + constraint term once %r = %r (kinds %s, same gauss_constr in every sub-FCN: %s)" % (
                    path, ce["impl"][path], tot - gauss, gauss, tot, [o["kind"] for o in ce["obs"]], ce["shared"]),
                         {"op": "combine", "specs": ce["specs"], "gauss": ce["gauss"], "path": path})
        # the gradient CombineFCN.nll_grad returns = sum of the parts' gradients + the constraint gradient once
        try:
            with quiet():
                gsum = sum(np.array(f.get_nll_grad({})[1], dtype="float64") for f in ce["fcns"])
                gimp = np.array(ce["comb"].nll_grad({})[1], dtype="float64")
                names = list(ce["comb"].vm.trainable_vars)
                vals = ce["comb"].get_params()
            gc = np.array([(vals[n] - ce["gauss"][n][0]) / ce["gauss"][n][1] ** 2 if n in ce["gauss"] else 0.0 for n in names])
            gs = np.abs(gsum).max() + np.abs(gc).max() + 1e-300
            stats["combine_grad"] = stats.get("combine_grad", 0) + 1
            if not np.all(np.abs(gimp - (gsum + gc)) <= 1e-8 * gs):
                res.fail("combine:nll_grad:gradient-sum-of-parts", "CombineFCN.nll_grad gradient %r but the parts' gradients sum to %r and the constraint gradient (once) is %r" % (list(gimp), list(gsum), list(gc)),
                         {"op": "combine", "specs": ce["specs"], "gauss": ce["gauss"], "path": "nll_grad"})
        except Exception as e:  # a crash on a gradient path is reported by the value comparison above
            stats["combine_grad_errors"] = stats.get("combine_grad_errors", 0) + 1
    tlog("search: combine done")
    # real amplitude through ConfigLoader: the defining formula for every selectable model name
    # (the evaluations of the correspondence run are reused; the oracle here is the numpy formula)
    ents = _TOY.get("real_entries")
    if ents is None:
        ents = real_cases(ctx, res, effkey)
    for (label, o, impl) in ents:
        name = o["kind"]
        val, scale, kappa, regular = formula(o, use_true_eff=True)
        if not (regular and kappa < 1e4):
            stats["skipped"] += 1
            continue
        stats["real"] += 1
        for path in PATHS:
            iv = impl[path]
            if _is_ragged_known(o, path, iv):
                res.fail(KEY_RAGGED, "ModelCfitExtended.nll_grad_batch raises for n=%d events, batch=%d (real AmplitudeModel): %s" % (len(o["f"]), o["batch"], iv),
                         {"op": "real", "gen": o.get("gen"), "path": path})
                continue
            e = _rel(iv, val, scale)
            if not (e < STOL):
                key = "%s:%s:formula" % (name, path)
                if name == "simple_cfit" and effkey != "eff_value":
                    val2, scale2, _, _ = formula(o, use_true_eff=False)
                    if _rel(iv, val2, scale2) < STOL:
                        key = KEY_EFF
                if name == "cfit_cached" and path == "nll_grad":
                    val2, scale2, _, _ = formula(dict(o, ms=o["g"]))
                    if _rel(iv, val2, scale2) < STOL:
                        key = KEY_CACHED
                res.fail(key, "real AmplitudeModel, %s: %s = %r but the defining formula gives %r (rel %.3g)" % (label, path, iv, val, e),
                         {"op": "real", "gen": o.get("gen"), "path": path})
    # batch variation with the real amplitude
    for name in (["default"] if ctx.quick and not ctx.suspect else ["default", "cfit", "extended", "simple"]):
        vals = []
        for batch in (4, 9, 30):
            rr = np.random.Generator(np.random.Philox(ctx.seed * 1000 + 6666))
            config, amp, fcn, info = real_fcn(name, rr, 9, 14, 3, batch, "signed")
            vals.append((batch, eval_fcn(fcn)))
        o = observe_real(name, amp, fcn, info, effkey)
        scale = model_scale(o)[0]
        for batch, iv in vals:
            for path in PATHS:
                if not (_rel(iv[path], vals[0][1]["call"], scale) < STOL):
                    res.fail("%s:%s:batch" % (name, path), "real AmplitudeModel %s %s depends on the batch size: batch=%d gives %r, reference %r" % (name, path, batch, iv[path], vals[0][1]["call"]),
                             {"op": "real-batch", "name": name, "batch": batch, "path": path, "seed": ctx.seed})
    search_clip_log(res, stats)
    import c06_ext
    c06_ext.search(ctx, res)
    # observation (not a C06 violation): Model_cfit.nll has no clip_log while its gradient path has
    spec = gen_case(np.random.Generator(np.random.Philox(6)), "cfit", [5], allow_clip=False)
    spec["data"]["f0"][0] = 1e-9
    spec["data"]["bg_value"][0] = 1e-9
    spec["batch"] = 5
    amp, fcn = build_toy_fcn(spec)
    iv = eval_fcn(fcn)
    res.notes.append("observation: with one event of mixture density < eps, Model_cfit __call__ = %r (plain log, the documented formula) while nll_grad[0] = %r (clip_log): the two reported values differ only below eps" % (iv["call"], iv["nll_grad"]))
    tlog("search done")
    res.coverage["search_cases"] = stats
    res.coverage["search_rule"] = "numpy evaluation of the property's defining formula vs FCN.__call__/nll_grad[0]/nll_grad_hessian[0] on densities > eps; batch in {1,3,n-1,n,2n}; rescaling toy_a -> 1.7 toy_a (non-extended); CombineFCN = sum of parts; real AmplitudeModel through ConfigLoader"


def replay(ctx, payload):
    C.setup_tf()
    r = payload.get("replay", payload)
    effkey = observe_eff_key()
    print("efficiency key read by SimpleCFitModel:", effkey)
    if str(r.get("op", "")).startswith("ext-"):
        import c06_ext
        return c06_ext.replay(ctx, r)
    if r.get("op") == "toy":
        spec = r["spec"]
        amp, fcn = build_toy_fcn(spec)
        o = observe_inputs(spec, amp, fcn, effkey)
        impl = eval_fcn(fcn)
        val, scale, kappa, regular = formula(o, use_true_eff=True)
        print("case:", spec["kind"], "n=%d nmc=%d batch=%d" % (len(o["f"]), len(o["g"]), o["batch"]))
        print("implementation:", impl)
        print("defining formula (numpy):", val, "scale", scale, "regular", regular)
        bad = any(_rel(impl[p], val, scale) >= STOL or isinstance(impl[p], str) for p in PATHS)
        return 1 if bad else 0
    if r.get("op") == "combine":
        from tf_pwa.model.model import CombineFCN
        specs, gauss = r["specs"], r["gauss"]
        amp = new_toy_amp(specs[0]["params"])
        fcns = [build_toy_fcn(spec, amp=amp)[1] for spec in specs]
        with quiet():
            comb = CombineFCN(fcns=fcns, gauss_constr={k: tuple(v) for k, v in gauss.items()})
        impl, parts = eval_fcn(comb), [eval_fcn(f) for f in fcns]
        g = sum((specs[0]["params"][k] - m) ** 2 / (2 * sg ** 2) for k, (m, sg) in gauss.items())
        own = g if specs[0]["gauss"] else 0.0
        print("constraint term:", g, "; every sub-FCN built with the same gauss_constr:", bool(specs[0]["gauss"]))
        print("CombineFCN:", impl)
        bad = False
        for path in PATHS:
            xs = [p[path] for p in parts]
            if any(isinstance(x, str) for x in xs) or isinstance(impl[path], str):
                print(path, "error:", xs, impl[path])
                bad = True
                continue
            tot = sum(x - own for x in xs) + g
            print("%s: parts without their own constraint copies sum to %r, + constraint once = %r" % (path, tot - g, tot))
            bad = bad or not abs(impl[path] - tot) <= 1e-9 * (sum(abs(x) for x in xs) + abs(g) + 1)
        return 1 if bad else 0
    if r.get("op") == "real" and r.get("gen"):
        label, o, impl = real_one(r["gen"], effkey)
        val, scale, kappa, regular = formula(o, use_true_eff=True)
        print("case:", label)
        print("implementation:", impl)
        print("defining formula (numpy):", val, "scale", scale, "regular", regular)
        if o["kind"] == "cfit_cached":
            print("  (formula with the MC efficiency dropped from the signal normalisation: %r)" % formula(dict(o, ms=o["g"]))[0])
        bad = any(isinstance(impl[p], str) or _rel(impl[p], val, scale) >= STOL for p in PATHS)
        return 1 if bad else 0
    print(payload)
    return 0


MANIFEST = {
    "text": "Lean theorems over the reals, for ALL lists of weights (either sign, zeros) and density values: for densities above eps=1e-6 FCN.__call__ equals -alpha[sum W_i ln f_i - (sum W_i) ln(sum v_j g_j / sum v_j)] + Gaussian terms with W = data weights ++ background weights (-w_bkg each) and alpha = sum W / sum W^2 (fcn_call_formula; extended, cfit, cfit_extended, simple variants likewise); for ANY densities (zero and negative included) the same holds with ln replaced by clip_log's value, ln f above eps and ln eps + (f-eps)/eps - ((f-eps)/eps)^2/2 at and below eps (nll_formula_clipped), which is the 2nd-order Taylor polynomial: continuous with matching first and second derivative (clipLog_C2); with resolution_size = r the value is -alpha_r[sum_G W_G ln(sum_k w_Gk f_Gk / W_G) - (sum W) int_f(I)], W_G = sum_k w_Gk over r consecutive rows, alpha_r = sum W_G / sum W_G^2, events of total weight 0 contributing 0 (nll_formula_resolution, _clipped); the value is independent of the batch partition for every batch size, dividing the sample or not, and for resolution_size = r for every partition into batches that are multiples of r and every batch size k*r (list induction); FCN.__call__, nll_grad[0], nll_grad_hessian[0] agree for every such batch size including the clip region, r = 1 and r > 1 (fcn_value_paths_agree, fcn_value_paths_agree_resolution); MixLogLikehoodFCN's gradient-path value equals the sum of the per-data-set values of CombineFCN for any number of data sets (mix_eq_combine); constr_frac = -sum w ln f + (sum w) ln I0 + sum_c ((I_c/I0 - mu_c)/sigma_c)^2/2 on every value path for every batch size when there is at least one event (constr_frac_formula, constr_frac_batch_invariant; with no event the batched paths return 0: constr_frac_batch_empty); cfit_constr_frac likewise with the partial integrals taken without efficiency as the code does; legacy inject_mc = -sum W_i clip_log((f_i/I + w_inmc)/(1+w_inmc)) for every batch partition; the Gaussian-constraint term sum (theta-mu)^2/(2 sigma^2) is additive on all three value paths and in CombineFCN (gauss_additive); a simultaneous fit whose sub-FCNs all carry the same configured constraint (as ConfigLoader.get_fcn / MultiConfig.get_fcn build it) reports on all three value paths, for any number of data sets and every batch size, sum_k NLL_k + the constraint term exactly once (combine_gauss_once); invariance under a common rescaling when not extended; CombineFCN = sum of parts; re-applying alpha (per row or per event) is the identity. The same definition text runs as Float against FCN for every selectable model class and option.",
    "note": "Model = templates/NLL.lean.in over lists of numbers (density / efficiency / background / partial-amplitude values are inputs read from the implementation's own amplitude call), instantiated at R (proofs, Props/C06.lean + Props/C06b.lean) and Float (execution); tie = differential run against FCN.__call__/nll_grad/nll_grad_hessian for default, extended, cfit, cfit_extended, simple, simple_clip, simple_cfit, simple_chi2 with a toy AbsPDF (sizes 1..400, signed weights, batch in {1,3,n-1,n,2n}), cfit_cached, cached_int, cached_amp with a real AmplitudeModel through ConfigLoader, and (part b, harness/c06_ext.py) Model(resolution_size in {2,3,5}) incl. clip region and zero-weight events, MixLogLikehoodFCN of 1..3 data sets, constr_frac / cfit_constr_frac with 0..3 constrained fractions, inject_mc, plus a real AmplitudeModel through ConfigLoader with data.resolution_size, gauss_constr by all three configuration routes (constrains.gauss_constr, particle gauss_constr, m0_sigma + m0_constr; mean and sigma taken from what the harness configured, not from the loader), model: constr_frac, inmc, using_mix_likelihood, and a simultaneous fit of two data sets with constraints 2 sigma off centre (CombineFCN built by ConfigLoader.get_fcn; toy CombineFCN cases likewise give the same gauss_constr to every sub-FCN) (rel 1e-10 of the forward-error scale; observed worst 2e-15). Search = numpy evaluation of the defining formula (reshape-based for resolution, quadratic continuation in the clip region), batch variation over multiples of r, rescaling, sum of parts + constraint once (value and gradient of CombineFCN.nll_grad), clip_log C2 spec. Three listed findings (simple_cfit efficiency key, cfit_extended ragged batches, cfit_cached MC efficiency) are reported through search with stable keys; the model follows what the harness observes, so the check is quiet on the fixed tree too. Validated only, not proved: Float rounding; equality of cached strategies with amp(data) (C05); the partial amplitudes of constr_frac; Model_cfit's own resolution_size option is not modelled; MixLogLikehoodFCN accepts only CalAngleData inputs and resolution sizes dividing 65000 (its inner FCNs ignore the batch argument).",
    "technique": "Lean 4 proof over the reals (list induction incl. grouping/batching of resolution_size rows + real analysis of clip_log) of one template instantiated at Float for differential correspondence with the implementation",
}
