"""C12 — rotation-group functions (Wigner D, Clebsch-Gordan, SU(2) angles) are exact."""
import math
import random
from fractions import Fraction

import numpy as np

import common as C

PID = "C12"
DRIVER = [("C12", "TfPwaV.Model.WignerF", "WignerF.handle"), ("C12s", "TfPwaV.Gen.SU2F", "SU2F.handle")]
LEAN_TARGETS = ["TfPwaV.Props.C12", "TfPwaV.Props.C12b", "TfPwaV.Props.C12c", "TfPwaV.Props.C12d", "TfPwaV.Props.C12e", "TfPwaV.Gen.SU2F"]
PROP_MODULES = ["TfPwaV.Props.C12", "TfPwaV.Props.C12b", "TfPwaV.Props.C12c", "TfPwaV.Props.C12d", "TfPwaV.Props.C12e"]
ALL_MODULES = ["TfPwaV.Model.Wigner", "TfPwaV.Proofs.Wigner", "TfPwaV.Proofs.WignerU7", "TfPwaV.Proofs.WignerU8",
               "TfPwaV.Props.C12", "TfPwaV.Proofs.SU2", "TfPwaV.Props.C12b", "TfPwaV.Props.C12c", "TfPwaV.Props.C12d", "TfPwaV.Props.C12e", "TfPwaV.Props.C02d", "TfPwaV.Proofs.SL2C", "TfPwaV.Proofs.ZHom", "TfPwaV.Proofs.DHom"] + ["TfPwaV.Proofs.CgOrtho" + k for k in "ABCDEFG"]
ASSUMPTIONS = [
    "float table entries are compared with the exact model value sign*sqrt(q) at relative 1e-13 (a wrong factorial, sign or index changes an entry by >= 1e-2 relative)",
    "sympy's CG(...).doit().evalf() is the run-time path of cg_coef; it is compared with the exact Racah value, sympy itself is not verified",
    "D(R1)D(R2)=D(R1R2) is a theorem for every 2j<=8 (D_hom_su2: if the SU2M rotations Rz(a)Ry(b)Rz(g) compose, the D_matrix_conj matrices built from the modelled weights compose; the underlying polynomial-representation homomorphism Z_hom and the identification of the weights with it hold for every N) and is re-checked numerically on the implementation in exactly that form; the Euler-angle round trip IS proved for every element of SU(2) (euler_roundtrip) on the real-pair model of SU2M, which is compared with the real class on every run",
    "rotation-boost products: Props/C12e.lean proves (through the spinor map of Props/C02d.lean) that two determinant-one products of Rotation_z/y and Boost_z bringing the same massive momentum to rest differ by an element of SU(2) whose Euler angles reproduce it (euler_roundtrip_two_routes; _changeRef/_alignR for the b_matrix/r_matrix accumulation of cal_helicity_angle under the named hypothesis RouteToRest of C02d; euler_roundtrip_rotation_boost_rotation with no hypothesis left); that the matrices the implementation accumulates do bring the momentum to rest is checked by C02 on captured matrices and here by the search (unitarity residual of SU2M products)",
]


def parse_rat(s):
    a, b = s.split("/")
    return Fraction(int(a), int(b))


def rel_close(a, b, tol=1e-13):
    return abs(a - b) <= tol * max(1.0, abs(a), abs(b))


def cg_tuples(maxj2, integer_only=False):
    step = 2 if integer_only else 1
    for j1 in range(0, maxj2 + 1, step):
        for j2 in range(0, maxj2 + 1, step):
            for J in range(abs(j1 - j2), j1 + j2 + 1, 2):
                for m1 in range(-j1, j1 + 1, 2):
                    for m2 in range(-j2, j2 + 1, 2):
                        M = m1 + m2
                        if abs(M) <= J:
                            yield (j1, m1, j2, m2, J, M)


def half(x):
    return x // 2 if x % 2 == 0 else x / 2.0


def racah(j1, m1, j2, m2, J, M):
    """Independent exact oracle (Fractions): returns (sign, value^2)."""
    f = math.factorial
    if m1 + m2 != M or not (abs(j1 - j2) <= J <= j1 + j2) or (j1 + j2 + J) % 2:
        return 0, Fraction(0)
    h = lambda x: x // 2
    delta = Fraction(f(h(j1 + j2 - J)) * f(h(j1 - j2 + J)) * f(h(-j1 + j2 + J)), f(h(j1 + j2 + J) + 1))
    pref = (J + 1) * delta * f(h(J + M)) * f(h(J - M)) * f(h(j1 - m1)) * f(h(j1 + m1)) * f(h(j2 - m2)) * f(h(j2 + m2))
    s = Fraction(0)
    for k in range(0, h(j1 + j2 - J) + 1):
        ds = [k, h(j1 + j2 - J) - k, h(j1 - m1) - k, h(j2 + m2) - k, h(J - j2 + m1) + k, h(J - j1 - m2) + k]
        if min(ds) < 0:
            continue
        den = 1
        for d in ds:
            den *= f(d)
        s += Fraction((-1) ** k, den)
    return (1 if s > 0 else -1 if s < 0 else 0), pref * s * s


def correspond_su2(ctx, res):
    """templates/SU2.lean.in (Float instance) vs tf_pwa.angle.SU2M on seeded angles / products."""
    import tensorflow as tf
    from tf_pwa.angle import SU2M
    rng = np.random.Generator(np.random.Philox(ctx.seed + 1212))
    n = 400 if ctx.quick else 8000
    edge = [0.0, math.pi, -math.pi, math.pi / 2, 1e-9, 2 * math.pi, -1e-9]
    ang = np.concatenate([np.array(edge), rng.uniform(-2 * math.pi, 2 * math.pi, n - len(edge))])
    ang2 = rng.permutation(ang)
    ang3 = rng.uniform(0, math.pi, n)
    ang3[:3] = [0.0, math.pi, 1e-8]
    om = rng.uniform(-2.0, 2.0, n)

    def flat(m):
        x = m["x"]
        a = np.stack([np.asarray(x[i][j]) for i in range(2) for j in range(2)], -1)  # (n,4) complex
        return np.stack([a.real, a.imag], -1).reshape(len(a), 8)
    t = lambda v: tf.constant(v)
    Rz, Ry, Bz = SU2M.Rotation_z(t(ang)), SU2M.Rotation_y(t(ang3)), SU2M.Boost_z(t(om))
    U = SU2M.Rotation_z(t(ang2)) * SU2M.Rotation_y(t(ang3)) * SU2M.Rotation_z(t(ang))
    W = Bz * U  # SL(2,C) element
    e = SU2M.get_euler_angle(U)
    impl = {
        "rotz": flat(Rz), "roty": flat(Ry), "boostz": flat(Bz), "mul": flat(W), "inv": flat(W.inv()),
        "euler": np.stack([e["alpha"].numpy(), e["beta"].numpy(), e["gamma"].numpy()], -1),
    }
    fU, fB = flat(U), flat(Bz)
    fW = flat(W)
    lines, order = [], []
    for i in range(n):
        lines.append("C12s rotz " + C.f2h(ang[i])); order.append(("rotz", i))
        lines.append("C12s roty " + C.f2h(ang3[i])); order.append(("roty", i))
        lines.append("C12s boostz " + C.f2h(om[i])); order.append(("boostz", i))
        lines.append("C12s mul " + " ".join(C.f2h(x) for x in list(fB[i]) + list(fU[i]))); order.append(("mul", i))
        lines.append("C12s inv " + " ".join(C.f2h(x) for x in fW[i])); order.append(("inv", i))
        lines.append("C12s euler " + " ".join(C.f2h(x) for x in fU[i])); order.append(("euler", i))
    out = ctx.model.query(lines)
    bad, worst = [], 0.0
    for (op, i), line in zip(order, out):
        if line == "bad-op":
            res.broke("model driver bad-op (SU2)", lines[0])
            return
        mv = np.array([C.h2f(x) for x in line.split()])
        iv = impl[op][i]
        if op == "euler":
            # beta = acos(.) is ill-conditioned at 0 and pi (forward error ~ sqrt(ulp)); alpha/gamma are arbitrary there
            # (angle of a rounding-level number): compare the rebuilt matrices instead when sin(beta) is tiny
            if abs(math.sin(iv[1])) < 1e-6:
                continue
            # same sheet of the double cover required (theorem euler_roundtrip is an exact equality): compare
            # exp(i(alpha+gamma)/2), exp(i(alpha-gamma)/2) and beta; only a simultaneous 2pi shift of both is harmless
            def key(v):
                return np.array([math.cos((v[0] + v[2]) / 2), math.sin((v[0] + v[2]) / 2),
                                 math.cos((v[0] - v[2]) / 2), math.sin((v[0] - v[2]) / 2), v[1]])
            err = float(np.max(np.abs(key(mv) - key(iv)))) * abs(math.sin(iv[1]))
            tol = 1e-9
        else:
            err = float(np.max(np.abs(mv - iv))) / (1.0 + float(np.max(np.abs(iv))))
            tol = 1e-13
        worst = max(worst, err)
        if not err < tol:
            bad.append({"op": lines[len(bad)] if False else op, "i": int(i), "impl": list(map(float, iv)), "model": list(map(float, mv)), "err": err})
    res.coverage["su2_ops_compared"] = len(lines)
    res.coverage["su2_worst_err"] = worst
    res.samples.append({"op": lines[3], "model": out[3]})
    if bad:
        res.broke("correspondence SU2F vs tf_pwa.angle.SU2M", {"n": len(bad), "first": bad[:3]})


def correspond(ctx, res):
    correspond_tables(ctx, res)
    n0 = res.coverage.get("traces_validated_against_impl", 0)
    correspond_su2(ctx, res)
    res.coverage["traces_validated_against_impl"] = n0 + res.coverage.get("su2_ops_compared", 0)


def correspond_tables(ctx, res):
    import tensorflow as tf
    from tf_pwa import cg as cgmod
    from tf_pwa import dfun
    rnd = random.Random(ctx.seed + 12)
    lines, checks = [], []

    # (1) small_d_weight tables, every entry, 2j = 0..8
    for N in range(0, 9):
        tab = np.asarray(dfun.small_d_weight(N))
        for l in range(N + 1):
            for im in range(N + 1):
                for inn in range(N + 1):
                    lines.append("C12 dw %d %d %d %d" % (N, im, inn, l))
                    checks.append(("dw", (N, im, inn, l), float(tab[l][im][inn])))

    # (2) small_d_matrix / D_matrix_conj on edge + random angles
    edge = [0.0, math.pi, -math.pi, 1e-9, math.pi - 1e-9, math.pi / 2, 2 * math.pi, -0.3]
    nang = 12 if ctx.quick else 200
    betas = edge + [rnd.uniform(0, math.pi) for _ in range(nang)]
    alphas = [rnd.uniform(-math.pi, math.pi) for _ in betas]
    gammas = [rnd.uniform(-math.pi, math.pi) for _ in betas]
    for N in range(0, 9):
        d = dfun.small_d_matrix(tf.constant(betas, dtype=tf.float64), N).numpy()
        D = dfun.D_matrix_conj(tf.constant(alphas, dtype=tf.float64), tf.constant(betas, dtype=tf.float64),
                               tf.constant(gammas, dtype=tf.float64), N).numpy()
        for ib, b in enumerate(betas):
            for im in range(N + 1):
                for inn in range(N + 1):
                    lines.append("C12 d %d %d %d %s" % (N, im, inn, C.f2h(b)))
                    checks.append(("d", (N, im, inn, b), float(d[ib][im][inn])))
                    if ib % 3 == 0:
                        lines.append("C12 D %d %d %d %s %s %s" % (N, im, inn, C.f2h(alphas[ib]), C.f2h(b), C.f2h(gammas[ib])))
                        checks.append(("D", (N, im, inn, alphas[ib], b, gammas[ib]), complex(D[ib][im][inn])))

    # (3) Clebsch-Gordan: sympy path (run time) and bundled table
    tuples = list(cg_tuples(8))
    if ctx.quick:
        small = [t for t in tuples if max(t[0], t[2]) <= 3]
        rest = [t for t in tuples if max(t[0], t[2]) > 3]
        sample = small + rnd.sample(rest, 500)
    else:
        sample = tuples
    for t in sample:
        j1, m1, j2, m2, J, M = t
        lines.append("C12 cg %d %d %d %d %d %d" % t)
        checks.append(("cg_coef", t, float(cgmod.cg_coef(half(j1), half(j2), half(m1), half(m2), half(J), half(M)))))
    ntab = 0
    for t in cg_tuples(8, integer_only=True):
        j1, m1, j2, m2, J, M = t
        lines.append("C12 cg %d %d %d %d %d %d" % t)
        checks.append(("get_cg_coef", t, float(cgmod.get_cg_coef(j1 // 2, j2 // 2, m1 // 2, m2 // 2, J // 2, M // 2))))
        ntab += 1
    # the table must return 0 outside the triangle (for j1, j2 > 0)
    for j1 in range(2, 9, 2):
        for j2 in range(2, 9, 2):
            for J in list(range(0, abs(j1 - j2), 2)) + [j1 + j2 + 2]:
                lines.append("C12 cg %d 0 %d 0 %d 0" % (j1, j2, J))
                checks.append(("get_cg_coef", (j1, 0, j2, 0, J, 0), float(cgmod.get_cg_coef(j1 // 2, j2 // 2, 0, 0, J // 2, 0))))

    out = ctx.model.query(lines)
    bad = []
    kinds = {}
    for (kind, args, impl), line in zip(checks, out):
        kinds[kind] = kinds.get(kind, 0) + 1
        if line == "bad-op":
            res.broke("model driver bad-op", str(args))
            return
        if kind == "dw":
            r, rad = line.split()
            want = float(parse_rat(r)) * math.sqrt(int(rad))
            ok = rel_close(impl, want)
        elif kind == "d":
            want = C.h2f(line)
            ok = abs(impl - want) <= 2e-12
        elif kind == "D":
            re, im = [C.h2f(x) for x in line.split()]
            want = complex(re, im)
            ok = abs(impl - want) <= 2e-12
        else:
            sg, sq = line.split()
            want = int(sg) * math.sqrt(float(parse_rat(sq)))
            ok = abs(impl - want) <= 1e-12
        if not ok:
            bad.append({"kind": kind, "args": args, "impl": str(impl), "model": str(want)})
    res.coverage.update({
        "traces_validated_against_impl": len(lines),
        "evaluations": len(lines),
        "distinct_nontrivial": sum(1 for (k, a, v) in checks if abs(v) > 1e-12),
        "rule": "every small_d_weight entry 2j=0..8; small_d_matrix/D_matrix_conj entries at edge angles (0, pi, -pi, 1e-9, pi-1e-9, pi/2, 2pi) + seeded random angles; cg_coef (sympy path) on all tuples with 2j<=3 + 500 sampled (thorough: all 2j<=8); get_cg_coef on every integer-spin tuple j<=4 + out-of-triangle zeros; non-trivial = non-zero implementation value",
        "by_kind": kinds,
        "exhaustive": not ctx.quick,
        "disagreements": len(bad),
    })
    res.samples += [{"op": lines[i], "model": out[i], "impl": str(checks[i][2])} for i in (5, len(lines) // 2, len(lines) - 3)]
    if bad:
        res.broke("correspondence Wigner model vs dfun/cg", {"n": len(bad), "first": bad[:5]})
        ctx.hints = bad[:50]


def _D(dfun, tf, a, b, g, N):
    return dfun.D_matrix_conj(tf.constant(a), tf.constant(b), tf.constant(g), N).numpy()


def search(ctx, res):
    """Property statement on the implementation, oracle independent of the Lean model."""
    import tensorflow as tf
    from tf_pwa import cg as cgmod
    from tf_pwa import dfun
    from tf_pwa.angle import SU2M
    rng = np.random.Generator(np.random.Philox(ctx.seed + 121))
    n = 40 if (ctx.quick and not ctx.suspect) else 1500
    # Euler angles incl. beta = 0 and pi
    a = rng.uniform(-math.pi, math.pi, n)
    b = rng.uniform(0, math.pi, n)
    g = rng.uniform(-math.pi, math.pi, n)
    b[:4] = [0.0, math.pi, 1e-8, math.pi - 1e-8]
    for N in range(0, 9):
        D = _D(dfun, tf, a, b, g, N)
        # unitarity
        U = np.einsum("nij,nkj->nik", D, D.conj())
        err = np.abs(U - np.eye(N + 1)).max(axis=(1, 2))
        i = int(np.argmax(err))
        if err[i] > 1e-10:
            res.fail("D:unitarity", "D_matrix_conj(2j=%d) not unitary at (alpha,beta,gamma)=(%r,%r,%r): residual %.3g" % (N, a[i], b[i], g[i], err[i]),
                     {"op": "unitarity", "N": N, "angles": [a[i], b[i], g[i]]})
        # exact Wigner formula (independent evaluation with Fractions)
        d = dfun.small_d_matrix(tf.constant(b), N).numpy()
        s, c = np.sin(b / 2), np.cos(b / 2)
        f = math.factorial
        for im in range(N + 1):
            for inn in range(N + 1):
                tot = np.zeros(n)
                for k in range(max(0, inn - im), min(N - im, inn) + 1):
                    w = (-1) ** (k + im - inn) * math.sqrt(f(im) * f(N - im) * f(inn) * f(N - inn)) / (f(N - im - k) * f(inn - k) * f(k + im - inn) * f(k))
                    l = 2 * k + im - inn
                    tot += w * s ** l * c ** (N - l)
                e = np.abs(tot - d[:, im, inn])
                i = int(np.argmax(e))
                if e[i] > 1e-11:
                    res.fail("d:wigner-formula", "small_d_matrix(2j=%d)[%d][%d] at beta=%r is %r, Wigner formula gives %r" % (N, im, inn, b[i], d[i, im, inn], tot[i]),
                             {"op": "wigner", "N": N, "im": im, "in": inn, "beta": b[i]})
    # group homomorphism D(R1) D(R2) = D(R1 R2), via SU2M product and its Euler angles
    a2, b2, g2 = rng.uniform(-math.pi, math.pi, n), rng.uniform(0, math.pi, n), rng.uniform(-math.pi, math.pi, n)
    tfc = lambda x: tf.constant(x)
    R1 = SU2M.Rotation_z(tfc(g)) * SU2M.Rotation_y(tfc(b)) * SU2M.Rotation_z(tfc(a))
    R2 = SU2M.Rotation_z(tfc(g2)) * SU2M.Rotation_y(tfc(b2)) * SU2M.Rotation_z(tfc(a2))
    for (RA, RB, tag) in ((R1, R2, "rot*rot"),):
        R12 = RA * RB
        e = SU2M.get_euler_angle(R12)
        ea, eb, eg = e["alpha"].numpy(), e["beta"].numpy(), e["gamma"].numpy()
        # Euler round trip on the SU(2) element itself (up to overall sign of the double cover)
        Rr = SU2M.Rotation_z(tfc(eg)) * SU2M.Rotation_y(tfc(eb)) * SU2M.Rotation_z(tfc(ea))
        x = np.array([[R12["x"][i][j].numpy() for j in range(2)] for i in range(2)])
        y = np.array([[Rr["x"][i][j].numpy() for j in range(2)] for i in range(2)])
        # exact equality on the SU(2) element itself (NOT up to the sign of the double cover: half-integer spins see it)
        err = np.abs(x - y).max(axis=(0, 1))
        # condition: near beta=0/pi the split of alpha,gamma is ill-defined but the product must still match
        i = int(np.argmax(err))
        # beta = acos(cos beta) has forward error ~ sqrt(ulp) ~ 2e-8 near beta = 0, pi: tolerance 1e-6
        if err[i] > 1e-6:
            res.fail("su2:euler-roundtrip", "Euler angles of an SU(2) product do not reproduce it (%s): residual %.3g" % (tag, err[i]),
                     {"op": "euler", "angles1": [a[i], b[i], g[i]], "angles2": [a2[i], b2[i], g2[i]]})
        # theorem D_hom_su2 (Props/C12d.lean), stated exactly: with R(al,be,ga) = Rz(al) Ry(be) Rz(ga) (SU2M),
        # R(e12) = R(e1) R(e2)  =>  D_matrix_conj(e12) = D_matrix_conj(e1) . D_matrix_conj(e2)   -- same sheet, fixed order.
        # Here R1 = Rz(g)Ry(b)Rz(a) = R(g,b,a), R2 = R(g2,b2,a2), and get_euler_angle(R1 R2) = (ea,eb,eg) rebuilds
        # Rz(eg)Ry(eb)Rz(ea) = R(eg,eb,ea) = R1 R2.
        for N in ((1, 2, 3, 4) if (ctx.quick and not ctx.suspect) else (1, 2, 3, 4, 5, 6, 7, 8)):
            DA = _D(dfun, tf, g, b, a, N)
            DB = _D(dfun, tf, g2, b2, a2, N)
            D12 = _D(dfun, tf, eg, eb, ea, N)
            c1 = np.einsum("nij,njk->nik", DA, DB)
            e1 = np.abs(c1 - D12).max(axis=(1, 2))
            # beta = acos(.) loses half the digits at beta = 0, pi: tolerance 1e-6
            i = int(np.argmax(e1))
            if e1[i] > 1e-6:
                res.fail("D:homomorphism", "D(R1)D(R2) != D(R1R2) for 2j=%d: residual %.3g at angles1=%r angles2=%r" % (
                    N, e1[i], (g[i], b[i], a[i]), (g2[i], b2[i], a2[i])), {"op": "hom", "N": N})
    # rotation-boost-rotation products composing to a pure rotation:  B(-w) R B(w) with R about z commutes -> pure rotation
    w = rng.uniform(0.1, 2.0, n)
    Rz = SU2M.Rotation_z(tfc(a))
    prod = SU2M.Boost_z(tfc(-w)) * Rz * SU2M.Boost_z(tfc(w))
    e = SU2M.get_euler_angle(prod)
    Rr = SU2M.Rotation_z(e["gamma"]) * SU2M.Rotation_y(e["beta"]) * SU2M.Rotation_z(e["alpha"])
    x = np.array([[prod["x"][i][j].numpy() for j in range(2)] for i in range(2)])
    y = np.array([[Rr["x"][i][j].numpy() for j in range(2)] for i in range(2)])
    err = np.abs(x - y).max()
    if err > 1e-6:
        res.fail("su2:euler-boost-product", "Euler angles of B(-w)Rz(a)B(w) do not reproduce the rotation: residual %.3g" % err, {"op": "euler-boost"})
    # general rotation-boost products (the statement of C12e.euler_roundtrip_two_routes): L = Ry(b2) Bz(w) Rz(a2) is det 1 but not
    # unitary; (W L) L^-1 must be the pure rotation W, and its Euler angles must reproduce W; L^-1 L = 1 for boost-containing L
    L = SU2M.Rotation_y(tfc(b2)) * SU2M.Boost_z(tfc(w)) * SU2M.Rotation_z(tfc(a2))
    mat = lambda M: np.array([[M["x"][i][j].numpy() for j in range(2)] for i in range(2)])  # noqa: E731
    X = (R1 * L) * L.inv()
    eX = SU2M.get_euler_angle(X)
    Rx = SU2M.Rotation_z(eX["gamma"]) * SU2M.Rotation_y(eX["beta"]) * SU2M.Rotation_z(eX["alpha"])
    e_inv = float(np.abs(mat(L.inv() * L) - np.eye(2)[:, :, None]).max())
    e_prod = float(np.abs(mat(X) - mat(R1)).max())
    e_eul = float(np.abs(mat(Rx) - mat(R1)).max())
    scale = float(np.exp(np.max(w)))  # entries of L are up to exp(w/2): products of two of them up to exp(w)
    if e_inv > 1e-12 * scale:
        res.fail("su2:inverse:boost", "SU2M.inv() of Ry(b) Bz(w) Rz(a) is not its inverse: |L^-1 L - 1| = %.3g" % e_inv, {"op": "inv-boost"})
    elif e_prod > 1e-11 * scale:
        res.fail("su2:rotation-boost-product", "(W L) L^-1 with L = Ry(b) Bz(w) Rz(a) is not the rotation W: residual %.3g" % e_prod, {"op": "rbr"})
    elif e_eul > 1e-6:
        res.fail("su2:euler-boost-product", "Euler angles of (W L) L^-1 (a rotation-boost product that composes to the rotation W) do not reproduce W: residual %.3g" % e_eul, {"op": "rbr-euler"})
    # inverse
    inv = R1.inv() * R1
    xi = np.array([[inv["x"][i][j].numpy() for j in range(2)] for i in range(2)])
    if np.abs(xi - np.eye(2)[:, :, None]).max() > 1e-12:
        res.fail("su2:inverse", "SU2M.inv() * self != 1", {"op": "inv"})

    # CG: exact values (independent Fraction Racah) and orthonormality through the run-time path
    tuples = list(cg_tuples(8))
    rnd = random.Random(ctx.seed + 122)
    sample = [t for t in tuples if max(t[0], t[2]) <= 2] + rnd.sample(tuples, 150 if (ctx.quick and not ctx.suspect) else 3000)
    for t in sample:
        j1, m1, j2, m2, J, M = t
        sg, sq = racah(*t)
        want = sg * math.sqrt(float(sq))
        got = float(cgmod.cg_coef(half(j1), half(j2), half(m1), half(m2), half(J), half(M)))
        if abs(got - want) > 1e-12:
            res.fail("cg:value", "cg_coef(2j1=%d,2m1=%d,2j2=%d,2m2=%d|2J=%d,2M=%d) = %r, exact value %r" % (*t, got, want), {"op": "cg", "args": t})
            break
    for t in cg_tuples(8, integer_only=True):
        j1, m1, j2, m2, J, M = t
        sg, sq = racah(*t)
        want = sg * math.sqrt(float(sq))
        got = float(cgmod.get_cg_coef(j1 // 2, j2 // 2, m1 // 2, m2 // 2, J // 2, M // 2))
        if abs(got - want) > 1e-12:
            res.fail("cg:table", "get_cg_coef table entry (j1=%d,m1=%d,j2=%d,m2=%d|J=%d,M=%d) = %r, exact value %r" % (j1 // 2, m1 // 2, j2 // 2, m2 // 2, J // 2, M // 2, got, want),
                     {"op": "cgtab", "args": t})
            break
    res.coverage["search_angles"] = int(n)


def replay(ctx, payload):
    import sys
    return C.rerun_search_replay(sys.modules[__name__], ctx, payload)


MANIFEST = {
    "text": "Lean theorems: for every spin 2j<=8, all m,m' and ALL real beta (incl. 0 and pi) the small-d matrix built from the modelled weights is orthogonal (d_unitary), via a kernel-checked homogeneous polynomial identity valid for all real s,c (z_poly_unitary) lifted to the reals; Clebsch-Gordan coefficients by Racah's closed form with kernel-checked exact orthonormality over the whole 2j<=8 grid, integer and half-integer (cg_orthonormal); SU2M algebra (associativity, det multiplicative, inv is the two-sided inverse for det 1, Rz/Ry/Bz have det 1) the Euler-angle round trip Rz(gamma)Ry(beta)Rz(alpha) = U for EVERY U in SU(2) incl. beta = 0, pi (euler_roundtrip), also for products of rotations and boosts that compose to a rotation (euler_roundtrip_two_routes / _changeRef / _alignR / _rotation_boost_rotation: two det-1 products bringing one massive momentum to rest differ by an SU(2) element that get_euler_angle reproduces); and D(R1)D(R2) = D(R1R2) for every 2j<=8 and all angles (D_hom_su2). The model's weights/CG values are compared entry by entry with small_d_weight, small_d_matrix, D_matrix_conj, cg_coef (sympy path) and the bundled cg_table on every run.",
    "note": "Model = TfPwaV.Wigner (exact Rat/Int). Tie = line-protocol comparison of every table entry and of matrix elements on edge+random angles. templates/SU2.lean.in (real-pair transcription of SU2M) compared op by op with the real class. Rotation-boost products that compose to a rotation: proved to lie in SU(2) and to round-trip through get_euler_angle (Props/C12e.lean via the spinor map of C02d) given that both products bring one massive momentum to rest; that the implementation's accumulated matrices do so is validated (search: unitarity residual; C02: captured matrices). Trusted: Lean kernel, standard axioms, sympy CG evaluation, libm.",
    "technique": "Lean 4 proof (kernel-evaluated exact polynomial/rational identities lifted to the reals) + exhaustive table correspondence with the implementation",
}
